//! Type-level witnesses (K8): programs that violate a property must fail to build, with the stated error code.
//! Every `compile_fail` block has a compiling twin that differs only by the offending line, so a witness whose paths are merely
//! wrong cannot pass.

/// C15 - an inference snapshot is a linear token: rolling the same snapshot back twice must not type-check
/// (`rollback_to` / `commit` take it by value and `InferenceSnapshot` is neither `Clone` nor `Copy`).
///
/// ```compile_fail,E0382
/// use chalk_integration::interner::ChalkIr;
/// use chalk_solve::infer::InferenceTable;
/// let mut table: InferenceTable<ChalkIr> = InferenceTable::new();
/// let snapshot = table.snapshot();
/// table.rollback_to(snapshot);
/// table.rollback_to(snapshot); // use of moved value
/// ```
///
/// twin (one rollback): compiles.
///
/// ```
/// use chalk_integration::interner::ChalkIr;
/// use chalk_solve::infer::InferenceTable;
/// let mut table: InferenceTable<ChalkIr> = InferenceTable::new();
/// let snapshot = table.snapshot();
/// table.rollback_to(snapshot);
/// ```
///
/// committing and then rolling back the same snapshot must not type-check either:
///
/// ```compile_fail,E0382
/// use chalk_integration::interner::ChalkIr;
/// use chalk_solve::infer::InferenceTable;
/// let mut table: InferenceTable<ChalkIr> = InferenceTable::new();
/// let snapshot = table.snapshot();
/// table.commit(snapshot);
/// table.rollback_to(snapshot); // use of moved value
/// ```
///
/// and a snapshot cannot be duplicated:
///
/// ```compile_fail,E0599
/// use chalk_integration::interner::ChalkIr;
/// use chalk_solve::infer::InferenceTable;
/// let mut table: InferenceTable<ChalkIr> = InferenceTable::new();
/// let snapshot = table.snapshot();
/// let copy = snapshot.clone(); // no method `clone`
/// table.rollback_to(copy);
/// table.rollback_to(snapshot);
/// ```
pub struct C15SnapshotIsLinear;

/// C27 - the unsafe in-place mapping helpers are not nameable from outside chalk-ir: the only way to reach them is
/// `TypeFoldable for Vec<T>` / `Box<T>`, which pass a layout-checked mapping function.
///
/// ```compile_fail,E0603
/// use chalk_ir::fold::in_place::fallible_map_vec; // module `in_place` is private
/// let v: Vec<u8> = Vec::new();
/// let _ = fallible_map_vec::<u8, u8, ()>(v, |x| Ok(x));
/// ```
///
/// twin: the public folding API is nameable.
///
/// ```
/// use chalk_ir::fold::TypeFoldable;
/// fn _takes<T: TypeFoldable<chalk_integration::interner::ChalkIr>>() {}
/// ```
pub struct C27InPlaceIsPrivate;
