"""Rule building blocks shared by the property modules (K2..K5 helpers)."""
import re
from core import (walk, calls, peel, callee_matches, callee_names, trace_is_call, trace_is_field, var_name,
                  is_tracing, op_place, place_fields, find_matches, select_arms, V, T, ANY, YES, NO, MAYBE)


def short(key):
    return key.replace("chalk_solve::", "solve::").replace("chalk_engine::", "engine::") \
              .replace("chalk_recursive::", "rec::").replace("chalk_ir::", "ir::") \
              .replace("chalk_integration::", "integ::")


def need_body(ck, facts, rule, key):
    b = facts.body(key)
    if b is None:
        ck.violation(rule, "missing-anchor:%s" % key, "", "function not found in the extracted program "
                     "(renamed or removed); the rule refuses to pass vacuously")
    return b


def const_bool(body):
    """The literal a trivial `fn f(&self) -> bool { true }` returns, else None."""
    n = peel(body.thir)
    if isinstance(n, dict) and n.get("k") == "block" and not n.get("stmts") and n.get("expr") is not None:
        n = peel(n["expr"])
    if isinstance(n, dict) and n.get("k") == "lit":
        v = n["v"]
        if "true" in v:
            return True
        if "false" in v:
            return False
    return None


def has_call(node, fn):
    return next(calls(node, fn), None) is not None


def thir_all(facts, body):
    """THIR roots of a body and all closures nested in it."""
    out = [body.thir]
    for c in facts.closures_of(body):
        if c.thir is not None:
            out.append(c.thir)
    return out


def has_call_deep(facts, body, fn):
    return any(has_call(t, fn) for t in thir_all(facts, body))


def calls_deep(facts, body, fn=None):
    for t in thir_all(facts, body):
        for c in calls(t, fn):
            yield c


def guard_sites(ck, rule, body, site_blocks, edges, what, guard_desc, unwind=False):
    """Every site block must be reachable only through one of `edges`."""
    cfg = body.cfg
    n = 0
    for sb in site_blocks:
        n += 1
        inst = "%s:%s@%s" % (short(body.key), what, guard_desc)
        if not edges:
            ck.violation(rule, inst, body.where(), "guard `%s` not found in %s" % (guard_desc, body.key))
        elif cfg.must_pass_edges(sb, edges, unwind):
            ck.ok(rule, inst, "bb%d reachable only through %d guard edge(s)" % (sb, len(edges)))
        else:
            ln = cfg.blocks[sb]["t"].get("ln")
            ck.violation(rule, inst, body.where(ln),
                         "a path reaches `%s` without passing the guard `%s`" % (what, guard_desc))
    return n


def dominated_by_calls(ck, rule, body, site_fn, by_fn, what=None, by=None):
    """Every call to site_fn must be preceded on all paths by a call to by_fn."""
    cfg = body.cfg
    sites = cfg.call_blocks(site_fn)
    doms = cfg.call_blocks(by_fn)
    what = what or str(site_fn)
    by = by or str(by_fn)
    for sb in sites:
        inst = "%s:%s after %s" % (short(body.key), what, by)
        if doms and cfg.must_pass_blocks(sb, doms):
            ck.ok(rule, inst, "bb%d dominated by call(s) in %s" % (sb, doms))
        else:
            ck.violation(rule, inst, body.where(cfg.blocks[sb]["t"].get("ln")),
                         "`%s` can be reached without first calling `%s`" % (what, by))
    return len(sites)


def all_returns_pass(ck, rule, body, from_blocks, through_blocks, what, unwind=False):
    """Every path from any of from_blocks to a normal return (and resume when unwind) passes through_blocks."""
    cfg = body.cfg
    exits = set(cfg.return_blocks()) | (set(cfg.resume_blocks()) if unwind else set())
    bad = []
    for fb in from_blocks:
        reach = cfg.reachable(fb, (), unwind, stop=set(through_blocks))
        esc = [e for e in exits if e in reach and e not in through_blocks]
        if esc:
            bad.append((fb, esc))
    inst = "%s:%s" % (short(body.key), what)
    if bad:
        ck.violation(rule, inst, body.where(), "exit(s) %s reachable without passing the required site" % bad[:3])
    else:
        ck.ok(rule, inst, "%d start block(s), all exits pass" % len(from_blocks))
    return not bad


def field_of(node):
    """If node is (possibly referenced) `<expr>.field`, return (field name, adt)."""
    n = peel(node)
    if isinstance(n, dict) and n.get("k") == "field":
        return n["n"], n.get("adt")
    return None, None


def mentions_field(node, name):
    return any(x.get("k") == "field" and x.get("n") == name for x in walk(node))


def arm_outcome_summary(arm_body):
    """Generic summary of an arm body used by K1 classifiers."""
    cs = []
    ctors = []
    lits = []
    for n in walk(arm_body):
        k = n.get("k")
        if k == "call":
            cs.extend(callee_names(n)[:1])
        elif k == "adt":
            ctors.append("%s::%s" % (n["adt"].split("::")[-1], n["v"]))
        elif k == "lit":
            lits.append(n["v"])
    return {"calls": cs, "ctors": ctors, "lits": lits}


def result_expr(node):
    """The tail expression that gives a block/arm its value (following blocks)."""
    n = node
    while isinstance(n, dict):
        k = n.get("k")
        if k == "block":
            if n.get("expr") is None:
                return n
            n = n["expr"]
        elif k in ("ref", "deref", "coerce", "cast"):
            n = n["e"]
        else:
            return n
    return n


def is_lit_bool(node, val=None):
    n = result_expr(node)
    if isinstance(n, dict) and n.get("k") == "lit":
        b = "true" in n["v"]
        if "true" not in n["v"] and "false" not in n["v"]:
            return False
        return True if val is None else (b == val)
    return False


def is_err_nosolution(node):
    n = result_expr(node)
    if isinstance(n, dict) and n.get("k") == "return":
        n = result_expr(n.get("e"))
    if isinstance(n, dict) and n.get("k") == "call" and callee_matches(n, "Result::Err"):
        return True
    if isinstance(n, dict) and n.get("k") == "adt" and n["v"] == "Err":
        return True
    return False


# ---- string literals / format templates --------------------------------------------------------------

def _decode_template(bs):
    """rustc's compact format_args! template: <len><bytes> literal pieces, 0xC0.. argument markers, 0 ends."""
    out = []
    i = 0
    while i < len(bs):
        b = bs[i]
        if b == 0:
            break
        if b < 0x80:
            out.append(bytes(bs[i + 1:i + 1 + b]).decode("utf8", "replace"))
            i += 1 + b
        elif b == 0x80:
            # long literal: two-byte length
            ln = bs[i + 1] | (bs[i + 2] << 8)
            out.append(bytes(bs[i + 3:i + 3 + ln]).decode("utf8", "replace"))
            i += 3 + ln
        else:
            out.append("{}")
            # 0xC0 | flags: following option bytes (flags, width, precision, index) per set bit
            extra = 0
            if b & 0x01:
                extra += 4
            if b & 0x02:
                extra += 2
            if b & 0x04:
                extra += 2
            if b & 0x08:
                extra += 2
            i += 1 + extra
    return "".join(out)


def string_literals(node, skip_tracing=True):
    """All string literals and decoded format templates under a THIR node."""
    import ast as _ast
    out = []
    for n in walk(node, skip_tracing):
        if n.get("k") != "lit":
            continue
        v = n["v"]
        if v.startswith("Str("):
            m = re.match(r'^Str\((".*"), \w+\)$', v, re.S)
            if m:
                try:
                    out.append(_ast.literal_eval(m.group(1)))
                except Exception:
                    out.append(m.group(1).strip('"'))
        elif v.startswith("ByteStr(["):
            m = re.match(r"^ByteStr\(\[([0-9, ]*)\]", v)
            if m:
                bs = [int(x) for x in m.group(1).split(",") if x.strip()]
                out.append(_decode_template(bs))
    return out


# ---- tiny symbolic walk over `if` conditions on boolean flag fields ----------------------------------

def eval_flag_cond(cond, flags):
    """Evaluate a condition built from `x.flag`, `!`, `&&`, `||` under a flag assignment; None if unknown."""
    c = peel(cond)
    if not isinstance(c, dict):
        return None
    k = c.get("k")
    if k == "field" and c["n"] in flags:
        return flags[c["n"]]
    if k == "un" and c["op"] == "Not":
        v = eval_flag_cond(c["e"], flags)
        return None if v is None else (not v)
    if k == "logic":
        l, r = eval_flag_cond(c["l"], flags), eval_flag_cond(c["r"], flags)
        if c["op"] == "And":
            if l is False or r is False:
                return False
            return True if (l and r) else None
        if l is True or r is True:
            return True
        return False if (l is False and r is False) else None
    if k == "call" and c.get("fn", "").split("::")[-1] in flags:
        return flags[c["fn"].split("::")[-1]]
    return None


def reachable_nodes(node, flags, in_loop=False):
    """Expression nodes executed under a flag assignment: `if`s on known flags take one branch, everything else is
    descended into. Yields (node, in_loop)."""
    if isinstance(node, list):
        for x in node:
            yield from reachable_nodes(x, flags, in_loop)
        return
    if not isinstance(node, dict):
        return
    if is_tracing(node):
        return
    k = node.get("k")
    if k == "if":
        v = eval_flag_cond(node["cond"], flags)
        if v is True:
            yield from reachable_nodes(node["then"], flags, in_loop)
            return
        if v is False:
            if node.get("else") is not None:
                yield from reachable_nodes(node["else"], flags, in_loop)
            return
    if k == "match" and node.get("arms"):
        # `match flag {..}` / `match (flag_a, flag_b) {..}` on known flags takes exactly one arm
        sc = peel(node.get("scrut"))
        comps = (sc.get("es") or []) if isinstance(sc, dict) and sc.get("k") == "tuple" else [sc]
        vals = [eval_flag_cond(c, flags) for c in comps]
        if comps and all(v is not None for v in vals):
            cv = [("const", "true" if v else "false") for v in vals]
            val = T(*cv) if isinstance(sc, dict) and sc.get("k") == "tuple" else cv[0]
            arms = select_arms(node, val)
            if arms and arms[0][1] == YES and node["arms"][arms[0][0]].get("guard") is None:
                yield node, in_loop
                yield from reachable_nodes(node["arms"][arms[0][0]]["body"], flags, in_loop)
                return
    if "k" in node:
        yield node, in_loop
    loop = in_loop or k == "loop"
    for key, v in node.items():
        if key == "pat":
            continue
        if isinstance(v, (dict, list)):
            yield from reachable_nodes(v, flags, loop)


def ctor_names(node, adt_suffix):
    """Variant names of constructors of the given ADT appearing under node, in order."""
    return [n["v"] for n in walk(node) if n.get("k") == "adt" and n["adt"].endswith(adt_suffix)]


def user_block(thir):
    """The function body as written by the user: strips the wrapper blocks `#[tracing::instrument]` adds."""
    n = thir
    for _ in range(6):
        if not isinstance(n, dict) or n.get("k") != "block":
            break
        stmts = n.get("stmts", [])
        is_instr = any(st.get("k") == "let" and str(st.get("pat", {}).get("n", "")).startswith("__tracing_attr") for st in stmts)
        def noise(st):
            if st.get("k") == "block" and not st.get("stmts") and st.get("expr") is None:
                return True
            # `if false { let __tracing_attr_fake_return = loop {}; return .. }`
            return st.get("k") == "if" and peel(st["cond"]).get("k") == "lit" and "false" in peel(st["cond"])["v"]
        trivial = all(noise(st) for st in stmts)
        if n.get("expr") is not None and (is_instr or (stmts and trivial)):
            n = n["expr"]
            continue
        break
    return n


# ---- K9 LOOP-TOTAL: a `for` loop that must treat every element ---------------------------------------

PANIC_FNS = ("core::panicking::", "std::rt::begin_panic", "core::panicking::panic_fmt", "std::process::abort",
             "core::intrinsics::unreachable", "core::hint::unreachable_unchecked")


def for_loops(thir, skip_tracing=True):
    """[(outer match node, iterated expression, element pattern, body of the `Some(x) =>` arm)] for every `for` loop under thir."""
    out = []
    for l in walk(thir, skip_tracing):
        if l.get("k") != "match" or not str(l.get("src", "")).startswith("ForLoopDesugar"):
            continue
        sc = l.get("scrut") or {}
        if sc.get("k") != "call" or not str(sc.get("fn", "")).endswith("IntoIterator::into_iter"):
            continue
        inner = None
        for n in walk(l["arms"][0]["body"], skip_tracing):
            if n.get("k") == "match" and str(n.get("src", "")).startswith("ForLoopDesugar") and \
                    str((n.get("scrut") or {}).get("fn", "")).endswith("Iterator::next"):
                inner = n
                break
        if inner is None:
            continue
        some = [a for a in inner["arms"] if a["pat"].get("v") == "Some"]
        if not some:
            continue
        pat = some[0]["pat"]["sub"][0][2] if some[0]["pat"].get("sub") else None
        out.append((l, sc["args"][0], pat, some[0]["body"]))
    return out


def _is_question_mark(n):
    return "`?`" in str(n.get("x", "")) or "QuestionMark" in str(n.get("x", ""))


def loop_flow(node, passed, sink, excused=None):
    """Structured control-flow walk of a loop body.  -> set of (outcome, passed) with outcome in
    next | continue | break | return | errreturn | diverge.  `sink(node)` says whether evaluating a node satisfies the obligation of
    the iteration; `excused(if-node)` -> 'then' | 'else' | None names a branch of an `if` that is allowed to skip the obligation."""
    def seq(nodes, states):
        """evaluate nodes in order from a set of (outcome, passed) states"""
        done = set()
        cur = set(states)
        for x in nodes:
            nxt = set()
            for oc, p in cur:
                if oc != "next":
                    done.add((oc, p))
                else:
                    nxt |= ev(x, p)
            cur = nxt
        return done | cur

    def ev(n, p):
        if n is None:
            return {("next", p)}
        if isinstance(n, list):
            return seq(n, {("next", p)})
        if not isinstance(n, dict) or "k" not in n:
            if isinstance(n, dict):
                return seq([v for v in n.values() if isinstance(v, (dict, list))], {("next", p)})
            return {("next", p)}
        if is_tracing(n):
            return {("next", p)}
        k = n["k"]
        if k == "closure":
            return {("next", p)}
        if k == "break":
            return {("break", p)}
        if k == "continue":
            return {("continue", p)}
        if k == "return":
            r = ev(n.get("e"), p)
            return {(("errreturn" if _is_question_mark(n) else "return"), q) if oc == "next" else (oc, q) for oc, q in r}
        if k == "block":
            return seq(list(n.get("stmts", [])) + [n.get("expr")], {("next", p)})
        if k == "let":
            r = ev(n.get("init"), p)
            if n.get("else") is not None:
                out = set()
                for oc, q in r:
                    if oc == "next":
                        out.add(("next", q))
                        out |= {(o2, q2) for o2, q2 in ev(n["else"], q) if o2 != "next"}
                    else:
                        out.add((oc, q))
                return out
            return r
        if k == "if":
            out = set()
            ex = excused(n) if excused else None
            for oc, q in ev(n.get("cond"), p):
                if oc != "next":
                    out.add((oc, q))
                    continue
                if ex == "then-exit":
                    # an audited early exit: leaving the loop from this branch is allowed
                    out |= {(o2, q2) for o2, q2 in ev(n.get("then"), True) if o2 not in ("break", "return", "continue")}
                    if n.get("else") is not None:
                        out |= ev(n["else"], q)
                    else:
                        out.add(("next", q))
                    continue
                out |= ev(n.get("then"), True if ex == "then" else q)
                if n.get("else") is not None:
                    out |= ev(n["else"], True if ex == "else" else q)
                else:
                    out.add(("next", True if ex == "else" else q))
            return out
        if k == "logic":
            out = set()
            for oc, q in ev(n.get("l"), p):
                if oc != "next":
                    out.add((oc, q))
                else:
                    out.add(("next", q))
                    out |= ev(n.get("r"), q)
            return out
        if k == "match":
            out = set()
            for oc, q in ev(n.get("scrut"), p):
                if oc != "next":
                    out.add((oc, q))
                    continue
                if sink(n):
                    q = True
                for a in n.get("arms", []):
                    out |= ev(a.get("body"), q)
            return out
        if k == "loop":
            out = set()
            for oc, q in ev(n.get("body"), p):
                if oc in ("break",):
                    out.add(("next", q))
                elif oc in ("next", "continue"):
                    # runs again; an unconditional loop only leaves through break / return
                    pass
                else:
                    out.add((oc, q))
            return out or {("diverge", p)}
        if k == "call":
            kids = []
            if isinstance(n.get("f"), dict):
                kids.append(n["f"])
            kids.extend(n.get("args", []))
            out = set()
            for oc, q in seq(kids, {("next", p)}):
                if oc != "next":
                    out.add((oc, q))
                elif any(str(n.get("fn", "")).startswith(x) for x in PANIC_FNS):
                    out.add(("diverge", q))
                else:
                    out.add(("next", True if sink(n) else q))
            return out
        # generic: evaluate sub-expressions in order
        kids = []
        for key, v in n.items():
            if key in ("pat", "ty"):
                continue
            if isinstance(v, (dict, list)):
                kids.append(v)
        out = seq(kids, {("next", p)})
        if sink(n):
            out = {(oc, True) if oc == "next" else (oc, q) for oc, q in out}
        return out

    return ev(node, passed)


def loop_total(ck, rule, inst, body_where, loop_body, sink, excused=None, allow_err_exit=False, what="the element"):
    """K9: every iteration of the loop reaches `sink` (except through an excused branch) and the loop is left only by exhaustion."""
    res = loop_flow(loop_body, False, sink, excused)
    bad = []
    if any(oc in ("next", "continue") and not p for oc, p in res):
        bad.append("an iteration can finish without processing %s (a `continue`, a filter or a branch skips it)" % what)
    if any(oc == "break" for oc, p in res):
        bad.append("the loop can `break` before all elements were seen")
    if any(oc == "return" for oc, p in res):
        bad.append("the loop can `return` before all elements were seen")
    if not allow_err_exit and any(oc == "errreturn" for oc, p in res):
        bad.append("the loop can leave through `?` before all elements were seen")
    if bad:
        ck.violation(rule, inst, body_where, "; ".join(bad))
        return False
    ck.ok(rule, inst, "every iteration reaches the sink; no early exit (%d path class(es))" % len(res))
    return True


def collector_never_breaks(ck, rule, facts, crate, impl_prefix, name, floor=1):
    """K1: a visitor whose job is to *collect every occurrence* must not abort the traversal: no method of the impl constructs
    ControlFlow::Break (the callers ignore the result, so a Break silently drops everything visited afterwards)."""
    n = 0
    for key, b in sorted(facts.bodies(crate).items()):
        if not key.startswith(impl_prefix) or b.thir is None:
            continue
        n += 1
        meth = key[len(impl_prefix):].lstrip(":")
        brk = [x for t in thir_all(facts, b) for x in walk(t)
               if x.get("k") == "adt" and str(x.get("adt", "")).endswith("ControlFlow") and x.get("v") == "Break"]
        if brk:
            ck.violation(rule, "%s::%s:breaks" % (name, meth), b.where(brk[0].get("ln")),
                         "%s is a collecting visitor but `%s` returns ControlFlow::Break: the traversal stops there and everything that "
                         "would have been visited afterwards is silently left out" % (name, meth))
        else:
            ck.ok(rule, "%s::%s:never-breaks" % (name, meth))
    ck.floor(rule, "%s.methods" % name, n, floor)
    return n


# ---- monotone boolean functions ("may differ" = OR of the component results) --------------------------------------------------

class _Return(Exception):
    def __init__(self, v):
        self.v = v


def _diverges(n):
    """a panic!/unreachable! expression (type `!`)"""
    for c in walk(n, skip_tracing=False):
        if c.get("k") == "call" and any(str(x).startswith(PANIC_FNS) for x in callee_names(c)):
            return True
    return False


def bool_paths(node):
    """Expand every `match` that gives the value of `node` (tail position, through blocks) into one tree per arm:
    -> list of (arm-label, tree) where tree has the match replaced by the arm body."""
    n = node
    if not isinstance(n, dict):
        return [("", n)]
    k = n.get("k")
    if k == "block" and n.get("expr") is not None:
        out = []
        for lab, sub in bool_paths(n["expr"]):
            m = dict(n)
            m["expr"] = sub
            out.append((lab, m))
        return out
    if k == "match":
        out = []
        for i, arm in enumerate(n.get("arms", [])):
            for lab, sub in bool_paths(arm["body"]):
                out.append(("arm%d%s" % (i, lab), {"k": "block", "stmts": [], "expr": sub, "_arm": arm}))
        return out
    return [("", n)]


def bool_atoms(n, out=None):
    """atoms of a boolean tree in evaluation order: maximal sub-expressions that are not boolean structure"""
    if out is None:
        out = []
    n = peel(n)
    if not isinstance(n, dict):
        return out
    k = n.get("k")
    if k == "block":
        for st in n.get("stmts", []):
            if st.get("k") == "let":
                continue
            if st.get("k") in ("if", "return"):
                bool_atoms(st, out)
        if n.get("expr") is not None:
            bool_atoms(n["expr"], out)
    elif k == "if":
        bool_atoms(n["cond"], out)
        bool_atoms(n["then"], out)
        if n.get("else") is not None:
            bool_atoms(n["else"], out)
    elif k == "logic":
        bool_atoms(n["l"], out)
        bool_atoms(n["r"], out)
    elif k == "un" and n.get("op") == "Not":
        bool_atoms(n["e"], out)
    elif k == "return":
        if n.get("e") is not None:
            bool_atoms(n["e"], out)
    elif k == "lit":
        pass
    else:
        out.append(n)
    return out


def bool_eval(n, vals):
    """evaluate a boolean tree under an assignment {id(atom): bool}; None = not interpretable"""
    n = peel(n)
    if not isinstance(n, dict):
        return None
    k = n.get("k")
    if id(n) in vals:
        return vals[id(n)]
    if k == "block":
        for st in n.get("stmts", []):
            if st.get("k") == "let" and st.get("else") is None:
                continue
            if st.get("k") in ("if", "return"):
                bool_eval(st, vals)       # may raise _Return
                continue
            if not any(x.get("k") == "return" for x in walk(st, skip_tracing=False)):
                continue                  # cannot decide the result (an assertion, a log line)
            return None
        return bool_eval(n["expr"], vals) if n.get("expr") is not None else None
    if k == "lit":
        v = str(n.get("v"))
        return True if "true" in v else False if "false" in v else None
    if k == "un" and n.get("op") == "Not":
        r = bool_eval(n["e"], vals)
        return None if r is None else (not r)
    if k == "logic":
        l = bool_eval(n["l"], vals)
        if n["op"] == "Or":
            if l is True:
                return True
            r = bool_eval(n["r"], vals)
            return r if l is False else (True if r is True else None)
        if l is False:
            return False
        r = bool_eval(n["r"], vals)
        return r if l is True else (False if r is False else None)
    if k == "if":
        c = bool_eval(n["cond"], vals)
        if c is None:
            return None
        if c:
            return bool_eval(n["then"], vals)
        return bool_eval(n["else"], vals) if n.get("else") is not None else None
    if k == "return":
        raise _Return(bool_eval(n["e"], vals) if n.get("e") is not None else None)
    return None


def atom_polarity(a, differ_calls):
    """+1: the atom being true means `the components may differ`; -1: being false means that; 0: unknown"""
    k = a.get("k")
    if k == "bin" and a.get("op") in ("Ne", "Eq"):
        return 1 if a["op"] == "Ne" else -1
    if k == "call":
        if callee_matches(a, "PartialEq::ne"):
            return 1
        last = {str(x).split("::")[-1] for x in callee_names(a)}
        if callee_matches(a, "PartialEq::eq") or "const_eq" in last:
            return -1
        if any(differ_calls(x) for x in last):
            return 1
    return 0


def may_differ_disjunctive(ck, rule, inst_prefix, where, tree, differ_calls, describe):
    """`tree` computes "the two values may differ".  It must be monotone in every component test: whenever one component test says
    `may differ` (and all others say `same`), the result is true.  `&&` between component results, a negated test, an early
    `return false`, all break this.  -> number of component tests examined"""
    n = 0
    for lab, path in bool_paths(tree):
        arm = path.get("_arm") if isinstance(path, dict) else None
        atoms = bool_atoms(path)
        if not atoms:
            continue
        pols = [atom_polarity(a, differ_calls) for a in atoms]
        if _diverges(path) and all(p == 0 for p in pols):
            continue
        ln = (arm or {}).get("ln")
        for a, p in zip(atoms, pols):
            desc = describe(a)
            inst = "%s%s:%s" % (inst_prefix, (":" + arm_label(arm)) if arm else "", desc)
            if p == 0:
                ck.violation(rule, inst + ":unclassified", where(a.get("ln") or ln), "a test the evaluator cannot read as a component comparison "
                             "(checker limitation or an unusual construct)")
                continue
            n += 1
            vals = {id(b): (q < 0) for b, q in zip(atoms, pols)}      # every component: `same`
            vals[id(a)] = (p > 0)                                      # this one: `may differ`
            try:
                r = bool_eval(path, vals)
            except _Return as e:
                r = e.v
            if r is True:
                ck.ok(rule, inst, "alone sufficient for `true`")
            else:
                ck.violation(rule, inst, where(a.get("ln") or ln), "when only this component may differ the function answers %s: a differing "
                             "component is masked (e.g. `&&` instead of `||`, a negation, an early `return false`)" % ("false" if r is False else "something the evaluator cannot read"))
    return n


def arm_label(arm):
    """variant names of an arm's pattern, e.g. (Array,Array)"""
    if not arm:
        return ""
    names = []

    def go(p):
        if not isinstance(p, dict):
            return
        if p.get("k") == "variant" and p.get("v"):
            names.append(str(p["v"]))
            return
        for key in ("sub", "pats"):
            v = p.get(key)
            if isinstance(v, list):
                for x in v:
                    if isinstance(x, (list, tuple)):
                        go(x[-1])
                    else:
                        go(x)
            elif isinstance(v, dict):
                go(v)
    go(arm.get("pat"))
    return "(%s)" % ",".join(names[:4]) if names else "(_)"


# ---- inventory of element-dropping iterator adaptors ---------------------------------------------------------------------------

DROP_ADAPTORS = {"filter", "filter_map", "skip", "take", "skip_while", "take_while", "step_by", "find", "find_map", "nth", "last",
                 "dedup", "unique", "position", "retain", "truncate", "drain", "split_off", "split_first", "split_last", "first"}


def adaptor_sites(facts, crate, key_pred):
    """{(function key, adaptor): [(body, line)]} for std / itertools adaptors that can drop or pick elements"""
    seen = {}
    for key, b in sorted(facts.bodies(crate).items()):
        if b.thir is None or "{" in key or not key_pred(key):
            continue
        for t in thir_all(facts, b):
            for c in calls(t):
                fn = str(c.get("fn", ""))
                ad = fn.split("::")[-1]
                if ad in DROP_ADAPTORS and ("Iterator" in fn or "Itertools" in fn or "iter::" in fn or "Vec<" in fn or "slice" in fn
                                            or "vec::" in fn or "[T]" in fn):
                    seen.setdefault((key, ad), []).append((b, c.get("ln")))
    return seen


def adaptor_inventory(ck, R, facts, crate, key_pred, audit, what, floor=0, short_key=lambda k: k):
    """K6-style: every element-dropping adaptor in the selected functions is in `audit` {(short key, adaptor): (max count, reason)}.
    The detector's own sight is checked on every run against a function known to contain such an adaptor (positive control)."""
    ctrl = adaptor_sites(facts, "chalk_solve", lambda k: k == "chalk_solve::clauses::program_clauses_for_env")
    if not any(ad == "filter" for (_k, ad) in ctrl):
        ck.violation(R, "positive-control", "", "the adaptor detector no longer sees the `filter` in program_clauses_for_env: it has gone blind")
    seen = adaptor_sites(facts, crate, key_pred)
    total = 0
    for (key, ad), sites in sorted(seen.items()):
        sk = short_key(key)
        inst = "%s:%s" % (sk, ad)
        total += len(sites)
        if (sk, ad) in audit and len(sites) <= audit[(sk, ad)][0]:
            ck.ok(R, inst, audit[(sk, ad)][1][:140])
        else:
            b, ln = sites[-1]
            ck.violation(R, inst, b.where(ln), "%d use(s) of `.%s(..)` (audited: %d): %s; an adaptor that drops elements needs an audit "
                         "entry with its reason" % (len(sites), ad, audit.get((sk, ad), (0, ""))[0], what))
    ck.floor(R, "audited-adaptor-sites", total, floor)
    return seen



def let_bound(thir, init_pred):
    """names of variables bound by `let x = <init>` (or `let (x, ..) = ..`) whose initializer satisfies init_pred(node)"""
    from core import pat_bindings
    out = set()
    for st in walk(thir):
        if st.get("k") == "let" and st.get("init") is not None and init_pred(st["init"]):
            for n, _path in pat_bindings(st.get("pat")):
                out.add(n)
    return out


def params_of_type(body, substr):
    """names of the parameters of a body whose type mentions `substr`"""
    return {p.get("n") for p in (body.d.get("thir_params") or []) if isinstance(p, dict) and substr in str(p.get("ty", "")) and p.get("n")}



def let_inits(thir):
    """{name: initializer} for every simple `let name = init;` under thir (names bound once)"""
    seen, dup = {}, set()
    for st in walk(thir):
        if st.get("k") == "let" and st.get("init") is not None and (st.get("pat") or {}).get("k") == "bind" and not st["pat"].get("sub"):
            n = st["pat"].get("n")
            if n in seen:
                dup.add(n)
            seen[n] = st["init"]
    return {k: v for k, v in seen.items() if k not in dup}


def resolve_var(node, inits, depth=4):
    """follow `let x = e` bindings: the expression a variable stands for"""
    n = peel(node)
    for _ in range(depth):
        if isinstance(n, dict) and n.get("k") == "var" and n.get("n") in inits:
            n = peel(inits[n["n"]])
        else:
            break
    return n


def calls_grouped_edges(cfg, fn, want):
    """{call block: [edges]} - for every call to fn whose boolean result is switched on, the edges taken when it is `want`"""
    out = {}
    for i, t in cfg.switches():
        if t.get("ty") != "bool":
            continue
        tr = cfg.trace(t["o"])
        if tr.get("kind") != "call" or not callee_matches(tr["call"], fn):
            continue
        val = want != tr.get("neg", False)
        for e in cfg.succ[i]:
            lab = e[2]
            if lab[0] == "sw":
                is_true = lab[1] != 0
            else:
                is_true = all(v == 0 for v, _ in t["v"])
            if is_true == val:
                out.setdefault(tr["block"], []).append(e)
    return out


class FlagFlow:
    """Where does a boolean local get its value from?  Follows, inside one (closure- and helper-spliced) THIR tree:
       `let v = e`; `let (a, b) = helper(..)` against the tuple the spliced helper returns; `let v = match .. { arms }` / `if` values;
       assignments `v = true` together with the conditions that guard them.  Names are resolved per tree, not assumed."""

    def __init__(self, th):
        self.lets = {}
        self.assign_true = {}       # var -> [list of guarding conditions]
        self._scan(th, [])

    def _tuple_elems(self, init):
        """element expressions of the tuple a spliced helper call evaluates to"""
        for c in walk(init):
            if c.get("k") == "call" and isinstance(c.get("inl"), dict):
                res = result_expr(user_block(c["inl"]["body"]))
                for t in walk(res):
                    if t.get("k") == "tuple":
                        return t.get("es") or []
        p = peel(init)
        if isinstance(p, dict) and p.get("k") == "tuple":
            return p.get("es") or []
        return None

    def _scan(self, n, conds):
        if isinstance(n, list):
            for x in n:
                self._scan(x, conds)
            return
        if not isinstance(n, dict):
            return
        k = n.get("k")
        if k == "let" and n.get("init") is not None:
            pat = n.get("pat") or {}
            if pat.get("k") == "bind":
                self.lets.setdefault(pat.get("n"), []).append(n["init"])
            elif pat.get("k") in ("leaf", "tuple") and pat.get("sub"):
                elems = self._tuple_elems(n["init"])
                for idx, _name, sp in pat["sub"]:
                    if isinstance(sp, dict) and sp.get("k") == "bind" and elems and idx < len(elems):
                        self.lets.setdefault(sp["n"], []).append(elems[idx])
        if k == "assign":
            v = var_name(peel(n["l"]))
            r = peel(n["r"])
            if v and isinstance(r, dict) and r.get("k") == "lit" and "true" in str(r.get("v")):
                self.assign_true.setdefault(v, []).append(list(conds))
        if k == "if":
            self._scan(n["cond"], conds)
            self._scan(n["then"], conds + [n["cond"]])
            self._scan(n.get("else"), conds)
            return
        for key, v in n.items():
            if isinstance(v, (dict, list)) and key != "pat":
                self._scan(v, conds)

    def depends_on_call(self, expr, fn, depth=5, seen=None):
        """does the value of expr (a condition, a flag) derive from a call to fn?"""
        seen = seen or set()
        if has_call(expr, fn):
            return True
        if depth == 0:
            return False
        for v in expr_vars_(expr):
            if v in seen:
                continue
            seen = seen | {v}
            for init in self.lets.get(v, []):
                if self.depends_on_call(init, fn, depth - 1, seen):
                    return True
            for conds in self.assign_true.get(v, []):
                if any(self.depends_on_call(c, fn, depth - 1, seen) for c in conds):
                    return True
        return False


def expr_vars_(n):
    return {x["n"] for x in walk(n) if x.get("k") == "var"}



def mutated_self_fields(thir, adt_substr):
    """names of the fields of `self` (an ADT whose path contains adt_substr) that a function body may change: assigned, op-assigned,
    or mutably borrowed (receiver of a `&mut self` method such as push / pop / clear / insert)"""
    out = set()

    def field_of_self(n):
        n = peel(n)
        while isinstance(n, dict) and n.get("k") in ("index",):
            n = peel(n.get("e"))
        if isinstance(n, dict) and n.get("k") == "field" and adt_substr in str(n.get("adt", "")):
            return n.get("n")
        return None
    for n in walk(thir):
        k = n.get("k")
        if k in ("assign", "assignop"):
            f = field_of_self(n.get("l"))
            if f:
                out.add(f)
        elif k == "ref" and n.get("m"):
            f = field_of_self(n.get("e"))
            if f:
                out.add(f)
    return out



class Forward:
    """Evaluate ONE rule of another property's module under this property's check and name (the rule is a necessary condition of
    both properties; each registered check must be able to report it on its own)."""

    def __init__(self, ck_, src, dst):
        self.ck, self.src, self.dst = ck_, src, dst
        self.notes, self.analysed, self.extract_info = ck_.notes, ck_.analysed, ck_.extract_info
        self.tier = getattr(ck_, "tier", "quick")

    def _m(self, r):
        return r == self.src

    def rule(self, r, d):
        if self._m(r):
            self.ck.rule(self.dst, d)

    def ok(self, r, inst, detail=""):
        if self._m(r):
            self.ck.ok(self.dst, inst, detail)

    def violation(self, r, key, where="", detail=""):
        if self._m(r):
            self.ck.violation(self.dst, key, where, detail)

    def floor(self, r, what, count, floor):
        if self._m(r):
            self.ck.floor(self.dst, what, count, floor)

    def count(self, *a, **k):
        pass

    def require(self, *a, **k):
        return True

    def __getattr__(self, name):
        return getattr(self.ck, name)


def conditions_above(root, target):
    """The `if` / source-level `match` nodes on the path from `root` down to `target` (identity), outermost first; None when `target`
    is not below `root`.  Used for "this statement is executed unconditionally within that body"."""
    from core import children, is_tracing

    def rec(n, acc):
        if n is target:
            return acc
        if isinstance(n, dict):
            if is_tracing(n):
                return None
            nxt = acc
            if n.get("k") == "if" or (n.get("k") == "match" and str(n.get("src", "")).startswith("Normal")):
                nxt = acc + [n]
            for c in children(n):
                r = rec(c, nxt)
                if r is not None:
                    return r
        elif isinstance(n, list):
            for c in n:
                r = rec(c, acc)
                if r is not None:
                    return r
        return None
    return rec(root, [])
