"""Verdict collection, known-finding handling, evidence and replay files."""
import json
import os
import sys
import time

VERIF = os.path.dirname(os.path.dirname(os.path.abspath(__file__)))
KNOWN = os.path.join(VERIF, "known_findings.jsonl")


def load_known():
    out = []
    if os.path.exists(KNOWN):
        for line in open(KNOWN):
            line = line.strip()
            if line and not line.startswith("#"):
                out.append(json.loads(line))
    return out


class Check:
    """One property's run.  Rules call `ok` for each rule instance that was evaluated and held,
    `violation` for each that did not, and `floor` to fail closed when anchors disappear."""

    def __init__(self, prop, tier="quick", level="other"):
        self.prop = prop
        self.tier = tier
        self.level = level
        self.t0 = time.time()
        self.instances = []     # (rule, instance key, detail)
        self.violations = []    # dict(key, rule, where, detail)
        self.rules = {}         # rule id -> description
        self.analysed = {}      # free-form counters
        self.assumptions = []
        self.trusted = ["rustc nightly THIR/MIR for the pinned toolchain", "Instance::try_resolve callee resolution"]
        self.notes = []
        self.extract_info = {}

    def rule(self, rid, desc):
        self.rules[rid] = desc

    def ok(self, rule, instance, detail=""):
        self.instances.append((rule, instance, detail))

    def violation(self, rule, key, where="", detail=""):
        """key: line-number-free identifier '<rule>:<function>:<construct>'."""
        full = "%s:%s" % (rule, key)
        self.instances.append((rule, key, "VIOLATED " + detail))
        self.violations.append({"key": full, "rule": rule, "where": where, "detail": detail})

    def floor(self, rule, what, count, floor):
        """Fail closed if a rule matched fewer sites than were confirmed by hand."""
        self.analysed["%s.%s" % (rule, what)] = {"count": count, "floor": floor}
        if count < floor:
            self.violation(rule, "missing-anchor:%s" % what, "",
                           "matched %d site(s), expected at least %d: an anchor this rule depends on was renamed, "
                           "removed or changed shape; the rule refuses to pass vacuously" % (count, floor))
            return False
        return True

    def require(self, rule, what, obj):
        if obj is None or obj == [] or obj == {}:
            self.violation(rule, "missing-anchor:%s" % what, "", "anchor not found in the extracted program")
            return False
        return True

    def count(self, name, n):
        self.analysed[name] = n

    def finish(self):
        known = [k for k in load_known() if k.get("property") == self.prop]
        known_keys = {k["key"]: k for k in known if k.get("status") == "known"}
        wall = round(time.time() - self.t0, 2)
        new = []
        printed_known = []
        for v in self.violations:
            if v["key"] in known_keys:
                kf = known_keys[v["key"]]
                print("KNOWN-FINDING: property=%s %s -- %s" % (self.prop, v["key"], kf.get("what_fails", "")))
                printed_known.append(v["key"])
            else:
                new.append(v)
        rdir = os.path.join(VERIF, "reports", self.prop)
        os.makedirs(rdir, exist_ok=True)
        for v in new:
            safe = "".join(c if c.isalnum() or c in "._-" else "_" for c in v["key"])[:150]
            path = os.path.join(rdir, safe + ".json")
            with open(path, "w") as fh:
                json.dump({"property": self.prop, "rule": v["rule"], "rule_text": self.rules.get(v["rule"], ""),
                           "key": v["key"], "where": v["where"], "detail": v["detail"],
                           "rerun": "./check %s --tier %s" % (self.prop, self.tier)}, fh, indent=1)
            print("VIOLATION property=%s replay=%s" % (self.prop, path))
            print("  rule   : %s -- %s" % (v["rule"], self.rules.get(v["rule"], "")))
            print("  key    : %s" % v["key"])
            print("  where  : %s" % v["where"])
            print("  detail : %s" % v["detail"])
        # evidence
        distinct = sorted({(r, i) for r, i, d in self.instances})
        samples = []
        seen_rules = set()
        for r, i, d in self.instances:
            if r not in seen_rules or len(samples) < 12:
                samples.append({"rule": r, "instance": i, "detail": d[:300]})
                seen_rules.add(r)
            if len(samples) >= 40:
                break
        cov = {
            "explanation": "Static analysis of /repo's current working tree (THIR + MIR extracted by a rustc driver; "
                           "no chalk code executed). Rules: " + "; ".join("%s = %s" % kv for kv in sorted(self.rules.items())),
            "evaluations": len(self.instances),
            "distinct_nontrivial": len(distinct),
            "rule": "one evaluation per rule instance (a resolved site: function + construct); distinct = distinct "
                    "(rule, site) pairs; every counted instance matched a real site in the extracted program "
                    "(rules fail closed below their hand-counted floors)",
            "samples": samples,
            "rules": self.rules,
            "analysed": self.analysed,
            "known_findings_printed": printed_known,
            "new_violations": [v["key"] for v in new],
            "extraction": self.extract_info,
            "trusted_base": self.trusted,
            "notes": self.notes,
        }
        if self.level == "proof":
            cov["obligations"] = len(distinct)
            cov["discharged"] = len(distinct) - len({v["key"] for v in self.violations})
            cov["checker_cmd"] = "./check %s --tier %s" % (self.prop, self.tier)
        ev = {
            "property_id": self.prop,
            "tier": self.tier,
            "seed": int(os.environ.get("VERIF_SEED", "0") or 0),
            "level": self.level,
            "coverage": cov,
            "assumptions": self.assumptions,
            "wall_s": wall,
            "violations": len(new),
        }
        edir = os.environ.get("VERIF_EVIDENCE_DIR") or os.path.join(VERIF, "evidence")    # (override: development runs only)
        os.makedirs(edir, exist_ok=True)
        with open(os.path.join(edir, self.prop + ".json"), "w") as fh:
            json.dump(ev, fh, indent=1)
        print("%s: %d rule instance(s) evaluated, %d distinct, %d known finding(s), %d new violation(s) [%.1fs]"
              % (self.prop, len(self.instances), len(distinct), len(printed_known), len(new), wall))
        return 1 if new else 0
