"""E3: tokenizer for chalk-parse/src/parser.lalrpop (a data file, not Rust).

Yields, per nonterminal, its alternatives: the symbol sequence (terminals as quoted strings, nonterminal
references) and the action text.  Only lexical structure is used: string literals, identifiers, bracket depth."""
import re


class Alt:
    def __init__(self, symbols, action, fallible):
        self.symbols = symbols          # list of ('t', text) | ('n', name) | ('re', text)
        self.action = action            # str or None
        self.fallible = fallible        # `=>?`

    @property
    def terminals(self):
        return [s[1] for s in self.symbols if s[0] == "t"]

    @property
    def nonterminals(self):
        return [s[1] for s in self.symbols if s[0] == "n"]

    def __repr__(self):
        return "Alt(%s => %s)" % (self.symbols, (self.action or "")[:40])


def _scan(text):
    """Token stream: ('str', s) ('re', s) ('id', s) ('p', ch) with comments removed."""
    i, n = 0, len(text)
    out = []
    while i < n:
        c = text[i]
        if c.isspace():
            i += 1
            continue
        if text.startswith("//", i):
            j = text.find("\n", i)
            i = n if j < 0 else j
            continue
        if c == 'r' and i + 1 < n and text[i + 1] == '"':
            j = i + 2
            while j < n and text[j] != '"':
                j += 2 if text[j] == "\\" else 1
            out.append(("re", text[i + 2:j]))
            i = j + 1
            continue
        if c == '"':
            j = i + 1
            buf = []
            while j < n and text[j] != '"':
                if text[j] == "\\":
                    buf.append(text[j + 1])
                    j += 2
                else:
                    buf.append(text[j])
                    j += 1
            out.append(("str", "".join(buf)))
            i = j + 1
            continue
        if c == "'" and i + 2 < n and (text[i + 2] == "'" or (text[i + 1] == "\\" and text[i + 3] == "'")):
            j = text.find("'", i + 2)
            out.append(("chr", text[i:j + 1]))
            i = j + 1
            continue
        if c.isalpha() or c == "_":
            j = i
            while j < n and (text[j].isalnum() or text[j] == "_"):
                j += 1
            out.append(("id", text[i:j]))
            i = j
            continue
        if text.startswith("=>?", i):
            out.append(("p", "=>?"))
            i += 3
            continue
        if text.startswith("=>", i):
            out.append(("p", "=>"))
            i += 2
            continue
        if text.startswith("::", i):
            out.append(("p", "::"))
            i += 2
            continue
        out.append(("p", c))
        i += 1
    return out


def parse(path):
    text = open(path).read()
    toks = _scan(text)
    # skip the prologue up to `grammar ;`
    k = 0
    while k < len(toks) and not (toks[k] == ("id", "grammar")):
        k += 1
    while k < len(toks) and toks[k] != ("p", ";"):
        k += 1
    k += 1
    rules = {}
    n = len(toks)

    def render(ts):
        out = []
        for kind, v in ts:
            if kind == "str":
                out.append('"%s"' % v)
            else:
                out.append(v)
        return " ".join(out)

    while k < n:
        if toks[k] == ("id", "pub"):
            k += 1
        if toks[k][0] == "p" and toks[k][1] == "#":   # #[inline] style annotations
            while toks[k] != ("p", "]"):
                k += 1
            k += 1
            continue
        name = toks[k][1]
        k += 1
        # optional macro params <T>
        if toks[k] == ("p", "<"):
            depth = 0
            while True:
                if toks[k] == ("p", "<"):
                    depth += 1
                elif toks[k] == ("p", ">"):
                    depth -= 1
                    if depth == 0:
                        k += 1
                        break
                k += 1
        # : Type =
        assert toks[k] == ("p", ":"), (name, toks[k:k + 5])
        depth = 0
        while not (toks[k] == ("p", "=") and depth == 0):
            if toks[k][0] == "p" and toks[k][1] in "(<[":
                depth += 1
            elif toks[k][0] == "p" and toks[k][1] in ")>]":
                depth -= 1
            k += 1
        k += 1
        alts = []
        braced = toks[k] == ("p", "{")
        if braced:
            k += 1
        while True:
            syms = []
            action = None
            fallible = False
            depth = 0
            # symbols
            while True:
                t = toks[k]
                if depth == 0 and t[0] == "p" and t[1] in ("=>", "=>?"):
                    fallible = t[1] == "=>?"
                    k += 1
                    # action
                    start = k
                    d = 0
                    while True:
                        t = toks[k]
                        if t[0] == "p" and t[1] in "([{":
                            d += 1
                        elif t[0] == "p" and t[1] in ")]}":
                            if d == 0:
                                break
                            d -= 1
                        elif d == 0 and t == ("p", ",") and braced:
                            break
                        elif d == 0 and t == ("p", ";") and not braced:
                            break
                        k += 1
                    action = render(toks[start:k])
                    break
                if t[0] == "p" and t[1] in "(":
                    depth += 1
                elif t[0] == "p" and t[1] in ")":
                    depth -= 1
                if depth == 0 and braced and (t == ("p", ",") or t == ("p", "}")):
                    break
                if depth == 0 and not braced and t == ("p", ";"):
                    break
                if t[0] == "str":
                    syms.append(("t", t[1]))
                elif t[0] == "re":
                    syms.append(("re", t[1]))
                elif t[0] == "id":
                    # `<x:Foo>` binding names are followed by ':'
                    if toks[k + 1] == ("p", ":") and toks[k - 1] == ("p", "<"):
                        pass
                    elif toks[k + 1] == ("p", ":") and toks[k + 2][0] in ("id", "str", "p"):
                        pass
                    else:
                        syms.append(("n", t[1]))
                k += 1
            if syms or action is not None:
                alts.append(Alt(syms, action, fallible))
            t = toks[k]
            if braced:
                if t == ("p", ","):
                    k += 1
                    if toks[k] == ("p", "}"):
                        k += 1
                        break
                    continue
                if t == ("p", "}"):
                    k += 1
                    break
            else:
                break
        if k < n and toks[k] == ("p", ";"):
            k += 1
        rules[name] = alts
    return rules


def all_terminals(rules):
    out = set()
    for alts in rules.values():
        for a in alts:
            out.update(a.terminals)
    return out


def attribute_of(alt):
    """For an alternative of the form "#" "[" NAME ... "]" return (NAME, argument terminals)."""
    ts = alt.terminals
    if len(ts) >= 4 and ts[0] == "#" and ts[1] == "[" and ts[-1] == "]":
        name = ts[2]
        args = [t for t in ts[3:-1] if t not in ("(", ")")]
        return name, args
    return None


if __name__ == "__main__":
    import sys
    r = parse(sys.argv[1] if len(sys.argv) > 1 else "/repo/chalk-parse/src/parser.lalrpop")
    for k, v in r.items():
        print(k, len(v))
        for a in v[:3]:
            print("    ", a.symbols, "=>", (a.action or "")[:60])
