"""C14 - unification is sound and computes most general unifiers.

Decided (structural necessary conditions):
  BIND-SITES    the set of functions that bind an inference variable (ena unify_var_value) is exactly the audited table
  OCCURS        the two sites binding a variable to a structured value are dominated by a successful OccursCheck fold of the
                value being bound, created with the variable itself and the variable's own universe
  PROMOTE       the remaining sites are universe promotions (guarded by `universe_index < ui`), the can_see-guarded lifetime
                binding, and the general->int/float narrowing
  KIND-GATE     relate_var_ty's (var_kind, is_integer, is_float) table
  UNIVERSE      OccursCheck rejects type/const placeholders of invisible universes and unions with the variable itself;
                unify_values keeps the minimum universe
  RIGID         mismatched rigid constructors fail; every same-constructor arm relates all of its term components
  BINDERS       relate_binders instantiates the universal side before the existential side, in each direction
Not decided: that the result is a most general unifier."""
from core import (enum_matches, select_arms, V, T, ANY, walk, calls, peel, callee_matches, var_name, expr_vars, trace_is_call,
                  CallGraph)
from kit import need_body, has_call, short, guard_sites, dominated_by_calls, result_expr, mentions_field
from props.c15 import pair_match
from props.c18 import is_err, side_vars

UNI = "chalk_solve::infer::unify::Unifier"
OCC = "<chalk_solve::infer::unify::OccursCheck as chalk_ir::fold::FallibleTypeFolder>"
BIND = "ena::unify::UnificationTable::unify_var_value"

BIND_TABLE = {
    UNI + "::relate_var_ty": "binds a type variable to a generalized type: needs the occurs check",
    UNI + "::unify_var_const": "binds a const variable to a const: needs the occurs check",
    UNI + "::unify_lifetime_var": "binds a lifetime variable to a leaf lifetime under var_ui.can_see(value_ui) && Invariant",
    UNI + "::unify_general_var_specific_ty": "narrows a general variable to an int/float *variable* (no sub-terms)",
    OCC + "::try_fold_inference_ty": "universe promotion Unbound(self.universe_index)",
    OCC + "::try_fold_inference_const": "universe promotion Unbound(self.universe_index)",
    OCC + "::try_fold_inference_lifetime": "universe promotion Unbound(self.universe_index)",
}


def lt_edges(cfg, want=True):
    """edges on which `self.universe_index < ui` is `want`, however the comparison is spelled: `a < b`, `PartialOrd::lt(a, b)`,
    `!(a >= b)`, `b > a`, `!(b <= a)`, `!a.can_see(b)` (UniverseIndex::can_see(a, b) is `a >= b`).  The left operand is the occurs
    check's own universe: a comparison whose operands are recognisably the other way round is a different test and is not counted."""
    def own(tr):
        return tr.get("kind") == "field" and any(str(f_).endswith("OccursCheck.universe_index") for f_ in tr.get("fields", []))

    def operands(tr):
        if tr.get("kind") == "bin":
            return tr.get("a") or {}, tr.get("b") or {}
        args = tr["call"].get("a") or []
        ts = [cfg.trace(a_) for a_ in args[:2]]
        while len(ts) < 2:
            ts.append({})
        return ts[0], ts[1]

    def oriented(tr, swapped, strict=True):
        a_, b_ = operands(tr)
        if swapped:
            a_, b_ = b_, a_
        if strict:
            # the other spellings are only taken for the test when the own universe is recognisably the left operand (the level
            # test of a tracing macro is a `<=` too)
            return own(a_) and not own(b_)
        return not (own(b_) and not own(a_))

    def is_op(tr, bins, fns):
        if tr.get("kind") == "call":
            return callee_matches(tr["call"], fns)
        return tr.get("kind") == "bin" and tr["op"] in bins
    out = []
    # a < b            b > a
    out += cfg.bool_edges(lambda tr: is_op(tr, ("Lt",), ("PartialOrd::lt", "lt")) and oriented(tr, False, strict=False), want)
    out += cfg.bool_edges(lambda tr: is_op(tr, ("Gt",), ("PartialOrd::gt",)) and oriented(tr, True), want)
    # !(a >= b)        !(b <= a)        !a.can_see(b)
    out += cfg.bool_edges(lambda tr: is_op(tr, ("Ge",), ("PartialOrd::ge", "UniverseIndex::can_see")) and oriented(tr, False), not want)
    out += cfg.bool_edges(lambda tr: is_op(tr, ("Le",), ("PartialOrd::le",)) and oriented(tr, True), not want)
    return out


def promotions(facts, b):
    """Universe promotions an OccursCheck callback performs: direct `unify_var_value(v, value)` calls, or - one level down - a call to
    an inherent OccursCheck helper whose body makes that call on one of its parameters.
    -> [{"var": expression (in the callback's terms), "value": expression, "helper": Body or None, "call": node}]"""
    out = []
    for t in thir_all_(facts, b):
        for c in calls(t):
            if callee_matches(c, BIND) or str(c.get("fn", "")).endswith("unify_var_value"):
                if len(c.get("args", [])) > 2:
                    out.append({"var": c["args"][1], "value": c["args"][2], "helper": None, "call": c})
                continue
            name = c.get("res") or c.get("fn") or ""
            if "OccursCheck::" in name and " as " not in name:
                hb = facts.body(name)
                if hb is None or hb.thir is None:
                    continue
                params = [p.get("n") if isinstance(p, dict) else None for p in (hb.d.get("thir_params") or [])]
                for hc in calls(facts.thir(name)):
                    if (callee_matches(hc, BIND) or str(hc.get("fn", "")).endswith("unify_var_value")) and len(hc.get("args", [])) > 2:
                        pv = var_name(peel(hc["args"][1]))
                        if pv in params and params.index(pv) < len(c.get("args", [])):
                            out.append({"var": c["args"][params.index(pv)], "value": hc["args"][2], "helper": hb, "call": c})
                        else:
                            out.append({"var": None, "value": hc["args"][2], "helper": hb, "call": c})
    return out


def thir_all_(facts, b):
    from kit import thir_all
    return thir_all(facts, b)


def generalize_before_bind(ck, facts, R):
    """Shared by C07 / C14: relate_var_ty binds a type variable only to the *generalized* copy of the (occurs-checked) type, and then
    relates that copy with the original.  Generalization is where every nested alias (projection) is replaced by a fresh variable; the
    follow-up relate is what emits the AliasEq goal that normalizes it.  Binding the type itself (a `no inference variables inside`
    fast path) leaves nested projections unnormalized in a Unique answer."""
    ck.rule(R, "K3: in Unifier::relate_var_ty every unify_var_value is dominated by a call to generalize_ty, and the bound value derives from "
               "its result; the function then relates the generalized type with the original (relate_ty_ty) on every path to the return")
    b = need_body(ck, facts, R, UNI + "::relate_var_ty")
    if not b:
        return
    dominated_by_calls(ck, R, b, BIND, "generalize_ty", "unify_var_value", "generalize_ty(ty)")
    from kit import let_bound
    gen = let_bound(b.thir, lambda i: has_call(i, "generalize_ty"))
    binds = [c for c in calls(b.thir, BIND)]
    derived = set(gen)
    changed = True
    while changed:
        changed = False
        for st in walk(b.thir):
            if st.get("k") == "let" and st.get("init") is not None and (st.get("pat") or {}).get("k") == "bind" and st["pat"]["n"] not in derived \
                    and expr_vars(st["init"]) & derived:
                derived.add(st["pat"]["n"])
                changed = True
    if binds and all(expr_vars(c["args"][2]) & derived for c in binds):
        ck.ok(R, "relate_var_ty:binds-generalized-type")
    else:
        ck.violation(R, "relate_var_ty:binds-generalized-type", b.where(), "the variable is bound to something that does not come from generalize_ty")
    cfg = b.cfg
    rel = cfg.call_blocks("relate_ty_ty")
    bind_blocks = cfg.call_blocks(BIND)
    rets = set(cfg.return_blocks())
    bad = [bb for bb in bind_blocks if rets & (cfg.reachable(bb, (), False, stop=set(rel)) - set(rel))]
    if rel and not bad:
        ck.ok(R, "relate_var_ty:relates-generalized-with-original")
    else:
        ck.violation(R, "relate_var_ty:relates-generalized-with-original", b.where(), "after binding, the generalized type must be related with the original")


def occurs_before_bind(ck, facts, R):
    """Shared with C28: the occurs check is also where a binding's universes are checked (a placeholder the variable cannot name is
    rejected, a younger variable is promoted) - a binding that bypasses it can put an unnameable universe into a solution."""
    ck.rule(R, "K3: in relate_var_ty and unify_var_const the binding is dominated by OccursCheck::new(self, var, universe_of_unbound_var(var)), "
               "by try_fold_with of the value, and by the success edge of that fold's `?`; the bound value derives from the fold result")
    for fn, valfn in ((UNI + "::relate_var_ty", "from_ty"), (UNI + "::unify_var_const", "from_const")):
        b = need_body(ck, facts, R, fn)
        if not b:
            continue
        name = fn.split("::")[-1]
        cfg = b.cfg
        dominated_by_calls(ck, R, b, BIND, "OccursCheck::new", "unify_var_value", "OccursCheck::new")
        dominated_by_calls(ck, R, b, BIND, "try_fold_with", "unify_var_value", "try_fold_with(OccursCheck)")
        dominated_by_calls(ck, R, b, "try_fold_with", "InferenceTable::universe_of_unbound_var", "try_fold_with", "universe_of_unbound_var(var)")
        # success edge of the `?` after the fold
        branch_blocks = [i for i in cfg.call_blocks("Try::branch") if cfg.must_pass_blocks(i, cfg.call_blocks("try_fold_with"))]
        is_branch = lambda tr: tr.get("of", {}).get("kind") == "call" and tr["of"].get("block") in branch_blocks
        cont = cfg.variant_edges(is_branch, ["Continue"])
        # ... or, when the result of the fold is matched directly, the Ok edge of that match
        is_fold = lambda tr: tr.get("of", {}).get("kind") == "call" and callee_matches(tr["of"]["call"], "try_fold_with")
        cont = cont + cfg.variant_edges(is_fold, ["Ok"])
        n = guard_sites(ck, R, b, cfg.call_blocks(BIND), cont, "unify_var_value", "fold succeeded (`?` Continue edge)")
        ck.floor(R, name + ".bind-sites", n, 1)
        # OccursCheck::new(self, var, universe_index): same `var` as the one bound; universe from universe_of_unbound_var(var)
        th = b.thir
        occ = [c for c in calls(th, "OccursCheck::new")]
        bind = [c for c in calls(th, BIND)]
        uni = [st for st in walk(th) if st.get("k") == "let" and st.get("init") is not None and has_call(st["init"], "universe_of_unbound_var")]
        ok = False
        if len(occ) == 1 and len(bind) == 1 and uni:
            v_occ = var_name(occ[0]["args"][1])
            v_bind = var_name(bind[0]["args"][1])
            u_name = uni[0]["pat"].get("n")
            u_of = [var_name(a) for c in calls(uni[0]["init"], "universe_of_unbound_var") for a in c["args"][1:]]
            ok = v_occ is not None and v_occ == v_bind and var_name(occ[0]["args"][2]) == u_name and v_occ in u_of
        if ok:
            ck.ok(R, name + ":OccursCheck::new(self,var,universe(var))")
        else:
            ck.violation(R, name + ":OccursCheck::new(self,var,universe(var))", b.where(),
                         "the occurs check must be created for the variable being bound and with that variable's own universe")
        # the bound value derives from the fold result
        fold_lets = [st for st in walk(th) if st.get("k") == "let" and st.get("init") is not None and has_call(st["init"], "try_fold_with")]
        derived = set()
        for st in fold_lets:
            derived.add(st["pat"].get("n"))
        changed = True
        while changed:
            changed = False
            for st in walk(th):
                if st.get("k") == "let" and st.get("init") is not None and st["pat"].get("k") == "bind" and st["pat"]["n"] not in derived \
                        and expr_vars(st["init"]) & derived:
                    derived.add(st["pat"]["n"])
                    changed = True
        if bind and expr_vars(bind[0]["args"][2]) & derived:
            ck.ok(R, name + ":binds-checked-value", "value derives from the occurs-checked fold result")
        else:
            ck.violation(R, name + ":binds-checked-value", b.where(), "the value bound is not derived from the occurs-checked fold result")



def run(ck, facts, tier):
    cg = CallGraph(facts, ["chalk_solve", "chalk_engine", "chalk_recursive", "chalk_integration"])
    R = "C14.BIND-SITES"
    ck.rule(R, "K4: inference variables are bound (ena unify_var_value) only in the audited functions; a new binding site must be "
               "added to the table with its justification")
    sites = cg.callers_of(lambda k: k == BIND)
    ck.floor(R, "unify_var_value-sites", len(sites), 5)
    for k, blk, t in sites:
        callers_k = {c2.split("::{")[0] for c2, _b2, _t2 in cg.callers_of(lambda kk, k_=k: kk == k_, through_helpers=False)}
        if k in BIND_TABLE:
            ck.ok(R, short(k), BIND_TABLE[k])
        elif callers_k and all(c2 in BIND_TABLE for c2 in callers_k) and not cg.bodies[k].d.get("pub"):
            ck.ok(R, short(k), "private helper called only from audited binding sites (%s)" % ", ".join(sorted(short(c2).split("::")[-1] for c2 in callers_k)))
        else:
            ck.violation(R, short(k), cg.bodies[k].where(t.get("ln")), "new variable-binding site outside the audited table "
                         "(is the value occurs-checked and universe-checked?)")

    occurs_before_bind(ck, facts, "C14.OCCURS")
    # a unification that fails part-way must leave nothing behind, or the next unification on the same table answers for a
    # different problem: the snapshot / rollback pairing of InferenceTable::relate (C15) is evaluated here as well
    from kit import Forward
    import props.c15 as _c15
    _c15.run(Forward(ck, "C15.PAIRING", "C14.FAILED-ATTEMPT-UNDONE"), facts, tier)
    generalize_before_bind(ck, facts, "C14.GENERALIZE")

    R = "C14.PROMOTE"
    ck.rule(R, "K3: OccursCheck's three inference-variable callbacks bind only `Unbound(self.universe_index)` and only on the "
               "`self.universe_index < ui` edge; unify_lifetime_var binds only on the `can_see` && Invariant edge")
    for kind in ("ty", "const", "lifetime"):
        b = need_body(ck, facts, R, OCC + "::try_fold_inference_" + kind)
        if not b:
            continue
        cfg = b.cfg
        proms = promotions(facts, b)
        helpers = {p_["helper"].key: p_["helper"] for p_ in proms if p_["helper"] is not None}
        sites = cfg.call_blocks(BIND) + [blk for hk in helpers for blk in cfg.call_blocks(hk)]
        lt = lt_edges(cfg, True)
        if lt:
            guard_sites(ck, R, b, sites, lt, "promotion", "self.universe_index < ui")
        else:
            # the comparison moved into the helper together with the binding
            for hk, hb in helpers.items():
                guard_sites(ck, R, hb, hb.cfg.call_blocks(BIND), lt_edges(hb.cfg, True), "promotion", "self.universe_index < ui")
            if not helpers:
                ck.violation(R, "try_fold_inference_%s:promotion-guard" % kind, b.where(), "no `self.universe_index < ui` test found")
        okv = bool(proms) and all(any(n.get("k") == "adt" and n.get("v") == "Unbound" and mentions_field(n, "universe_index")
                                     for n in walk(p_["value"])) for p_ in proms)
        if okv:
            ck.ok(R, "try_fold_inference_%s:value=Unbound(self.universe_index)" % kind)
        else:
            ck.violation(R, "try_fold_inference_%s:value=Unbound(self.universe_index)" % kind, b.where(), "promotion must keep the variable unbound")
        if kind != "lifetime":
            # union with self.var => Err
            # accepted forms of the cycle test: `unify.unioned(var, self.var)` or `find(var) == find(self.var)` (both sides resolved)
            def is_cycle_test(tr):
                if tr.get("kind") == "call" and callee_matches(tr["call"], "unioned"):
                    return True
                if tr.get("kind") in ("bin", "call"):
                    sides = [tr.get("a"), tr.get("b")] if tr.get("kind") == "bin" and tr.get("op") == "Eq" else []
                    if tr.get("kind") == "call" and callee_matches(tr["call"], "PartialEq::eq"):
                        sides = [cfg.trace(a) for a in tr["call"]["a"][:2]]
                    return len(sides) == 2 and all(s and s.get("kind") == "call" and callee_matches(s["call"], "find") for s in sides)
                return False
            un = cfg.bool_edges(is_cycle_test, True)
            errs = [blk for blk, j, st in cfg.agg_sites("core::result::Result", "Err")]
            okc = bool(un) and any(e in cfg.reachable(un[0][1]) for e in errs) and \
                all(s not in cfg.reachable(un[0][1]) for s in cfg.call_blocks(BIND))
            if okc:
                ck.ok(R, "try_fold_inference_%s:cycle->Err" % kind)
            else:
                ck.violation(R, "try_fold_inference_%s:cycle->Err" % kind, b.where(), "a variable unioned with the one being bound must fail the occurs check")
    b = need_body(ck, facts, R, UNI + "::unify_lifetime_var")
    if b:
        cfg = b.cfg
        guard_sites(ck, R, b, cfg.call_blocks(BIND), cfg.bool_edges(trace_is_call("UniverseIndex::can_see"), True), "bind lifetime", "var_ui.can_see(value_ui)")

    R = "C14.OCCURS-BOUND"
    ck.rule(R, "K3: when the occurs check meets a variable that is already *bound*, it folds the bound value with itself on every path "
               "(try_fold_with(self, ..)): the universe test and the cycle test apply to what the variable stands for - no shortcut "
               "(flags, groundness) may return the value unexamined, because a variable-free value can still name a placeholder the "
               "variable being bound cannot see")
    for kind in ("ty", "const", "lifetime"):
        b = need_body(ck, facts, R, OCC + "::try_fold_inference_" + kind)
        if not b:
            continue
        cfg = b.cfg
        bound = cfg.variant_edges(lambda tr: str(tr.get("adt", "")).endswith("InferenceValue"), ["Bound"])
        folds = cfg.call_blocks(("TypeFoldable::try_fold_with", "try_fold_with", "TypeSuperFoldable::try_super_fold_with"))
        ck.floor(R, "try_fold_inference_%s.Bound-edge/fold" % kind, min(len(bound), len(folds)), 1)
        if bound and folds:
            esc = []
            for e in bound:
                reach = cfg.reachable(e[1], (), False, stop=set(folds))
                esc += [r for r in cfg.return_blocks() if r in reach]
            if esc:
                ck.violation(R, "try_fold_inference_%s:bound-value-folded" % kind, b.where(),
                             "a path returns the bound value of a variable without folding it through the occurs check")
            else:
                ck.ok(R, "try_fold_inference_%s:bound-value-folded" % kind)

    R = "C14.UNIVERSE"
    ck.rule(R, "K1: OccursCheck fails on a type/const placeholder the variable cannot see (`universe_index < ui` edge -> Err); the lifetime "
               "callback never fails; InferenceValue::unify_values keeps min(universe) for two unbound values and the bound value otherwise")
    for kind in ("ty", "const"):
        b = need_body(ck, facts, R, OCC + "::try_fold_free_placeholder_" + kind)
        if not b:
            continue
        cfg = b.cfg
        errs = [blk for blk, j, st in cfg.agg_sites("core::result::Result", "Err")]
        oks = [blk for blk, j, st in cfg.agg_sites("core::result::Result", "Ok")]
        n1 = guard_sites(ck, R, b, errs, lt_edges(cfg, True), "Err(NoSolution)", "self.universe_index < universe.ui")
        n2 = guard_sites(ck, R, b, oks, lt_edges(cfg, False), "Ok(placeholder)", "!(self.universe_index < universe.ui)")
        ck.floor(R, "placeholder_%s.sites" % kind, min(n1, n2), 1)
    b = need_body(ck, facts, R, OCC + "::try_fold_free_placeholder_lifetime")
    if b:
        errs = [blk for blk, j, st in b.cfg.agg_sites("core::result::Result", "Err")]
        if not errs and has_call(b.thir, "push_lifetime_outlives_goals") and has_call(b.thir, "new_variable"):
            ck.ok(R, "placeholder_lifetime:never-fails", "fresh variable + outlives goals")
        else:
            ck.violation(R, "placeholder_lifetime:never-fails", b.where(), "lifetime placeholders must be handled by a fresh variable and outlives goals")
    uv = need_body(ck, facts, R, "<chalk_solve::infer::var::InferenceValue as ena::unify::UnifyValue>::unify_values")
    if uv:
        ms = pair_match(facts.thir(uv.key), "chalk_solve::infer::var::InferenceValue")
        if len(ms) != 1:
            ck.violation(R, "unify_values:match", uv.where(), "expected one match over (a, b)")
        else:
            m = ms[0]
            uu = select_arms(m, T(V("Unbound"), V("Unbound")))
            body_ = m["arms"][uu[0][0]]["body"]
            if has_call(body_, "min") and not has_call(body_, "max"):
                ck.ok(R, "unify_values:(Unbound,Unbound)->min")
            else:
                ck.violation(R, "unify_values:(Unbound,Unbound)->min", uv.where(m["arms"][uu[0][0]]["ln"]), "two unbound variables must keep the smaller universe")
            for pair, nm in ((T(V("Bound"), V("Unbound")), "(Bound,Unbound)"), (T(V("Unbound"), V("Bound")), "(Unbound,Bound)")):
                a = select_arms(m, pair)
                body_ = m["arms"][a[0][0]]["body"]
                e = result_expr(body_)
                if e.get("k") == "adt" and e.get("v") == "Ok" and "bound" in expr_vars(e):
                    ck.ok(R, "unify_values:%s->bound" % nm)
                else:
                    ck.violation(R, "unify_values:%s->bound" % nm, uv.where(), "must keep the bound value")

    R = "C14.KIND-GATE"
    ck.rule(R, "K1: relate_var_ty lets a General variable unify with anything, an Integer variable only with integer types, a Float variable "
               "only with float types; everything else is Err(NoSolution)")
    b = need_body(ck, facts, R, UNI + "::relate_var_ty")
    if b:
        # decided by symbolic evaluation of the whole function (K10): for each (kind of the variable, ty.is_integer(), ty.is_float())
        # either the function returns Err(NoSolution) before doing anything else, or it goes on - whether the gate is written as a
        # `match` with an early return, as `matches!` + `if`, or as an if-chain
        from shared import fixedpoint as fp
        from kit import params_of_type, user_block
        kp = sorted(params_of_type(b, "TyVariableKind"))
        th = user_block(facts.thir(UNI + "::relate_var_ty"))

        def leaf(n_):
            if n_.get("k") == "adt" and n_.get("v") == "Err":
                return "err"
            return "other"
        n = 0
        if len(kp) != 1:
            ck.violation(R, "relate_var_ty:unclassified", b.where(), "cannot find the variable-kind parameter")
        else:
            for kind in ("General", "Integer", "Float"):
                for isint in ("true", "false"):
                    for isfl in ("true", "false"):
                        n += 1
                        env = {kp[0]: V(kind), "__calls__": {"is_integer": ("const", isint), "is_float": ("const", isfl)}}
                        res = fp.ev(th, env, None, leaf)
                        rejects = bool(res) and all(fp.is_ret(x) and x[1] == "err" for x in res)
                        want = kind == "General" or (kind == "Integer" and isint == "true") or (kind == "Float" and isfl == "true")
                        inst = "relate_var_ty:(%s,int=%s,float=%s)" % (kind, isint, isfl)
                        if rejects != want:
                            ck.ok(R, inst, "pass" if not rejects else "Err")
                        else:
                            ck.violation(R, inst, b.where(), "%s, expected %s" % ("passes" if not rejects else "fails", "pass" if want else "Err"))
            ck.floor(R, "cells", n, 12)
    rt = need_body(ck, facts, R, UNI + "::relate_ty_ty")
    # (the variable/variable cases are decided by C14.VAR-VAR-TABLE, by symbolic evaluation - no source shape assumed)
    varvar_table(ck, facts, "C14.VAR-VAR-TABLE")

    R = "C14.RIGID"
    ck.rule(R, "K1/K2: in relate_ty_ty two different rigid constructors end in Err(NoSolution); every same-constructor arm relates every "
               "term-carrying component bound on both sides (zip_with / zip_substs over corresponding components)")
    if rt and len(pair_match(facts.thir(rt.key), "chalk_ir::TyKind")) == 1:
        m = pair_match(facts.thir(rt.key), "chalk_ir::TyKind")[0]
        variants = facts.variants("chalk_ir::TyKind")
        flex = {"InferenceVar", "Alias", "Error", "BoundVar"}
        n = 0
        for ka in variants:
            for kb in variants:
                if ka in flex or kb in flex:
                    continue
                arms = select_arms(m, T(V(ka), V(kb)))
                arm = m["arms"][arms[0][0]]
                n += 1
                if ka != kb:
                    if is_err(arm["body"]):
                        ck.ok(R, "(%s,%s)" % (ka, kb), "Err")
                    else:
                        ck.violation(R, "(%s,%s)" % (ka, kb), rt.where(arm["ln"]), "different rigid constructors must not unify")
                    continue
                sv = side_vars(arm["pat"])
                # every bound component pair must be consumed by a zip / comparison
                used = set()
                for x in walk(arm["body"]):
                    if x.get("k") == "call" and ((x.get("fn") or "").endswith(("zip_with", "zip_substs", "const_eq")) or
                                                 callee_matches(x, ("PartialEq::ne", "PartialEq::eq"))):
                        used |= expr_vars(x)
                    if x.get("k") == "bin" and x["op"] in ("Ne", "Eq"):
                        used |= expr_vars(x)
                    if x.get("k") == "match":
                        used |= expr_vars(x["scrut"])
                missing = [v for v in sv if v not in used]
                per_idx = {}
                for v, (s, i) in sv.items():
                    per_idx.setdefault(i, set()).add(s)
                if missing:
                    ck.violation(R, "(%s,%s)" % (ka, kb), rt.where(arm["ln"]), "component(s) %s are bound but never related" % missing)
                elif any(len(s) != 2 for s in per_idx.values()):
                    ck.violation(R, "(%s,%s)" % (ka, kb), rt.where(arm["ln"]), "a component is bound on one side only")
                else:
                    # fields of the variant that carry terms must all be bound
                    flds = [f for f in facts.adt("chalk_ir::TyKind")["variants"] if f["n"] == ka][0]["fields"]
                    nterm = len(flds)
                    bound = len(per_idx)
                    if sv or nterm == 0 or has_call(arm["body"], "zip_with"):
                        if nterm and sv and bound < nterm:
                            ck.violation(R, "(%s,%s)" % (ka, kb), rt.where(arm["ln"]), "only %d of %d fields are compared" % (bound, nterm))
                        else:
                            ck.ok(R, "(%s,%s)" % (ka, kb), "all %d component(s) related" % nterm)
                    else:
                        ck.violation(R, "(%s,%s)" % (ka, kb), rt.where(arm["ln"]), "fields ignored")
        ck.floor(R, "rigid-pairs", n, 361)

    R = "C14.BINDERS"
    ck.rule(R, "K3: relate_binders instantiates one side universally *before* instantiating the other existentially, for each direction "
               "(a universal for Invariant|Contravariant, b universal for Invariant|Covariant)")
    rb = need_body(ck, facts, R, UNI + "::relate_binders")
    if rb:
        ifs = [n for n in walk(rb.thir) if n.get("k") == "if" and n["cond"].get("k") == "letexpr"]
        want = [({"Invariant", "Contravariant"}, "a", "b"), ({"Invariant", "Covariant"}, "b", "a")]
        if len(ifs) != 2:
            ck.violation(R, "relate_binders:two-directions", rb.where(), "expected two `if let` direction blocks, found %d" % len(ifs))
        else:
            for n_, (vs, uni, exi) in zip(ifs, want):
                pats = n_["cond"]["pat"]
                got = {p.get("v") for p in (pats["pats"] if pats.get("k") == "or" else [pats])}
                cs = [c for c in calls(n_["then"]) if (c.get("fn") or "").endswith(("instantiate_binders_universally", "instantiate_binders_existentially"))]
                order = [((c["fn"].split("_")[-1]), sorted(expr_vars(c["args"][2]) & {"a", "b"})) for c in cs]
                okb = got == vs and order == [("universally", [uni]), ("existentially", [exi])] and has_call(n_["then"], "zip_with")
                inst = "relate_binders:%s-universal" % uni
                if okb:
                    ck.ok(R, inst, "for %s" % sorted(vs))
                else:
                    ck.violation(R, inst, rb.where(n_.get("ln")), "expected `%s` instantiated universally then `%s` existentially under %s; found %s under %s"
                                 % (uni, exi, sorted(vs), order, sorted(x for x in got if x)))


def varvar_table(ck, facts, R, symmetric_only=False):
    """The (kind1, kind2) decision table of relate_ty_ty's (InferenceVar, InferenceVar) arm, by symbolic evaluation (K10): whatever
    the arm is written as (if-chain with `matches!` / `==`, a `match (kind1, kind2)`, helper-free), each of the 9 kind pairs must reach
    exactly the outcome the kinds dictate."""
    from shared import fixedpoint as fp
    ck.rule(R, "K10 (symbolic evaluation): in Unifier::relate_ty_ty two inference variables of kinds (k1, k2) in {General, Integer, Float}^2 "
               "are handled as: equal kinds -> unify_var_var (General/General may instead push a subtype goal, by variance); General with "
               "a specific kind -> narrow the *general* one (unify_general_var_specific_ty on that side's variable); Integer with Float in "
               "either order -> Err(NoSolution).  The table must be symmetric under swapping the two sides")
    rt = need_body(ck, facts, R, UNI + "::relate_ty_ty")
    if not rt:
        return
    ms = pair_match(facts.thir(rt.key), "chalk_ir::TyKind")
    if len(ms) != 1:
        ck.violation(R, "relate_ty_ty:match", rt.where(), "expected one (TyKind, TyKind) match")
        return
    vv = select_arms(ms[0], T(V("InferenceVar"), V("InferenceVar")))
    arm = ms[0]["arms"][vv[0][0]]
    names = {}
    pat = arm["pat"]
    for side, _n, sp in (pat.get("sub") or []):
        q = sp
        while isinstance(q, dict) and q.get("k") in ("deref",) and q.get("sub"):
            q = q["sub"]
        if isinstance(q, dict) and q.get("k") == "variant":
            for idx, _fn, b in q.get("sub", []):
                if isinstance(b, dict) and b.get("k") == "bind":
                    names[(side, idx)] = b["n"]
    v1, k1, v2, k2 = names.get((0, 0)), names.get((0, 1)), names.get((1, 0)), names.get((1, 1))
    if not (v1 and k1 and v2 and k2):
        ck.violation(R, "relate_ty_ty:(var,var):unclassified", rt.where(arm["ln"]), "cannot read the bindings of the (InferenceVar, InferenceVar) arm")
        return

    def leaf(n):
        k = n.get("k")
        if k == "call":
            if callee_matches(n, "unify_var_var"):
                return "vv"
            if callee_matches(n, "unify_general_var_specific_ty"):
                a1 = var_name(n["args"][1]) if len(n.get("args", [])) > 1 else None
                return "narrow1" if a1 == v1 else "narrow2" if a1 == v2 else "narrow?"
            return "call:" + str(n.get("fn", "")).split("::")[-1]
        if k == "adt" and n.get("v") == "Err":
            return "err"
        if k == "adt" and n.get("v") == "Ok":
            return "ok"
        return "?" + str(k)

    KINDS = ("General", "Integer", "Float")
    table = {}
    for a in KINDS:
        for b in KINDS:
            env = {k1: V(a), k2: V(b)}
            res = fp.ev(arm["body"], env, None, leaf)
            table[(a, b)] = {x[1] if fp.is_ret(x) else x for x in res}
    n = 0
    mirror = {"narrow1": "narrow2", "narrow2": "narrow1"}
    for (a, b), got in sorted(table.items()):
        n += 1
        inst = "relate_ty_ty:(var:%s,var:%s)" % (a, b)
        if a == b == "General":
            ok = "vv" in got and got <= {"vv", "ok"}
            want = "unify_var_var (or a subtype goal, by variance)"
        elif a == b:
            ok, want = got == {"vv"}, "unify_var_var"
        elif a == "General":
            ok, want = got == {"narrow1"}, "narrow the first (general) variable"
        elif b == "General":
            ok, want = got == {"narrow2"}, "narrow the second (general) variable"
        else:
            ok, want = got == {"err"}, "Err(NoSolution)"
        sym = {mirror.get(x, x) for x in table[(b, a)]} == got
        if None in got or any(str(x).startswith(("?", "call:", "narrow?")) for x in got):
            ck.violation(R, inst + ":unclassified", rt.where(arm["ln"]), "the evaluator cannot interpret the arm on this input (outcomes %s)" % sorted(map(str, got)))
        elif not sym:
            ck.violation(R, inst + ":asymmetric", rt.where(arm["ln"]), "outcome %s, but the swapped pair gives %s: whether two variables unify "
                         "depends on the order of the arguments" % (sorted(got), sorted(table[(b, a)])))
        elif not ok and not symmetric_only:
            ck.violation(R, inst, rt.where(arm["ln"]), "outcome %s, the kinds require: %s" % (sorted(got), want))
        else:
            ck.ok(R, inst, ",".join(sorted(got)))
    ck.floor(R, "kind-pairs", n, 9)
