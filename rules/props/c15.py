"""C15 - failed unification leaves inference state untouched; argument order never changes success.

First sentence, decided completely for the normal (non-unwinding) exits:
  PAIRING   in InferenceTable::relate, snapshot() dominates the unifier; the Err edge of the unifier's result reaches the
            return only through rollback_to(that snapshot), the Ok edge only through commit
  ENTRY     the Unifier (the only holder of `&mut InferenceTable` that binds variables) is created only inside that region
  COVERAGE  snapshot() captures and rollback_to() restores every field of InferenceTable
  TYPESTATE a snapshot cannot be duplicated (no Clone/Copy impl) and is consumed by value
Second sentence:
  SYMMETRY  the (kind_a, kind_b) outcome tables of relate_ty_ty / relate_lifetime_lifetime / relate_const_const are
            symmetric under swapping the arguments (directional helpers mirrored with variance.invert())
Trusted: ena's snapshot/rollback implementation."""
from core import (enum_matches, select_arms, V, T, walk, calls, peel, callee_matches, var_name, expr_vars, trace_is_call,
                  CallGraph, op_place)
from kit import need_body, has_call, short, guard_sites, dominated_by_calls, result_expr, mentions_field

LEVEL = "proof"
IT = "chalk_solve::infer::InferenceTable"
UNI = "chalk_solve::infer::unify::Unifier"
CRATES = ["chalk_ir", "chalk_solve", "chalk_engine", "chalk_recursive", "chalk_integration", "chalk"]


def pair_match(thir, adt):
    out = []
    for m in walk(thir):
        if m.get("k") == "match" and m.get("src", "").startswith("Normal") and m.get("sty", "").startswith("(") \
                and m["sty"].count(adt + "<") == 2:
            out.append(m)
    # a table split over a single-use helper is one table (core.merge_delegating_arms); the helper's own match is then not a second one
    from core import merge_delegating_arms
    merged = [merge_delegating_arms(m) for m in out]
    inner = {id(a) for m0, mm in zip(out, merged) if mm is not m0 for a in mm.get("arms", [])}
    return [mm for m0, mm in zip(out, merged) if not (mm is m0 and any(id(a) in inner for a in m0.get("arms", [])))]


def arm_class(body):
    names = set()
    inv = False
    for c in calls(body):
        nm = (c.get("fn") or "").split("::")[-1]
        if nm == "invert":
            inv = True
            continue
        if nm in ("clone", "intern", "from", "root", "to_lifetime", "interner", "into_binders", "unification_database",
                  "adt_variance", "fn_def_variance", "as_slice", "from_iter", "repeat", "take", "xform"):
            continue
        names.add(nm)
    e = result_expr(body)
    if isinstance(e, dict) and e.get("k") == "return":
        e = result_expr(e.get("e"))
    const = None
    if isinstance(e, dict) and e.get("k") == "adt" and e.get("v") in ("Ok", "Err") and not names:
        const = e["v"]
    panics = any(c.get("x") and ("panic!" in c["x"] or "unreachable!" in c["x"]) for c in walk(body, skip_tracing=False) if c.get("k") == "call")
    return (tuple(sorted(names)), const, panics), inv


DIRECTIONAL = {"relate_alias_ty", "relate_var_ty", "unify_lifetime_var"}


def symmetry(ck, R, body, match, variants, what, refine=None):
    """`refine`: {variant: (field index, [sub-variant names])} - a variant whose payload carries a small enum the arms may discriminate
    on (the kind of an inference variable, the mutability of a reference) is split into one abstract value per sub-variant, so that
    `(InferenceVar(v, General), t)` mirrored by `(t, InferenceVar(v, _))` is seen as the asymmetry it is."""
    n = 0
    items = []
    for v_ in variants:
        if refine and v_ in refine and refine[v_][1]:
            idx, subs = refine[v_]
            items += [("%s[%s]" % (v_, s_), V(v_, **{str(idx): V(s_)})) for s_ in subs]
        else:
            items.append((v_, V(v_)))
    for i, (ka, va) in enumerate(items):
        for kb, vb in items[i + 1:]:
            n += 1
            ab = select_arms(match, T(va, vb))
            ba = select_arms(match, T(vb, va))
            inst = "%s:(%s,%s)" % (what, ka, kb)
            if not ab or not ba:
                ck.violation(R, inst, body.where(), "pair not covered")
                continue
            ca, ia = arm_class(match["arms"][ab[0][0]]["body"])
            cb, ib = arm_class(match["arms"][ba[0][0]]["body"])
            if ca != cb:
                ck.violation(R, inst, body.where(match["arms"][ab[0][0]]["ln"]),
                             "outcome class for (a=%s,b=%s) is %s but for the swapped arguments it is %s: success would depend on "
                             "argument order" % (ka, kb, ca, cb))
            elif set(ca[0]) & DIRECTIONAL and ia == ib and ab[0][0] != ba[0][0]:
                ck.violation(R, inst, body.where(match["arms"][ab[0][0]]["ln"]),
                             "both orders delegate to %s with the same variance; exactly one must use variance.invert()" % sorted(set(ca[0]) & DIRECTIONAL))
            else:
                ck.ok(R, inst, "class %s" % (ca,))
    return n


def run(ck, facts, tier):
    from props.c14 import varvar_table
    varvar_table(ck, facts, "C15.VAR-VAR-SYMMETRY", symmetric_only=True)
    ck.trusted.append("ena::unify snapshot/rollback_to/commit")
    rel = need_body(ck, facts, "C15.PAIRING", IT + "::relate")
    R = "C15.PAIRING"
    ck.rule(R, "K3: in InferenceTable::relate, snapshot() dominates Unifier::new/relate; every path from the Err edge of the result to "
               "the return passes rollback_to(snapshot); every path from the Ok edge passes commit(snapshot); there is no other exit")
    if rel:
        cfg = rel.cfg
        S = cfg.call_blocks(IT + "::snapshot")
        N = cfg.call_blocks(UNI + "::new")
        Rl = cfg.call_blocks(UNI + "::relate")
        B = cfg.call_blocks(IT + "::rollback_to")
        C = cfg.call_blocks(IT + "::commit")
        ck.floor(R, "sites(snapshot,new,relate,rollback,commit)", min(len(S), len(N), len(Rl), len(B), len(C)), 1)
        if S and N and Rl and B and C:
            dominated_by_calls(ck, R, rel, UNI + "::new", IT + "::snapshot", "Unifier::new", "snapshot()")
            dominated_by_calls(ck, R, rel, UNI + "::relate", IT + "::snapshot", "Unifier::relate", "snapshot()")
            is_res = lambda tr: tr.get("of", {}).get("kind") == "call" and callee_matches(tr["of"]["call"], UNI + "::relate")
            err_edges = cfg.variant_edges(is_res, ["Err"])
            ok_edges = cfg.variant_edges(is_res, ["Ok"])
            rets = set(cfg.return_blocks())
            for name, edges, must, mustnot in (("Err", err_edges, B, C), ("Ok", ok_edges, C, B)):
                inst = "relate:%s-edge" % name
                if not edges:
                    ck.violation(R, inst, rel.where(), "no switch on the unifier's result found")
                    continue
                bad = False
                for e in edges:
                    reach = cfg.reachable(e[1], (), False, stop=set(must))
                    if rets & (reach - set(must)):
                        bad = True
                    full = cfg.reachable(e[1])
                    if set(mustnot) & full:
                        bad = True
                if bad:
                    ck.violation(R, inst, rel.where(), "after the unifier returned %s the function can return without %s (or can reach %s)"
                                 % (name, "rollback_to" if name == "Err" else "commit", "commit" if name == "Err" else "rollback_to"))
                else:
                    ck.ok(R, inst, "all paths to return pass %s" % ("rollback_to" if name == "Err" else "commit"))
            # the snapshot handed to rollback_to / commit is the one taken at entry
            for blk, nm in [(b, "rollback_to") for b in B] + [(c, "commit") for c in C]:
                t = cfg.blocks[blk]["t"]
                tr = cfg.trace(t["a"][1])
                if tr.get("kind") == "call" and callee_matches(tr["call"], IT + "::snapshot"):
                    ck.ok(R, "relate:%s(snapshot)" % nm, "argument is the value returned by snapshot()")
                else:
                    ck.violation(R, "relate:%s(snapshot)" % nm, rel.where(t.get("ln")), "argument does not come from the snapshot() call at entry")
            # exactly one normal return
            if len(rets) == 1:
                ck.ok(R, "relate:single-return")
            else:
                ck.violation(R, "relate:single-return", rel.where(), "%d return blocks" % len(rets))

    R = "C15.ENTRY"
    ck.rule(R, "K4: Unifier values are constructed only in Unifier::new, and Unifier::new is called only from InferenceTable::relate "
               "(checked over every crate of the workspace)")
    cg = CallGraph(facts, CRATES)
    callers = cg.callers_of(lambda k: k == UNI + "::new")
    ck.floor(R, "callers-of-Unifier::new", len(callers), 1)
    for k, blk, t in callers:
        if k == IT + "::relate":
            ck.ok(R, "caller:%s" % short(k))
        else:
            b = cg.bodies[k]
            ck.violation(R, "caller:%s" % short(k), b.where(t.get("ln")), "Unifier::new called outside InferenceTable::relate: bindings made "
                         "by this unifier are not covered by the snapshot/rollback pair")
    nctor = 0
    for k, b in cg.bodies.items():
        for blk, j, st in b.cfg.agg_sites(UNI):
            nctor += 1
            if k == UNI + "::new":
                ck.ok(R, "constructs-Unifier:%s" % short(k))
            else:
                ck.violation(R, "constructs-Unifier:%s" % short(k), b.where(st.get("ln")), "Unifier constructed outside Unifier::new")
    ck.floor(R, "Unifier-constructions", nctor, 1)

    R = "C15.COVERAGE"
    ck.rule(R, "K2/K5: snapshot() reads every field of InferenceTable and rollback_to() restores every field (a field added to the table "
               "must appear in both)")
    adt = facts.adt(IT)
    sn = need_body(ck, facts, R, IT + "::snapshot")
    rb = need_body(ck, facts, R, IT + "::rollback_to")
    if adt and sn and rb:
        fields = [f["n"] for f in adt["variants"][0]["fields"]]
        ck.floor(R, "InferenceTable-fields", len(fields), 3)
        for f in fields:
            read = any(n.get("k") == "field" and n["n"] == f and n.get("adt") == IT for n in walk(sn.thir))
            restored = False
            for n in walk(rb.thir):
                if n.get("k") == "assign":
                    l = peel(n["l"])
                    if l.get("k") == "field" and l["n"] == f and l.get("adt") == IT:
                        restored = True
                if n.get("k") == "call" and n.get("args"):
                    # `self.unify.rollback_to(..)`, `self.vars.truncate(..)`: a mutating call on the field
                    a0 = n["args"][0]
                    if isinstance(a0, dict) and a0.get("k") == "ref" and a0.get("m"):
                        q = peel(a0)
                        if q.get("k") == "field" and q["n"] == f and q.get("adt") == IT and expr_vars(n) & {"snapshot"}:
                            restored = True
            if read and restored:
                ck.ok(R, "InferenceTable.%s" % f, "captured and restored")
            else:
                ck.violation(R, "InferenceTable.%s" % f, (rb if read else sn).where(),
                             "field `%s` is %s: a failed unification would leave it modified" % (
                                 f, "not restored by rollback_to" if read else "not captured by snapshot"))

    R = "C15.TYPESTATE"
    ck.rule(R, "K8 (type tables): InferenceSnapshot implements neither Clone nor Copy, and rollback_to / commit take it by value, so one "
               "snapshot cannot be rolled back twice")
    SNAP = "chalk_solve::infer::InferenceSnapshot"
    ims = [im for im in facts.crate("chalk_solve")["impls"] if im.get("self_key") == SNAP and
           (im.get("trait") or "").split("::")[-1] in ("Clone", "Copy")]
    if facts.adt(SNAP) is None:
        ck.violation(R, "missing-anchor:InferenceSnapshot", "", "type not found")
    elif ims:
        ck.violation(R, "InferenceSnapshot:duplicable", "%s:%s" % (ims[0]["file"], ims[0]["ln"]), "InferenceSnapshot implements %s" % ims[0]["trait"])
    else:
        ck.ok(R, "InferenceSnapshot:not-Clone-not-Copy")
    for fn in ("rollback_to", "commit"):
        b = facts.body(IT + "::" + fn)
        if b and len(b.d.get("params", [])) == 2 and b.d["params"][1].startswith(SNAP):
            ck.ok(R, "%s:by-value" % fn, b.d["params"][1])
        elif b:
            ck.violation(R, "%s:by-value" % fn, b.where(), "snapshot parameter is `%s`, not an owned InferenceSnapshot" % b.d.get("params"))

    R = "C15.SYMMETRY"
    ck.rule(R, "K1: the (kind_a, kind_b) outcome-class tables of relate_ty_ty, relate_lifetime_lifetime and relate_const_const are "
               "symmetric under argument swap; arms delegating to a directional helper are mirrored with variance.invert()")
    total = 0
    for fn, adt_, what in ((UNI + "::relate_ty_ty", "chalk_ir::TyKind", "ty"),
                           (UNI + "::relate_lifetime_lifetime", "chalk_ir::LifetimeData", "lifetime"),
                           (UNI + "::relate_const_const", "chalk_ir::ConstValue", "const")):
        b = need_body(ck, facts, R, fn)
        if not b:
            continue
        ms = pair_match(facts.thir(b.key), adt_)
        if len(ms) != 1:
            ck.violation(R, "%s:match" % what, b.where(), "expected one match over a pair of %s" % adt_)
            continue
        refine = None
        if what == "ty":
            refine = {"InferenceVar": (1, facts.variants("chalk_ir::TyVariableKind")),
                      "Ref": (0, facts.variants("chalk_ir::Mutability")), "Raw": (0, facts.variants("chalk_ir::Mutability"))}
        total += symmetry(ck, R, b, ms[0], facts.variants(adt_), what, refine)
    ck.floor(R, "unordered-pairs", total, 253 + 21 + 6)
