"""C04 - the two solvers never contradict each other.

Not decided: agreement of the answers.
Decided: the two engines are siblings that read the same program in the same way:
  CLAUSE-SOURCES  Forest::build_table and solve_from_clauses draw clauses from the same three sources - program_clauses_that_could_match,
                  custom_clauses, program_clauses_for_env(goal environment) - each filtered by could_match against the goal, and both treat
                  Err(Floundered) as `cannot decide` (flounder / Ambig(Unknown)), never as failure
  GOAL-TABLE      Forest::simplify_goal and Fulfill::push_goal map every GoalData variant to the same action class
                  (one reasoned exception: a failing SubtypeGoal relation flounders in SLG and fails in the recursive solver)
  SAME-GOAL       both Solver::solve impls hand the caller's u-canonical goal to their engine unchanged
"""
from core import enum_matches, select_arms, V, walk, calls, peel, callee_matches, var_name, expr_vars
from kit import need_body, has_call, short, result_expr, mentions_field, thir_all, ctor_names

BT = "chalk_engine::forest::Forest::build_table"
SFC = "chalk_recursive::solve::SolveIterationHelpers::solve_from_clauses"


def action_class(body_, engine):
    cs = {(c.get("fn") or "").split("::")[-1] for c in calls(body_)}
    out = set()
    if "instantiate_binders_universally" in cs:
        out.add("universal")
    if "instantiate_binders_existentially" in cs:
        out.add("existential")
    if "add_clauses" in cs:
        out.add("extend-env")
    if "relate" in cs or "unify" in cs:
        v = [x["v"] for x in walk(body_) if x.get("k") == "adt" and x.get("adt") == "chalk_ir::Variance"]
        out.add("relate:" + ",".join(sorted(set(v))))
    neg = any(x.get("k") == "adt" and x.get("v") in ("Negative", "Refute") for x in walk(body_))
    pos = any(x.get("k") == "adt" and x.get("v") in ("Positive", "Prove") for x in walk(body_))
    if neg:
        out.add("negative-literal")
    if pos and not ({"relate", "unify"} & cs):
        out.add("positive-literal")
    amb = any(x.get("k") == "assign" and (mentions_field(x["l"], "ambiguous") or mentions_field(x["l"], "cannot_prove")) for x in walk(body_))
    if amb:
        out.add("ambiguous")
    if any(x.get("k") == "match" and x.get("src", "").startswith("ForLoopDesugar") for x in walk(body_)) and not out - {"positive-literal"}:
        out.add("each")
    return frozenset(out)


def run(ck, facts, tier):
    from shared import fixedpoint as _fpx
    _fpx.loop_exits(ck, facts, "C04.FIXPOINT-EXITS")
    from shared import clauses as _cl
    _cl.every_clause(ck, facts, "C04.EVERY-CLAUSE")
    _cl.trivial_subst_kinds(ck, facts, "C04.FULFILL-APPLY")
    from shared import zippers
    zippers.answer_subst(ck, facts, "C04.ANSWER-SUBST")
    # a definite answer of one engine computed from a provisional (later revised) cycle value contradicts the other engine:
    # the recursive solver's SCC bookkeeping and fixed-point test are shared with C01 / C05 / C10
    from props.c10 import scc_links
    scc_links(ck, facts, "C04.PROVISIONAL")
    from props.c01 import factor_step
    factor_step(ck, facts, "C04.FACTOR")

    # "a Unique substitution is always an instance of the other solver's definite guidance": SLG's guidance is the anti-unifier's
    # output, so the anti-unifier tables of C17 (different constructors / differing names, scalars, mutabilities -> fresh variable)
    # are evaluated under C04 as well
    class _Only:
        """forwards one rule of another property's module to this check under a C04 name"""
        def __init__(self, ck_, src, dst):
            self.ck, self.src, self.dst = ck_, src, dst
            self.notes, self.analysed, self.extract_info = ck_.notes, ck_.analysed, ck_.extract_info
        def _m(self, r):
            return self.dst if r == self.src else None
        def rule(self, r, d):
            if self._m(r):
                self.ck.rule(self.dst, d)
        def ok(self, r, inst, detail=""):
            if self._m(r):
                self.ck.ok(self.dst, inst, detail)
        def violation(self, r, key, where="", detail=""):
            if self._m(r):
                self.ck.violation(self.dst, key, where, detail)
        def floor(self, r, what, count, floor):
            if self._m(r):
                self.ck.floor(self.dst, what, count, floor)
        def count(self, *a, **k):
            pass
        def require(self, *a, **k):
            return True
    import props.c17 as _c17
    _c17.run(_Only(ck, "C17.DEFAULT-CONSERVATIVE", "C04.GUIDANCE-GENERALIZES"), facts, tier)
    from shared import fixedpoint
    fixedpoint.table(ck, facts, "C04.FIXED-POINT-TABLE", which=("stale",))
    R = "C04.CLAUSE-SOURCES"
    ck.rule(R, "K5: build_table and solve_from_clauses both use exactly {program_clauses_that_could_match, custom_clauses, "
               "program_clauses_for_env(&goal.environment)}, apply the could_match filter to all three, and map Err(Floundered) to "
               "mark_floundered / Ambig(Unknown)")
    SOURCES = ("program_clauses_that_could_match", "custom_clauses", "program_clauses_for_env")
    for key, flounder in ((BT, "mark_floundered"), (SFC, "Ambig")):
        b = need_body(ck, facts, R, key)
        if not b:
            continue
        th = facts.thir(key)
        for s in SOURCES:
            cs = [c for c in calls(th, s)]
            inst = "%s:%s" % (short(key), s)
            if len(cs) != 1:
                ck.violation(R, inst, b.where(), "clause source `%s` is used %d time(s)" % (s, len(cs)))
                continue
            # the source's clauses pass through retain(could_match) / filter(could_match)
            filt = False
            for f in calls(th, ("Iterator::filter", "Vec::retain")):
                if "could_match" in expr_vars(f) and (has_call(f, s) or s == "program_clauses_that_could_match"):
                    filt = True
            if s == "program_clauses_that_could_match":
                filt = any("could_match" in expr_vars(f) for f in calls(th, ("Vec::retain", "Iterator::filter"))
                           if "clauses" in expr_vars(f) or "goal_clauses" in expr_vars(f))
            if not filt:
                # the same thing written as a loop: `for c in <source> { if could_match(&c) { clauses.push(c) } }`
                from kit import for_loops
                for _l, it, _pat, lbody in for_loops(th):
                    src_here = has_call(it, s) or (s == "program_clauses_that_could_match" and ({"clauses", "goal_clauses"} & expr_vars(it)))
                    if not src_here:
                        continue
                    pushes = [c for c in calls(lbody, "Vec::push")]
                    guarded = []
                    for n_ in walk(lbody):
                        if n_.get("k") == "if" and ("could_match" in expr_vars(n_["cond"]) or has_call(n_["cond"], "could_match")):
                            guarded += [id(c) for c in calls(n_["then"], "Vec::push")]
                    if pushes and all(id(c) in guarded for c in pushes):
                        filt = True
            if filt:
                ck.ok(R, inst, "filtered by could_match")
            else:
                ck.violation(R, inst, b.where(cs[0].get("ln")), "clauses from `%s` bypass the could_match filter in this engine only" % s)
        env = [c for c in calls(th, "program_clauses_for_env")]
        if env and mentions_field(env[0]["args"][1], "environment") and "goal" in expr_vars(env[0]["args"][1]):
            ck.ok(R, "%s:env-of-the-goal" % short(key))
        else:
            ck.violation(R, "%s:env-of-the-goal" % short(key), b.where(), "environment clauses must come from the goal's own environment")
        ms = [m for m in walk(th) if m.get("k") == "match" and has_call(m["scrut"], "program_clauses_that_could_match")]
        okf = False
        if len(ms) == 1:
            a = select_arms(ms[0], V("Err"))
            body_ = ms[0]["arms"][a[0][0]]["body"]
            if flounder == "mark_floundered":
                okf = has_call(body_, "Table::mark_floundered")
            else:
                okf = any(x.get("k") == "adt" and x.get("v") == "Ambig" for x in walk(body_)) and any(x.get("k") == "adt" and x.get("v") == "Unknown" for x in walk(body_))
        if okf:
            ck.ok(R, "%s:Floundered->cannot-decide" % short(key))
        else:
            ck.violation(R, "%s:Floundered->cannot-decide" % short(key), b.where(), "floundering while collecting clauses must not be reported as `no solution`")
    # same could_match callee and same `other` (the domain goal) in both
    cm = {}
    for key in (BT, SFC):
        b = facts.body(key)
        if b:
            cs = [c for c in calls(facts.thir(key), "could_match")]         # closures and single-use helpers spliced in
            cm[key] = {(c.get("res") or c.get("fn")) for c in cs}
    if len(cm) == 2 and cm[BT] == cm[SFC] and cm[BT]:
        ck.ok(R, "same-filter-function", str(sorted(cm[BT])))
    else:
        ck.violation(R, "same-filter-function", "", "the two engines filter with different functions: %s" % cm)

    R = "C04.GOAL-TABLE"
    ck.rule(R, "K1 sibling: for every GoalData variant (x QuantifierKind) simplify_goal (SLG) and push_goal (recursive) take the same action class: "
               "ForAll -> instantiate universally; Exists -> existentially; Implies -> extend the environment; All -> each; Not -> negative "
               "literal; EqGoal -> relate Invariant; SubtypeGoal -> relate Covariant (+ refuse two variables); DomainGoal -> positive literal; "
               "CannotProve -> ambiguous")
    sg = need_body(ck, facts, R, "chalk_engine::forest::Forest::simplify_goal")
    pg = need_body(ck, facts, R, "chalk_recursive::fulfill::Fulfill::push_goal")
    if sg and pg:
        ms = enum_matches(facts.thir(sg.key), "chalk_ir::GoalData")
        mp = enum_matches(facts.thir(pg.key), "chalk_ir::GoalData")
        if len(ms) != 1 or len(mp) != 1:
            ck.violation(R, "matches", sg.where(), "expected one GoalData match in each engine")
        else:
            cells = []
            for v in facts.variants("chalk_ir::GoalData"):
                if v == "Quantified":
                    for q in facts.variants("chalk_ir::QuantifierKind"):
                        cells.append(("Quantified(%s)" % q, V("Quantified", **{"0": V(q)})))
                else:
                    cells.append((v, V(v)))
            SPEC = {"Quantified(ForAll)": {"universal"}, "Quantified(Exists)": {"existential"}, "Implies": {"extend-env"}, "All": {"each"},
                    "Not": {"negative-literal"}, "EqGoal": {"relate:Invariant"}, "SubtypeGoal": {"relate:Covariant"},
                    "DomainGoal": {"positive-literal"}, "CannotProve": {"ambiguous"}}
            n = 0
            for label, val in cells:
                n += 1
                a1 = select_arms(ms[0], val)
                a2 = select_arms(mp[0], val)
                c1 = action_class(ms[0]["arms"][a1[0][0]]["body"], "slg")
                c2 = action_class(mp[0]["arms"][a2[0][0]]["body"], "rec")
                # SubtypeGoal: both also refuse two general variables (C29.BOTH-VARS); compare the relate class only
                core1 = {x for x in c1 if x != "ambiguous" or label == "CannotProve"}
                core2 = {x for x in c2 if x != "ambiguous" or label == "CannotProve"}
                if label == "EqGoal" or label == "SubtypeGoal":
                    core1 -= {"positive-literal"}
                    core2 -= {"positive-literal"}
                want = SPEC.get(label)
                if want is None:
                    ck.violation(R, label, sg.where(), "GoalData variant not in the spec; extend it deliberately")
                elif core1 == core2 == want:
                    ck.ok(R, label, ",".join(sorted(want)))
                else:
                    ck.violation(R, label, sg.where(ms[0]["arms"][a1[0][0]]["ln"]),
                                 "SLG handles this goal as %s, the recursive solver as %s (spec: %s): the engines would solve different problems" % (
                                     sorted(core1), sorted(core2), sorted(want)))
            ck.floor(R, "cells", n, 9)

    R = "C04.SAME-GOAL"
    ck.rule(R, "K3: SLGSolver::solve passes `goal` to both make_solution and forest.iter_answers; RecursiveSolver::solve passes `goal` to "
               "solve_root_goal; neither rewrites the goal or its environment")
    s1 = need_body(ck, facts, R, "<chalk_engine::solve::SLGSolver as chalk_solve::solve::Solver>::solve")
    if s1:
        mk = [c for c in calls(s1.thir, "make_solution")]
        it = [c for c in calls(s1.thir, "iter_answers")]
        ok = len(mk) == 1 and len(it) == 1 and var_name(mk[0]["args"][1]) == "goal" and var_name(it[0]["args"][2]) == "goal" and \
            not [st for st in walk(s1.thir) if st.get("k") == "let" and st["pat"].get("n") == "goal"]
        if ok:
            ck.ok(R, "SLGSolver::solve")
        else:
            ck.violation(R, "SLGSolver::solve", s1.where(), "the caller's goal must reach the forest unchanged")
    s2 = need_body(ck, facts, R, "<chalk_recursive::recursive::RecursiveSolver as chalk_solve::solve::Solver>::solve")
    if s2:
        sr = [c for c in calls(s2.thir, "solve_root_goal")]
        ok = len(sr) == 1 and var_name(sr[0]["args"][1]) == "goal" and var_name(sr[0]["args"][2]) == "program"
        if ok:
            ck.ok(R, "RecursiveSolver::solve")
        else:
            ck.violation(R, "RecursiveSolver::solve", s2.where(), "the caller's goal must reach the recursive context unchanged")
    ic = need_body(ck, facts, R, "chalk_integration::SolverChoice::into_solver")
    if ic:
        ms = enum_matches(facts.thir(ic.key), "chalk_integration::SolverChoice")
        ok = False
        if len(ms) == 1:
            a = ms[0]["arms"][select_arms(ms[0], V("SLG"))[0][0]]
            r = ms[0]["arms"][select_arms(ms[0], V("Recursive"))[0][0]]
            ok = has_call(a["body"], "SLGSolver::new") and has_call(r["body"], "RecursiveSolver::new")
        if ok:
            ck.ok(R, "SolverChoice::into_solver", "SLG -> SLGSolver, Recursive -> RecursiveSolver")
        else:
            ck.violation(R, "SolverChoice::into_solver", ic.where(), "each choice must build its own engine")
