"""C07 - associated types normalize to the value of the applicable impl.

Not decided: uniqueness of the solution for a concrete self type (that needs coherence + the solver).
Decided:
  NORMALIZE-FROM-IMPL  AssociatedTyValue::to_program_clauses: Normalize(projection -> value.ty) :- impl where clauses ++ associated type
                       where clauses; negative impls contribute nothing
  PLACEHOLDER-LOW      AssociatedTyDatum: the placeholder fallback `AliasEq(proj = (Trait::Assoc)<..>)` is pushed with ClausePriority::Low
                       and `AliasEq(proj = T) :- Normalize(proj -> T)` with the default (High) priority
  PRIORITIES           combine::with_priorities is symmetric in (a, b) and lets the High solution override the Low one only when both
                       agree on the goal's inputs; otherwise it combines
  ALIAS-GOAL           Unifier::relate_alias_ty pushes an AliasEq goal on every path
"""
from core import enum_matches, select_arms, V, T, walk, calls, peel, callee_matches, var_name, expr_vars, trace_is_call
from kit import need_body, has_call, short, result_expr, mentions_field, thir_all, reachable_nodes, ctor_names, for_loops, loop_total

PC = "chalk_solve::clauses::program_clauses::ToProgramClauses"


def run(ck, facts, tier):
    from props.c14 import generalize_before_bind
    generalize_before_bind(ck, facts, "C07.NESTED-ALIAS-GENERALIZED")
    from props.c18 import alias_rows
    alias_rows(ck, facts, "C07.ALIAS-NOT-FILTERED")
    from shared import clauses as _clx
    _clx.clauses_no_drop(ck, facts, "C07.CLAUSES-NO-DROP")
    # the AliasEq placeholder fallback (low priority, tried first) is only overridden if the Normalize clause after it is tried too:
    # the clause loop of the recursive solver has no exit but the trivially-true one - not even on interruption
    _clx.every_clause(ck, facts, "C07.EVERY-CLAUSE")
    R = "C07.NORMALIZE-FROM-IMPL"
    ck.rule(R, "K2: the Normalize-From-Impl clause has consequence Normalize { alias: Projection(projection), ty: assoc_ty_value.ty } and conditions "
               "impl_where_clauses.chain(assoc_ty_where_clauses), each substituted; "
               "push_program_clauses_for_associated_type_values_in_impls_of skips negative impls")
    key = "<chalk_solve::rust_ir::AssociatedTyValue as %s>::to_program_clauses" % PC
    b = need_body(ck, facts, R, key)
    if b:
        th = facts.thir(key)
        pcs = [c for c in calls(th, "push_clause")]
        ok = False
        if len(pcs) == 1:
            head, conds = pcs[0]["args"][1], pcs[0]["args"][2]
            nz = [x for x in walk(head) if x.get("k") == "adt" and x["adt"] == "chalk_ir::Normalize"]
            if nz:
                f = dict(nz[0]["fields"])
                ty_ok = peel(f["ty"]).get("k") == "field" and peel(f["ty"])["n"] == "ty" and var_name(peel(f["ty"])["e"]) == "assoc_ty_value"
                al_ok = "projection" in expr_vars(f["alias"]) and any(x.get("k") == "adt" and x.get("v") == "Projection" for x in walk(f["alias"]))
                ch = peel(conds)
                ch_ok = ch.get("k") == "call" and callee_matches(ch, "Iterator::chain") and \
                    {var_name(a) for a in ch["args"]} == {"impl_where_clauses", "assoc_ty_where_clauses"}
                lets = {st["pat"].get("n"): st["init"] for st in walk(th) if st.get("k") == "let" and st.get("init") is not None and st["pat"].get("k") == "bind"}
                src_ok = "impl_where_clauses" in lets and mentions_field(lets["impl_where_clauses"], "where_clauses") and "impl_datum" in expr_vars(lets["impl_where_clauses"]) and \
                    "assoc_ty_where_clauses" in lets and mentions_field(lets["assoc_ty_where_clauses"], "where_clauses") and "associated_ty" in expr_vars(lets["assoc_ty_where_clauses"])
                ok = ty_ok and al_ok and ch_ok and src_ok
        if ok:
            ck.ok(R, "AssociatedTyValue:Normalize(proj -> value.ty) :- impl wcs ++ assoc-type wcs")
        else:
            ck.violation(R, "AssociatedTyValue:Normalize(proj -> value.ty) :- impl wcs ++ assoc-type wcs", b.where(),
                         "the normalization clause must yield the impl's associated type value under both sets of where clauses")
    pk = "chalk_solve::clauses::push_program_clauses_for_associated_type_values_in_impls_of"
    b = need_body(ck, facts, R, pk)
    if b:
        th = facts.thir(pk)
        cont = [n for n in walk(th) if n.get("k") == "if" and has_call(n["cond"], "is_positive") and peel(n["cond"]).get("k") == "un" and
                any(x.get("k") == "continue" for x in walk(n["then"]))]
        ok = bool(cont) and has_call(th, "impls_for_trait") and has_call(th, "associated_ty_from_impl") and has_call(th, "to_program_clauses")
        if ok:
            ck.ok(R, "impls_of:negative-impls-skipped;value-of-each-applicable-impl")
        else:
            ck.violation(R, "impls_of:negative-impls-skipped;value-of-each-applicable-impl", b.where(), "normalization clauses must come from every positive impl's associated type value")

    R = "C07.EVERY-IMPL"
    ck.rule(R, "K9 loop-total: the loop over db.impls_for_trait(..) in push_program_clauses_for_associated_type_values_in_impls_of emits the "
               "associated type value's clauses in *every* iteration - skipping only negative impls and impls without a value for this "
               "associated type - and is left only when the candidates are exhausted (no break / return: the candidate list is a syntactic "
               "pre-filter, a later candidate may be the impl that applies)")
    if b:
        th = facts.thir(pk)
        ls = [x for x in for_loops(th) if has_call(x[1], "impls_for_trait")]
        ck.floor(R, "for impl_id in impls_for_trait(..)", len(ls), 1)

        def excused(n):
            c = peel(n["cond"])
            if c.get("k") == "un" and c.get("op") == "Not" and has_call(c, "is_positive"):
                return "then"
            if c.get("k") == "letexpr" and has_call(c, "associated_ty_from_impl") and c["pat"].get("v") == "Some":
                return "else"
            return None
        for l, it, pat, body in ls:
            loop_total(ck, R, "impls_of:for-each-candidate-impl", b.where(l.get("ln")), body,
                       lambda n: n.get("k") == "call" and callee_matches(n, "to_program_clauses"), excused, what="a candidate impl")

    R = "C07.PLACEHOLDER-LOW"
    ck.rule(R, "K1: AssociatedTyDatum::to_program_clauses pushes exactly one clause with ClausePriority::Low - the fact AliasEq(projection = "
               "placeholder type) - and pushes AliasEq(projection = T) :- Normalize(projection -> T) through push_clause (High)")
    key = "<chalk_solve::rust_ir::AssociatedTyDatum as %s>::to_program_clauses" % PC
    b = need_body(ck, facts, R, key)
    if b:
        th = facts.thir(key)
        low = [c for c in walk(th) if c.get("k") == "call" and any(x.get("k") == "adt" and x.get("adt") == "chalk_ir::ClausePriority" and x["v"] == "Low" for x in walk(c.get("args", [])))
               and (c.get("fn") or "").endswith(("push_fact_with_priority", "push_clause_with_priority"))]
        lets = {}
        for st in walk(th):
            if st.get("k") == "let" and st.get("init") is not None and st["pat"].get("k") == "bind":
                lets.setdefault(st["pat"]["n"], st["init"])      # first (outermost) binding of each name
        ok_low = False
        if len(low) == 1:
            hv = var_name(low[0]["args"][1])
            init = lets.get(hv)
            if init is not None:
                ae = [x for x in walk(init) if x.get("k") == "adt" and x["adt"] == "chalk_ir::AliasEq"]
                if ae:
                    f = dict(ae[0]["fields"])
                    ok_low = "placeholder_ty" in expr_vars(f["ty"]) and "projection" in expr_vars(f["alias"])
            ph = lets.get("placeholder_ty")
            ok_low = ok_low and ph is not None and any(x.get("k") == "adt" and x["adt"] == "chalk_ir::TyKind" and x["v"] == "AssociatedType" for x in walk(ph))
        if ok_low:
            ck.ok(R, "AssociatedTyDatum:fallback-is-the-only-Low-clause")
        else:
            ck.violation(R, "AssociatedTyDatum:fallback-is-the-only-Low-clause", b.where(), "exactly the placeholder fallback AliasEq fact must have low priority (found %d low-priority pushes)" % len(low))
        ok_high = False
        for c in calls(th, "ClauseBuilder::push_clause"):
            hv = var_name(c["args"][1])
            cv = [var_name(a) for a in walk(c["args"][2]) if a.get("k") == "var"]
            if hv == "projection_eq" and "normalize" in expr_vars(c["args"][2]):
                ok_high = True
        if ok_high:
            ck.ok(R, "AssociatedTyDatum:AliasEq:-Normalize(high)")
        else:
            ck.violation(R, "AssociatedTyDatum:AliasEq:-Normalize(high)", b.where(), "AliasEq must follow from Normalize at the default (high) priority")

    R = "C07.PRIORITIES"
    ck.rule(R, "K1 symmetry: with_priorities matches (High, Low, higher, lower) | (Low, High, lower, higher) in one arm, returns the higher solution "
               "alone only under inputs_higher == inputs_lower, and otherwise (and for equal priorities) combines")
    wp = need_body(ck, facts, R, "chalk_recursive::combine::with_priorities")
    if wp:
        th = wp.thir
        ms = [m for m in walk(th) if m.get("k") == "match" and m.get("src", "").startswith("Normal") and "ClausePriority" in m.get("sty", "")]
        if len(ms) != 1:
            ck.violation(R, "with_priorities:match", wp.where(), "expected the match on (prio_a, prio_b, a, b)")
        else:
            m = ms[0]
            hl = select_arms(m, T(V("High"), V("Low"), ("any",), ("any",)))
            lh = select_arms(m, T(V("Low"), V("High"), ("any",), ("any",)))
            same = hl and lh and hl[0][0] == lh[0][0]
            binds_ok = False
            if same:
                pat = m["arms"][hl[0][0]]["pat"]
                alts = pat["pats"] if pat.get("k") == "or" else [pat]
                got = []
                for alt in alts:
                    d = {}
                    for idx, _n, sp in alt.get("sub", []):
                        if sp.get("k") == "variant":
                            d[sp["v"]] = idx
                        elif sp.get("k") == "bind":
                            d[sp["n"]] = idx
                    got.append(d)
                binds_ok = len(got) == 2 and all(d.get("higher") == d.get("High") + 2 and d.get("lower") == d.get("Low") + 2 for d in got)
            if same and binds_ok:
                ck.ok(R, "with_priorities:mirrored-High/Low-arm")
            else:
                ck.violation(R, "with_priorities:mirrored-High/Low-arm", wp.where(), "(High,Low) and (Low,High) must be handled by one arm that names the High solution `higher` in both orders")
            if same:
                body_ = m["arms"][hl[0][0]]["body"]
                ifs = [n for n in walk(body_) if n.get("k") == "if"]
                ok = False
                if len(ifs) == 1:
                    c = peel(ifs[0]["cond"])
                    iseq = (c.get("k") == "bin" and c["op"] == "Eq") or (c.get("k") == "call" and callee_matches(c, "PartialEq::eq"))
                    t, e = ifs[0]["then"], ifs[0].get("else")
                    ok = iseq and {"inputs_higher", "inputs_lower"} <= expr_vars(c) and not has_call(t, "Solution::combine") and "higher" in expr_vars(t) and \
                        "lower" not in (expr_vars(peel(result_expr(t))) if peel(result_expr(t)).get("k") == "tuple" else set()) and e is not None and has_call(e, "Solution::combine")
                if ok:
                    ck.ok(R, "with_priorities:override-only-when-inputs-agree")
                else:
                    ck.violation(R, "with_priorities:override-only-when-inputs-agree", wp.where(), "the high-priority solution may replace the low-priority one only under inputs_higher == inputs_lower; otherwise they must be combined")
            for pair in (("High", "High"), ("Low", "Low")):
                a = select_arms(m, T(V(pair[0]), V(pair[1]), ("any",), ("any",)))
                if a and has_call(m["arms"][a[0][0]]["body"], "Solution::combine"):
                    ck.ok(R, "with_priorities:(%s,%s)->combine" % pair)
                else:
                    ck.violation(R, "with_priorities:(%s,%s)->combine" % pair, wp.where(), "equal priorities must be combined")
        ci = need_body(ck, facts, R, "chalk_recursive::combine::calculate_inputs")
        if ci and has_call(ci.thir, "inputs") and has_call(ci.thir, "constrained_subst"):
            ck.ok(R, "calculate_inputs", "inputs of the goal under the solution's substitution")
        elif ci:
            ck.violation(R, "calculate_inputs", ci.where(), "inputs must be computed from the goal under the solution's substitution")

    R = "C07.ALIAS-GOAL"
    ck.rule(R, "K3: Unifier::relate_alias_ty pushes an AliasEq goal for the alias on every path to its return (never drops the alias)")
    ra = need_body(ck, facts, R, "chalk_solve::infer::unify::Unifier::relate_alias_ty")
    if ra:
        cfg = ra.cfg
        pushes = [i for i in cfg.call_blocks("Vec::push")]
        th = ra.thir
        ae = [x for x in walk(th) if x.get("k") == "adt" and x["adt"] == "chalk_ir::AliasEq"]
        all_alias = ae and all("alias" in expr_vars(dict(x["fields"])["alias"]) for x in ae)
        rets = cfg.return_blocks()
        ok = bool(pushes) and all(cfg.must_pass_blocks(r, pushes) for r in rets) and all_alias and len(ae) == 2
        if ok:
            ck.ok(R, "relate_alias_ty:AliasEq-on-every-path", "%d AliasEq constructions, return dominated by a push" % len(ae))
        else:
            ck.violation(R, "relate_alias_ty:AliasEq-on-every-path", ra.where(), "relating an alias must always produce an AliasEq obligation for that alias")
        ms = enum_matches(th, "chalk_ir::Variance")
        if len(ms) == 1:
            inv = ms[0]["arms"][select_arms(ms[0], V("Invariant"))[0][0]]
            f = [dict(x["fields"]) for x in walk(inv["body"]) if x.get("k") == "adt" and x["adt"] == "chalk_ir::AliasEq"]
            if f and "ty" in expr_vars(f[0]["ty"]):
                ck.ok(R, "relate_alias_ty:Invariant->AliasEq(alias = ty)")
            else:
                ck.violation(R, "relate_alias_ty:Invariant->AliasEq(alias = ty)", ra.where(inv["ln"]), "under invariance the alias must be equated with the other type itself")

    R = "C07.ALIAS-GENERALIZED"
    ck.rule(R, "K1: Unifier::generalize_ty replaces an alias (projection / opaque) by a *fresh inference variable* on every path, whatever the "
               "variance: the generalized type is then related back to the original, which is what emits the AliasEq subgoal for an "
               "alias nested inside a constructor - returning the alias itself makes both sides identical and the inner projection is "
               "never normalized")
    gk = "chalk_solve::infer::unify::Unifier::generalize_ty"
    gb = need_body(ck, facts, R, gk)
    if gb:
        from kit import loop_flow
        ms = enum_matches(facts.thir(gk), "chalk_ir::TyKind")
        if not ms:
            ck.violation(R, "generalize_ty:match", gb.where(), "match on TyKind not found")
        else:
            arms = select_arms(ms[0], V("Alias"))
            arm = ms[0]["arms"][arms[0][0]]
            res = loop_flow(arm["body"], False, lambda n: n.get("k") == "call" and callee_matches(n, ("InferenceTable::<I>::new_variable", "new_variable")))
            if res and all(p for oc, p in res):
                ck.ok(R, "generalize_ty:Alias->fresh-variable", "every path creates a new variable")
            else:
                ck.violation(R, "generalize_ty:Alias->fresh-variable", gb.where(arm["ln"]),
                             "a path through the Alias arm does not create a fresh variable (the alias is kept in the generalized type)")
