"""C06 - hypotheses and implied bounds yield exactly their consequences.

Not decided: that elaboration computes exactly the logical closure.
Decided:
  ENV-KEYED  results are cached / tabled under the goal *with its environment* (shared with C10.KEY), so an answer obtained under
             hypotheses can only be reused for a query with the same hypotheses
  SCOPED     Environment::add_clauses is non-destructive; both engines give the extended environment only to the sub-goal of the
             `Implies` and keep the original for siblings
  ELAB       EnvElaborator handles FromEnv(Trait) (trait clauses + every associated type) and FromEnv(Ty); TraitDatum emits one
             FromEnv(wc) :- FromEnv(trait_ref) per where clause; program_clauses_for_env is a worklist closure that stops only when
             a round adds nothing
  LOWER      lowering `if (H) { G }` turns every hypothesis into a FromEnv clause
"""
from core import enum_matches, select_arms, V, walk, calls, peel, callee_matches, var_name, expr_vars, trace_is_call
from kit import need_body, has_call, short, result_expr, mentions_field, thir_all, reachable_nodes, ctor_names, for_loops, loop_total, collector_never_breaks


def run(ck, facts, tier):
    from props.c05 import coind_table
    coind_table(ck, facts, "C06.HYPOTHESES-INDUCTIVE", only=lambda l: "FromEnv" in l or "Holds" in l or l.startswith(("Not", "EqGoal", "All", "Implies", "CannotProve", "SubtypeGoal")), floor=6)
    from shared import clauses as _clx
    _clx.clauses_no_drop(ck, facts, "C06.CLAUSES-NO-DROP")
    R = "C06.ENV-KEYED"
    ck.rule(R, "types: InEnvironment has fields {environment, goal}, both covered by its derived Eq/Hash; Environment's only field `clauses` "
               "likewise (no hand-written impl skipping the hypotheses); keys of tables / cache: see C10.KEY")
    ie = facts.adt("chalk_ir::InEnvironment")
    en = facts.adt("chalk_ir::Environment")
    if ie and en:
        f1 = [f["n"] for f in ie["variants"][0]["fields"]]
        f2 = [f["n"] for f in en["variants"][0]["fields"]]
        if f1 == ["environment", "goal"] and f2 == ["clauses"]:
            ck.ok(R, "InEnvironment{environment,goal};Environment{clauses}")
        else:
            ck.violation(R, "InEnvironment{environment,goal};Environment{clauses}", "", "key types changed shape: %s / %s" % (f1, f2))
        for ty in ("InEnvironment", "Environment"):
            for tr in ("core::cmp::PartialEq", "core::hash::Hash"):
                ims = [im for im in facts.crate("chalk_ir")["impls"] if im.get("self_key") == "chalk_ir::" + ty and im.get("trait") == tr]
                if len(ims) == 1 and (ims[0].get("derived") or "derive" in (ims[0].get("x") or "")):
                    ck.ok(R, "%s:%s-derived" % (ty, tr.split("::")[-1]))
                else:
                    ck.violation(R, "%s:%s-derived" % (ty, tr.split("::")[-1]), "", "hand-written or missing impl: the environment could be ignored when comparing goals")
    else:
        ck.violation(R, "missing-anchor:InEnvironment/Environment", "", "types not found")

    R = "C06.SCOPED"
    ck.rule(R, "K3: Environment::add_clauses takes &self and returns a new environment built from clone + chain; in simplify_goal and "
               "Fulfill::push_goal the result of add_clauses flows only into the Implies sub-goal, and `All` pushes its sub-goals with the "
               "unextended environment")
    ac = need_body(ck, facts, R, "chalk_ir::Environment::add_clauses")
    if ac:
        th = ac.thir
        okp = ac.d.get("params", [""])[0].startswith("&chalk_ir::Environment") and not ac.d["params"][0].startswith("&mut")
        ok = okp and has_call(th, "Clone::clone") and has_call(th, "Iterator::chain") and has_call(th, "ProgramClauses::from_iter")
        if ok:
            ck.ok(R, "add_clauses:non-destructive", "&self -> clone + old.chain(new)")
        else:
            ck.violation(R, "add_clauses:non-destructive", ac.where(), "add_clauses must build a new environment that contains the old clauses plus the new ones")
    for key, push in (("chalk_engine::forest::Forest::simplify_goal", "Vec::push"), ("chalk_recursive::fulfill::Fulfill::push_goal", "Fulfill::push_goal")):
        b = need_body(ck, facts, R, key)
        if not b:
            continue
        ms = enum_matches(facts.thir(b.key), "chalk_ir::GoalData")
        if len(ms) != 1:
            ck.violation(R, "%s:match" % short(key), b.where(), "expected one match on GoalData")
            continue
        m = ms[0]
        arm = m["arms"][select_arms(m, V("Implies"))[0][0]]
        adds = [st for st in walk(arm["body"]) if st.get("k") == "let" and st.get("init") is not None and has_call(st["init"], "Environment::add_clauses")]
        ok = False
        if len(adds) == 1:
            nm = adds[0]["pat"].get("n")
            recv = [c for c in calls(adds[0]["init"], "Environment::add_clauses")][0]["args"][0]
            uses = [c for c in calls(arm["body"], push) if nm in expr_vars(c)]
            wc_used = "wc" in expr_vars(adds[0]["init"]) or any(True for _ in calls(adds[0]["init"], "iter"))
            ok = var_name(recv) == "environment" and len(uses) == 1 and wc_used
        if ok:
            ck.ok(R, "%s:Implies" % short(key), "new_environment = environment.add_clauses(wc); used only for the sub-goal")
        else:
            ck.violation(R, "%s:Implies" % short(key), b.where(arm["ln"]), "the hypotheses must extend (not replace) the environment, and only for the implied sub-goal")
        arm = m["arms"][select_arms(m, V("All"))[0][0]]
        envs = set()
        for c in calls(arm["body"], push):
            envs |= expr_vars(c) & {"environment", "new_environment"}
        if envs == {"environment"} and not has_call(arm["body"], "add_clauses"):
            ck.ok(R, "%s:All-keeps-environment" % short(key))
        else:
            ck.violation(R, "%s:All-keeps-environment" % short(key), b.where(arm["ln"]), "conjuncts must be solved in the enclosing environment")
        # no other arm extends the environment
        others = [v for v in facts.variants("chalk_ir::GoalData") if v != "Implies"]
        leak = [v for v in others for i, r in select_arms(m, V(v)) if has_call(m["arms"][i]["body"], "add_clauses")]
        if not leak:
            ck.ok(R, "%s:only-Implies-extends" % short(key))
        else:
            ck.violation(R, "%s:only-Implies-extends" % short(key), b.where(), "arms %s extend the environment" % leak)

    R = "C06.ELAB"
    ck.rule(R, "K1/K2: EnvElaborator::visit_domain_goal: FromEnv::Trait -> trait_datum clauses + associated_ty_data clauses for every "
               "associated_ty_ids entry; FromEnv::Ty -> visit the type; TraitDatum::to_program_clauses loops over all where clauses pushing "
               "FromEnv(wc) :- FromEnv(trait_ref); program_clauses_for_env: loop until last_round is empty, next round = clauses newly "
               "inserted into `closure`")
    vd = need_body(ck, facts, R, "<chalk_solve::clauses::env_elaborator::EnvElaborator as chalk_ir::visit::TypeVisitor>::visit_domain_goal")
    if vd:
        ms = enum_matches(facts.thir(vd.key), "chalk_ir::FromEnv")
        if len(ms) != 1:
            ck.violation(R, "visit_domain_goal:match", vd.where(), "expected one match on FromEnv")
        else:
            t = ms[0]["arms"][select_arms(ms[0], V("Trait"))[0][0]]
            y = ms[0]["arms"][select_arms(ms[0], V("Ty"))[0][0]]
            loops = [l for l in walk(t["body"]) if l.get("k") == "match" and l.get("src", "").startswith("ForLoopDesugar")]
            okt = len([c for c in calls(t["body"], "to_program_clauses")]) == 2 and has_call(t["body"], "trait_datum") and \
                any(mentions_field(l["scrut"], "associated_ty_ids") and has_call(l, "associated_ty_data") and has_call(l, "to_program_clauses") for l in loops)
            if okt:
                # ... and unconditionally: whether the associated types' implied bounds are pushed does not depend on anything the
                # elaborator remembers about earlier clauses or rounds (the consequence of `FromEnv(T: Super) :- FromEnv(T: Sub)` names a
                # trait whose associated types nobody has elaborated yet)
                from kit import conditions_above
                for l in loops:
                    if mentions_field(l["scrut"], "associated_ty_ids"):
                        above = conditions_above(t["body"], l)
                        if above is None or above:
                            okt = False
                for c_ in calls(t["body"], "to_program_clauses"):
                    above = [a_ for a_ in (conditions_above(t["body"], c_) or []) if not str(a_.get("src", "")).startswith("ForLoopDesugar")]
                    if above:
                        okt = False
            oky = has_call(y["body"], "visit_with")
            if okt:
                ck.ok(R, "visit_domain_goal:FromEnv::Trait")
            else:
                ck.violation(R, "visit_domain_goal:FromEnv::Trait", vd.where(t["ln"]), "a FromEnv(T: Trait) hypothesis must bring in the trait's clauses and all of its associated types' clauses")
            if oky:
                ck.ok(R, "visit_domain_goal:FromEnv::Ty")
            else:
                ck.violation(R, "visit_domain_goal:FromEnv::Ty", vd.where(y["ln"]), "a FromEnv(Ty) hypothesis must elaborate the type")
        # only FromEnv hypotheses are elaborated: every call that does the work sits behind the FromEnv edge of the test on the
        # DomainGoal (a path fact: `if let`, `match` with the work in the arm, or `let x = match .. { _ => return }` alike)
        cfg_v = vd.cfg
        fe_edges = cfg_v.variant_edges(lambda tr: tr.get("adt") == "chalk_ir::DomainGoal", ["FromEnv"])
        work_sites = cfg_v.call_blocks("to_program_clauses") + cfg_v.call_blocks("visit_with")
        okg = bool(fe_edges) and bool(work_sites) and all(cfg_v.must_pass_edges(w_, fe_edges) for w_ in work_sites)
        if okg:
            ck.ok(R, "visit_domain_goal:only-FromEnv")
        else:
            ck.violation(R, "visit_domain_goal:only-FromEnv", vd.where(), "exactly the FromEnv hypotheses are elaborated")
    tkey = "<chalk_solve::rust_ir::TraitDatum as chalk_solve::clauses::program_clauses::ToProgramClauses>::to_program_clauses"
    tb = need_body(ck, facts, R, tkey)
    if tb:
        th = facts.thir(tkey)
        loops = [l for l in walk(th) if l.get("k") == "match" and l.get("src", "").startswith("ForLoopDesugar") and "where_clauses" in expr_vars(l["scrut"])]
        ok = False
        for l in loops:
            pcs = [c for c in calls(l, "push_clause")]
            if pcs and any(has_call(c["args"][1], "into_from_env_goal") and has_call(c["args"][2], "from_env") and "trait_ref" in expr_vars(c["args"][2]) for c in pcs) \
                    and not has_call(l["scrut"], ("take", "skip", "filter")):
                ok = True
        for l, it, pat, lbody in for_loops(th):
            if "where_clauses" in expr_vars(it):
                if not loop_total(ck, R, "TraitDatum:implied-bound-loop-total", tb.where(l.get("ln")), lbody,
                                  lambda n: n.get("k") == "call" and has_call(n, "push_clause") and has_call(n, "into_from_env_goal"),
                                  what="a where clause of the trait"):
                    ok = False
        if ok:
            ck.ok(R, "TraitDatum:FromEnv(wc):-FromEnv(trait_ref) for every where clause")
        else:
            ck.violation(R, "TraitDatum:FromEnv(wc):-FromEnv(trait_ref) for every where clause", tb.where(), "every where clause of the trait must become an implied bound")
    pe = need_body(ck, facts, R, "chalk_solve::clauses::program_clauses_for_env")
    if pe:
        cfg = pe.cfg
        th = facts.thir("chalk_solve::clauses::program_clauses_for_env")
        # the loop is left only when last_round.is_empty()
        exits = cfg.bool_edges(trace_is_call("HashSet::is_empty"), True)
        el = cfg.call_blocks("elaborate_env_clauses")
        final = cfg.call_blocks("ProgramClauses::from_iter")
        ok1 = bool(exits) and bool(final) and all(cfg.must_pass_edges(f, exits) for f in final) and bool(el)
        # names are not assumed: C = the set whose `insert` decides membership, the next round = the receiver of that `extend`
        ext = [c for c in calls(th, "extend") if has_call(c, "HashSet::insert")]
        ok2 = bool(ext) and has_call(ext[0], "Iterator::filter")
        cname = None
        if ok2:
            # the only thing allowed to keep a clause out of the next round is `C.insert(clause)` returning false
            DROPPERS = {"filter", "filter_map", "take", "skip", "take_while", "skip_while", "step_by", "find", "nth", "last", "dedup", "unique", "flat_map"}
            ads = [str(c.get("fn", "")).split("::")[-1] for c in calls(ext[0]) if str(c.get("fn", "")).split("::")[-1] in DROPPERS]
            ins = [c for c in calls(ext[0], "HashSet::insert")]
            cname = var_name(ins[0]["args"][0]) if len(ins) == 1 else None
            ok2 = ads == ["filter"] and cname is not None
        res = [c for c in calls(th, "ProgramClauses::from_iter")]
        ok3 = bool(res) and cname is not None and cname in expr_vars(res[0])
        elc = [c for c in calls(th, "elaborate_env_clauses")]
        round_vars = set().union(*[expr_vars(a) for c in elc for a in c["args"]]) if elc else set()
        seed = any(st.get("k") == "let" and st["pat"].get("n") == cname and (expr_vars(st["init"]) & round_vars) for st in walk(th))
        if ok1 and ok2 and ok3 and seed:
            ck.ok(R, "program_clauses_for_env:worklist-closure")
        else:
            ck.violation(R, "program_clauses_for_env:worklist-closure", pe.where(),
                         "must iterate elaboration until a round adds no new clause and return the accumulated closure (exit=%s next-round=%s result=%s seed=%s)" % (ok1, ok2, ok3, seed))
    el = need_body(ck, facts, R, "chalk_solve::clauses::env_elaborator::elaborate_env_clauses")
    if el:
        if has_call(el.thir, "visit_with") and has_call(el.thir, "extend") and "in_clauses" in expr_vars(el.thir):
            ck.ok(R, "elaborate_env_clauses:visits-all-input-clauses")
        else:
            ck.violation(R, "elaborate_env_clauses:visits-all-input-clauses", el.where(), "all clauses of the round must be visited and the results added to `out`")

    R = "C06.LOWER"
    ck.rule(R, "K2: lowering Goal::Implies maps every lowered hypothesis through into_from_env_clause (no filtering) into the Implies clauses")
    gl = [b for k, b in facts.bodies("chalk_integration").items() if k.startswith("<chalk_parse::ast::Goal as chalk_integration::lowering::LowerWithEnv>::lower") and "{" not in k]
    if ck.require(R, "Goal::lower", gl):
        b = gl[0]
        th = facts.thir(b.key)
        ms = enum_matches(th, "chalk_parse::ast::Goal")
        if len(ms) != 1:
            ck.violation(R, "Goal::lower:match", b.where(), "expected one match on ast::Goal")
        else:
            arm = ms[0]["arms"][select_arms(ms[0], V("Implies"))[0][0]]
            narrowing = [c for c in calls(arm["body"], ("Iterator::filter", "Iterator::take", "Iterator::skip", "Iterator::filter_map"))]
            ok = has_call(arm["body"], "into_from_env_clause") and has_call(arm["body"], "flat_map") and not narrowing and \
                any(x.get("k") == "adt" and x.get("v") == "Implies" and x["adt"] == "chalk_ir::GoalData" for x in walk(arm["body"]))
            if ok:
                ck.ok(R, "Goal::Implies:every-hypothesis->FromEnv-clause")
            else:
                ck.violation(R, "Goal::Implies:every-hypothesis->FromEnv-clause", b.where(arm["ln"]), "every hypothesis must be kept and converted with into_from_env_clause")

    R = "C06.ELAB-COLLECT-ALL"
    ck.rule(R, "K1: EnvElaborator (elaborates every hypothesis of the environment) never aborts its traversal (no visit method returns ControlFlow::Break)")
    collector_never_breaks(ck, R, facts, "chalk_solve", "<chalk_solve::clauses::env_elaborator::EnvElaborator as chalk_ir::visit::TypeVisitor>::", "EnvElaborator", 1)
