"""C18 - clause pre-filtering never discards an applicable clause.

Decided for type structure, exhaustively over all TyKind x TyKind pairs:
  FLEX-TRUE        whenever either side is a kind that the unifier can relate to a *different* kind (derived from the
                   unifier's own table), MatchZipper::zip_tys answers `true`
  RIGID-JUSTIFIED  a same-constructor arm can only become false through comparisons the unifier also makes
  LEAVES           lifetimes / consts / binders never reject
  CALLERS          every user applies the filter to the clause consequence and the goal it is solving
"""
from core import enum_matches, select_arms, V, T, ANY, walk, calls, peel, callee_matches, var_name, find_matches
from kit import need_body, short
from kit import has_call, thir_all, is_lit_bool, result_expr
from core import expr_vars

TYKIND = "chalk_ir::TyKind"
ZIP_TYS = "<<T as chalk_ir::could_match::CouldMatch>::could_match::MatchZipper as chalk_ir::zip::Zipper>::zip_tys"
RELATE = "chalk_solve::infer::unify::Unifier::relate_ty_ty"


def tuple_match(thir):
    """The `match (a.kind(), b.kind())` over two TyKinds."""
    out = []
    for m in walk(thir):
        if m.get("k") == "match" and m.get("src", "").startswith("Normal") and m.get("sty", "").startswith("(&chalk_ir::TyKind<") \
                and m["sty"].count("chalk_ir::TyKind<") == 2:
            out.append(m)
    from core import merge_delegating_arms
    merged = [merge_delegating_arms(m) for m in out]
    inner = {id(a) for m0, mm in zip(out, merged) if mm is not m0 for a in mm.get("arms", [])}
    return [mm for m0, mm in zip(out, merged) if not (mm is m0 and any(id(a) in inner for a in m0.get("arms", [])))]


def is_err(node):
    n = result_expr(node)
    if isinstance(n, dict) and n.get("k") == "return":
        n = result_expr(n.get("e"))
    return isinstance(n, dict) and n.get("k") == "adt" and n.get("v") == "Err"


def side_vars(pat):
    """var name -> (side, field index) for `(TyKind::K(a0, a1), TyKind::K(b0, b1))`."""
    out = {}
    if pat.get("k") != "leaf":
        return out
    for side, _name, sp in pat.get("sub", []):
        if sp.get("k") == "variant":
            for idx, _n, b in sp.get("sub", []):
                if b.get("k") == "bind":
                    out[b["n"]] = (side, idx)
    return out


def atoms(expr):
    """Flatten a conjunction."""
    e = result_expr(expr)
    if isinstance(e, dict) and e.get("k") == "logic" and e["op"] == "And":
        return atoms(e["l"]) + atoms(e["r"])
    return [e]


FACTS = None


def classify_atom(a, sv):
    """-> ('true',) | ('eq', idx) | ('sub', idx...) | ('bad', why)"""
    a = peel(a)
    if a.get("k") == "lit" and "true" in a["v"]:
        return ("true",)
    vs = [v for v in expr_vars(a) if v in sv]
    sides = {sv[v][0] for v in vs}
    idxs = {sv[v][1] for v in vs}
    if a.get("k") == "bin" and a["op"] == "Eq" or (a.get("k") == "call" and callee_matches(a, "PartialEq::eq")):
        if len(vs) == 2 and len(sides) == 2 and len(idxs) == 1:
            return ("eq", idxs.pop())
        return ("bad", "equality between non-corresponding fields %s" % vs)
    if a.get("k") == "call":
        names = [c.get("fn", "") for c in calls(a)]
        okc = ("could_match", "zip_substs", "is_ok", "as_slice", "adt_variance", "fn_def_variance", "unification_database", "Some")
        inner = [n for n in names if not any(n.endswith(x) for x in okc)]
        # a helper of the pre-filter itself (inlining bound 1): its body only zips / could-matches what it is given
        if inner and FACTS is not None:
            def zipping_helper(n):
                hb = FACTS.body(n)
                if hb is None or hb.thir is None or "could_match" not in n:
                    return False
                hn = [c.get("fn", "") for c in calls(hb.thir)]
                return any(x.endswith(("zip_substs", "could_match", "zip_with", "zip_tys")) for x in hn) and \
                    all(any(x.endswith(y) for y in okc + ("zip_with", "zip_tys", "interner")) for x in hn)
            inner = [n for n in inner if not zipping_helper(n)]
        is_closure_call = bool(a.get("closure")) or "Fn::call" in (a.get("fn") or "")
        if inner and not is_closure_call:
            return ("bad", "unexpected call(s) %s" % inner[:3])
        # every component used must be used together with its counterpart
        per_idx = {}
        for v in vs:
            per_idx.setdefault(sv[v][1], set()).add(sv[v][0])
        if all(len(s) == 2 for i, s in per_idx.items()) or \
                all(len(s) == 2 for i, s in per_idx.items() if i != 0) and any("variance" in n for n in names):
            return ("sub",) + tuple(sorted(per_idx))
        return ("bad", "components compared without their counterpart: %s" % per_idx)
    return ("bad", "unclassified expression kind %s" % a.get("k"))


def run(ck, facts, tier):
    global FACTS
    FACTS = facts
    zt = need_body(ck, facts, "C18.FLEX-TRUE", ZIP_TYS)
    rel = need_body(ck, facts, "C18.FLEX-TRUE", RELATE)
    variants = facts.variants(TYKIND) or []
    ck.floor("C18.FLEX-TRUE", "TyKind-variants", len(variants), 23)
    if not (zt and rel and variants):
        return
    zm = tuple_match(facts.thir(zt.key))
    rm = tuple_match(facts.thir(rel.key))
    if len(zm) != 1 or len(rm) != 1:
        ck.violation("C18.FLEX-TRUE", "match-on-kind-pair", zt.where(), "expected one (TyKind, TyKind) match in zip_tys and relate_ty_ty "
                     "(found %d / %d)" % (len(zm), len(rm)))
        return
    zm, rm = zm[0], rm[0]

    # ---- which kinds can unify with a different kind?  read it off the unifier's table
    R = "C18.FLEX-TRUE"
    ck.rule(R, "K1: for all TyKind pairs, if either side is a kind the unifier relates to other kinds without failing "
               "(derived from relate_ty_ty's table: today InferenceVar, Alias, Error, BoundVar), zip_tys yields constant `true`")
    flex = set()
    for k in variants:
        other = "Str" if k != "Str" else "Never"
        for pair in (T(V(k), V(other)), T(V(other), V(k))):
            arms = select_arms(rm, pair)
            if not arms:
                continue
            body_ = rm["arms"][arms[0][0]]["body"]
            if not is_err(body_):
                flex.add(k)
    ck.count("flexible-kinds-derived-from-unifier", sorted(flex))
    if not {"InferenceVar", "Alias", "BoundVar"} <= flex:
        ck.violation(R, "flexible-kinds", rel.where(), "could not derive the flexible kinds from relate_ty_ty (got %s)" % sorted(flex))
    n = 0
    for ka in variants:
        for kb in variants:
            if ka not in flex and kb not in flex:
                continue
            n += 1
            arms = select_arms(zm, T(V(ka), V(kb)))
            inst = "zip_tys:(%s,%s)" % (ka, kb)
            bad = [i for i, r in arms if not is_lit_bool(zm["arms"][i]["body"], True)]
            if not arms or bad:
                ln = zm["arms"][bad[0]]["ln"] if bad else zt.ln
                ck.violation(R, inst, zt.where(ln), "one side can unify with any type, yet the pre-filter may answer something other than `true`")
            else:
                ck.ok(R, inst, "true")
    ck.floor(R, "pairs", n, 23 * 23 - 19 * 19)

    # ---- same-constructor arms
    R = "C18.RIGID-JUSTIFIED"
    ck.rule(R, "K1 sibling: for every pair of rigid kinds, zip_tys may answer false only for (K,K) and only through (a) equality of the "
               "same non-term field on both sides that relate_ty_ty's (K,K) arm also compares, (b) could_match / zip_substs on "
               "corresponding components; different rigid kinds may be rejected freely (they never unify)")
    n = 0
    for ka in variants:
        for kb in variants:
            if ka in flex or kb in flex:
                continue
            n += 1
            arms = select_arms(zm, T(V(ka), V(kb)))
            inst = "zip_tys:(%s,%s)" % (ka, kb)
            if ka != kb:
                # the unifier must indeed reject this pair, otherwise a `false` here would be wrong
                arm = zm["arms"][arms[0][0]]
                if is_lit_bool(arm["body"], True):
                    ck.ok(R, inst, "true (conservative)")
                    continue
                ra = select_arms(rm, T(V(ka), V(kb)))
                if ra and is_err(rm["arms"][ra[0][0]]["body"]):
                    ck.ok(R, inst, "may reject: the unifier rejects this pair")
                else:
                    ck.violation(R, inst, zt.where(arm["ln"]), "pre-filter may reject a pair the unifier does not reject outright")
                continue
            if len(arms) != 1 or arms[0][1] != "yes":
                ck.violation(R, inst, zt.where(), "no unique arm")
                continue
            arm = zm["arms"][arms[0][0]]
            if is_lit_bool(arm["body"], True):
                ck.ok(R, inst, "true")
                continue
            sv = side_vars(arm["pat"])
            ra = select_arms(rm, T(V(ka), V(kb)))
            rarm = rm["arms"][ra[0][0]] if ra else None
            rsv = side_vars(rarm["pat"]) if rarm else {}
            problems = []
            for a in atoms(arm["body"]):
                c = classify_atom(a, sv)
                if c[0] == "bad":
                    problems.append(c[1])
                elif c[0] == "eq":
                    # the unifier must compare the same field (by `!=` -> Err, or by zipping the two values)
                    idx = c[1]
                    rv = [v for v, (s, i) in rsv.items() if i == idx]
                    used = False
                    if rarm and len(rv) == 2:
                        for x in walk(rarm["body"]):
                            if (x.get("k") == "bin" and x["op"] in ("Ne", "Eq")) or \
                                    (x.get("k") == "call" and (callee_matches(x, "PartialEq::ne") or callee_matches(x, "PartialEq::eq")
                                                               or callee_matches(x, "Zip::zip_with"))):
                                if set(rv) <= expr_vars(x):
                                    used = True
                    if not used:
                        problems.append("field %d compared for equality here but not by the unifier" % idx)
            if problems:
                ck.violation(R, inst, zt.where(arm["ln"]), "; ".join(problems))
            else:
                ck.ok(R, inst, "false only through justified comparisons")
    ck.floor(R, "pairs", n, 19 * 19)
    # the `matches` helper closure: all(could_match) over zipped components
    mc = [c for c in facts.closures_of(zt)]
    ok = any(has_call(c.thir, "Iterator::all") and has_call(c.thir, "Iterator::zip") and not has_call(c.thir, "Iterator::any") for c in mc) and \
        any(has_call(c.thir, "could_match") for c in mc)
    if ok:
        ck.ok(R, "zip_tys:matches-closure", "a.iter().zip(b.iter()).all(could_match)")
    else:
        ck.violation(R, "zip_tys:matches-closure", zt.where(), "helper closure must be `zip(..).all(could_match)`")
    tail = [n_ for n_ in walk(zt.thir) if n_.get("k") == "if" and var_name(n_["cond"]) == "could_match"]
    if tail and not is_err(tail[0]["then"]) and tail[0].get("else") is not None and is_err(tail[0]["else"]):
        ck.ok(R, "zip_tys:result", "Ok iff could_match")
    else:
        ck.violation(R, "zip_tys:result", zt.where(), "zip_tys must return Ok exactly when the table says true")

    # ---- leaves
    R = "C18.LEAVES"
    ck.rule(R, "K1: zip_lifetimes and zip_consts never reject; zip_binders recurses under both binders; could_match = zip_with(..).is_ok()")
    base = ZIP_TYS.rsplit("::", 1)[0] + "::"
    for leaf in ("zip_lifetimes", "zip_consts"):
        b = need_body(ck, facts, R, base + leaf)
        if b:
            e = result_expr(b.thir)
            errs = [x for x in walk(b.thir) if x.get("k") == "adt" and x.get("v") == "Err"]
            if e.get("k") == "adt" and e.get("v") == "Ok" and not errs:
                ck.ok(R, leaf, "constant Ok(())")
            else:
                ck.violation(R, leaf, b.where(), "%s must never reject (regions are erased / consts may be unevaluated)" % leaf)
    b = need_body(ck, facts, R, base + "zip_binders")
    if b:
        zc = [c for c in calls(b.thir, "Zip::zip_with")]
        if len(zc) == 1 and {"a", "b"} <= expr_vars(zc[0]) and not [x for x in walk(b.thir) if x.get("k") == "adt" and x.get("v") == "Err"]:
            ck.ok(R, "zip_binders", "zips a.value with b.value")
        else:
            ck.violation(R, "zip_binders", b.where(), "binders must be compared by their bodies only")
    cm = need_body(ck, facts, R, "<T as chalk_ir::could_match::CouldMatch>::could_match")
    if cm:
        e = None
        for x in walk(cm.thir):
            if x.get("k") == "return":
                e = result_expr(x["e"])
        if e and e.get("k") == "call" and callee_matches(e, "Result::is_ok") and has_call(e, "Zip::zip_with"):
            ck.ok(R, "could_match", "Zip::zip_with(MatchZipper, Invariant, self, other).is_ok()")
        else:
            ck.violation(R, "could_match", cm.where(), "could_match must be zip_with(..).is_ok()")
    pc = need_body(ck, facts, R, "<chalk_ir::ProgramClauseData as chalk_ir::could_match::CouldMatch>::could_match")
    if pc:
        flds = [x["n"] for x in walk(pc.thir) if x.get("k") == "field"]
        if "consequence" in flds and "conditions" not in flds and has_call(pc.thir, "could_match"):
            ck.ok(R, "ProgramClauseData::could_match", "filters on the clause consequence")
        else:
            ck.violation(R, "ProgramClauseData::could_match", pc.where(), "a clause must be filtered by its consequence only")

    # ---- callers
    R = "C18.CALLERS"
    ck.rule(R, "K4/K3: each user of the filter passes the goal it is solving (derived from its goal parameter) as the other side")
    users = {
        "chalk_engine::forest::Forest::build_table": "goal",
        "chalk_recursive::solve::SolveIterationHelpers::solve_from_clauses": "canonical_goal",
        "chalk_solve::clauses::program_clauses_for_goal": "goal",
        "<chalk_integration::program::Program as chalk_solve::RustIrDatabase>::impls_for_trait": "parameters",
    }
    n = 0
    for key, param in users.items():
        b = need_body(ck, facts, R, key)
        if not b:
            continue
        derived = {param}
        changed = True
        roots = [facts.thir(key)]         # closures and single-use helpers spliced in
        while changed:
            changed = False
            for t in roots:
                for st in walk(t):
                    if st.get("k") == "let" and st.get("init") is not None and st["pat"].get("k") == "bind":
                        if st["pat"]["n"] not in derived and expr_vars(st["init"]) & derived:
                            derived.add(st["pat"]["n"])
                            changed = True
        cms = [c for t in roots for c in calls(t, "could_match")]
        good = [c for c in cms if any(expr_vars(a) & derived for a in c["args"])]
        n += len(cms)
        inst = "%s:could_match(goal)" % short(key)
        if cms and len(good) == len(cms):
            ck.ok(R, inst, "%d call(s), all against a value derived from `%s`" % (len(cms), param))
        else:
            ck.violation(R, inst, b.where(), "the filter is applied %d time(s), %d of them against the goal being solved" % (len(cms), len(good)))
    ck.floor(R, "could_match-call-sites", n, 3)
    sole_filter(ck, facts)
    impl_values_unconditional(ck, facts, "C18.IMPL-VALUES-UNCONDITIONAL")


def impl_values_unconditional(ck, facts, R):
    ck.rule(R, "K3 (control dependence): for a Normalize goal on a projection, program_clauses_that_could_match looks through the impls "
               "of the trait for associated type values (push_program_clauses_for_associated_type_values_in_impls_of, which asks "
               "impls_for_trait / could_match) UNCONDITIONALLY once the early exits for inference variables and non-enumerable traits "
               "are behind it: no test on the kind of the self type stands in front of the call.  An impl header like `Vec<u32>` does "
               "unify with an alias self type `<S as Foo>::A` (through an AliasEq subgoal) and could_match says so; a second pre-filter "
               "in front of the call discards every impl-derived clause and Unique becomes No possible solution")
    key = "chalk_solve::clauses::program_clauses_that_could_match"
    b = need_body(ck, facts, R, key)
    if not b:
        return
    from kit import conditions_above
    th = facts.thir(key)
    FN = "push_program_clauses_for_associated_type_values_in_impls_of"
    n = 0
    for m in enum_matches(th, "chalk_ir::AliasTy"):
        arms = select_arms(m, V("Projection"))
        if not arms:
            continue
        body_ = m["arms"][arms[0][0]]["body"]
        for c in calls(body_, FN):
            n += 1
            above = conditions_above(body_, c)
            if above:
                ck.violation(R, "Normalize:impl-values-looked-up-for-every-self-type", b.where(c.get("ln")),
                             "the look-up of associated type values in impls depends on a test (%s) that is not could_match" %
                             str(above[-1].get("k")))
            else:
                ck.ok(R, "Normalize:impl-values-looked-up-for-every-self-type")
    ck.floor(R, "look-ups-in-the-Normalize-arm", n, 1)


def sole_filter(ck, facts):
    """C18.SOLE-FILTER: the clause / impl pre-selection sites discard a candidate only on the verdict of could_match (or because the
    candidate belongs to another trait)."""
    from kit import bool_atoms, bool_eval, _Return
    R = "C18.SOLE-FILTER"
    ck.rule(R, "K4 (who-may-reject): in Forest::build_table, solve_from_clauses, program_clauses_for_goal and Program::impls_for_trait the "
               "only element-dropping adaptors on the candidate clauses / impls are filter/retain with a predicate that is a conjunction of "
               "could_match(..) calls and trait-id equality tests and is true when all of them are true; any further test (on variable "
               "kinds, on the shape of the impl header ..) is a second pre-filter the unifier does not justify and changes answers "
               "whenever it is stricter than unification")
    DROPPERS = {"filter", "retain", "filter_map", "take_while", "skip_while", "take", "skip", "step_by", "find", "find_map", "position",
                "nth", "retain_mut", "dedup", "dedup_by", "dedup_by_key", "truncate", "drain"}
    users = ["chalk_engine::forest::Forest::build_table",
             "chalk_recursive::solve::SolveIterationHelpers::solve_from_clauses",
             "chalk_solve::clauses::program_clauses_for_goal",
             "<chalk_integration::program::Program as chalk_solve::RustIrDatabase>::impls_for_trait"]
    n = 0
    for key in users:
        b = need_body(ck, facts, R, key)
        if not b:
            continue
        th = facts.thir(key)
        closures = {}
        for st in walk(th):
            if st.get("k") == "let" and st.get("init") is not None and st["pat"].get("k") == "bind" and peel(st["init"]).get("k") == "closure":
                closures[st["pat"]["n"]] = peel(st["init"])
        seen = 0
        for c in calls(th):
            name = str(c.get("fn") or c.get("res") or "").split("::")[-1]
            if name not in DROPPERS:
                continue
            seen += 1
            inst = "%s:%s@%d" % (short(key), name, seen)
            # only adaptors over the candidate stream count (element type ProgramClause / ImplDatum / ImplId)
            stream_ty = str(c.get("ty", "")) + " " + " ".join(str(p.get("ty", "")) for p in (peel(c["args"][1]).get("params") or [])
                                                              if isinstance(p, dict)) if len(c.get("args", [])) > 1 else str(c.get("ty", ""))
            recv = peel(c["args"][0]) if c.get("args") else {}
            stream_ty += " " + str(recv.get("ty", "")) if isinstance(recv, dict) else ""
            on_candidates = any(t in stream_ty for t in ("ProgramClause", "ImplDatum", "ImplId"))
            if name not in ("filter", "retain"):
                if on_candidates:
                    ck.violation(R, "%s:%s" % (short(key), name), b.where(c.get("ln")), "candidates are dropped by `%s`, not by the could_match filter" % name)
                else:
                    seen -= 1
                continue
            pred = peel(c["args"][1]) if len(c.get("args", [])) > 1 else None
            if isinstance(pred, dict) and pred.get("k") == "var":
                pred = closures.get(pred["n"])
            if isinstance(pred, dict) and pred.get("k") == "closure" and pred.get("body") is not None \
                    and not on_candidates and not has_call(pred["body"], "could_match"):
                seen -= 1
                continue        # a filter over some other stream (parameters, binders ..)
            if not (isinstance(pred, dict) and pred.get("k") == "closure" and pred.get("body") is not None):
                ck.violation(R, inst + ":unclassified", b.where(c.get("ln")), "cannot resolve the predicate of this %s to a closure" % name)
                continue
            body = pred["body"]
            atoms = bool_atoms(body)
            bad = []
            for a in atoms:
                if a.get("k") == "call" and callee_matches(a, "could_match"):
                    continue
                is_eq = (a.get("k") == "bin" and a.get("op") in ("Eq", "Ne")) or (a.get("k") == "call" and callee_matches(a, ("PartialEq::eq", "PartialEq::ne")))
                if is_eq and any("trait_id" in str(v) for v in expr_vars(a) | {str(x.get("name")) for x in walk(a) if x.get("k") == "field"}):
                    continue
                bad.append(a)

            def passes(a):      # the value of a test when the candidate is of the right trait and could match
                return not ((a.get("k") == "bin" and a.get("op") == "Ne") or (a.get("k") == "call" and callee_matches(a, "PartialEq::ne")))
            try:
                r = bool_eval(body, {id(a): passes(a) for a in atoms})
            except _Return as e:
                r = e.v
            n += 1
            if bad:
                what = [str(a.get("fn") or a.get("res") or a.get("k")).split("::")[-1] for a in bad]
                ck.violation(R, "%s:%s:extra-test" % (short(key), name), b.where(bad[0].get("ln") or c.get("ln")),
                             "the predicate also tests %s: a candidate can be discarded although could_match accepts it" % what)
            elif r is not True or not any(a.get("k") == "call" and callee_matches(a, "could_match") for a in atoms):
                ck.violation(R, "%s:%s:not-a-conjunction" % (short(key), name), b.where(c.get("ln")),
                             "the predicate is not `could_match(..)` (and trait-id equality): evaluates to %s when every test succeeds" % r)
            else:
                ck.ok(R, inst, "conjunction of %d test(s), all could_match / trait-id equality" % len(atoms))
    ck.floor(R, "filter-sites", n, 4)


def alias_rows(ck, facts, R):
    """Shared with C07: normalization reaches an impl's value only if the clause pre-filter lets every (Alias, _) / (_, Alias) pair
    through - a projection is not rigid, the unifier turns it into an AliasEq goal."""
    ck.rule(R, "K1: MatchZipper::zip_tys answers constant `true` for every TyKind pair with an alias (projection / opaque) on either side; a "
               "pre-filter that compares two projections structurally discards the Normalize-From-Impl clause (or the impl) whose "
               "projection is spelled differently but denotes the same type")
    zt = need_body(ck, facts, R, ZIP_TYS)
    variants = facts.variants(TYKIND) or []
    if not zt or not variants:
        return
    zm = tuple_match(facts.thir(zt.key))
    if len(zm) != 1:
        ck.violation(R, "match-on-kind-pair", zt.where(), "expected one (TyKind, TyKind) match in zip_tys")
        return
    zm = zm[0]
    n = 0
    for ka in variants:
        for kb in variants:
            if "Alias" not in (ka, kb):
                continue
            n += 1
            arms = select_arms(zm, T(V(ka), V(kb)))
            inst = "zip_tys:(%s,%s)" % (ka, kb)
            bad = [i for i, r in arms if not is_lit_bool(zm["arms"][i]["body"], True)]
            if not arms or bad:
                ck.violation(R, inst, zt.where(zm["arms"][bad[0]]["ln"] if bad else zt.ln), "an alias can be equal to any type, yet the pre-filter "
                             "may answer something other than `true`")
            else:
                ck.ok(R, inst, "true")
    ck.floor(R, "alias-pairs", n, 45)
