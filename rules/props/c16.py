"""C16 - canonical forms identify queries up to renaming.

Decided (structural necessary conditions, DESIGN.md section 4 / C16):
  KIND-COMPLETE    every folder treats ty / lifetime / const alike within each callback family
  FIRST-OCCURRENCE Canonicalizer numbers unbound variables by union-find root in order of first occurrence
  UNIVERSES        u_canonicalize collects universes from binders and value before mapping; maps are
                   order preserving (binary_search index / indexing the same sorted vector)
  INVERT           invert refuses values with free existential variables before inverting
"""
from core import walk, calls, peel, trace_is_call, callee_matches, find_matches, select_arms, V
from kit import (need_body, const_bool, has_call, has_call_deep, guard_sites, dominated_by_calls, short,
                 mentions_field, calls_deep, thir_all, collector_never_breaks)

FOLDER_TRAITS = ("chalk_ir::fold::TypeFolder", "chalk_ir::fold::FallibleTypeFolder")
FAMILIES = {
    "free_var": ("forbid_free_vars", "fold_free_var_"),
    "free_placeholder": ("forbid_free_placeholders", "fold_free_placeholder_"),
    "inference": ("forbid_inference_vars", "fold_inference_"),
}
KINDS = ("ty", "lifetime", "const")
CRATES = ["chalk_ir", "chalk_solve", "chalk_engine", "chalk_recursive", "chalk_integration"]


def folder_impls(facts, crates=CRATES):
    """Hand-written folder impls: (crate, impl dict, {method name -> body key})."""
    out = []
    for c in crates:
        if not facts.has_crate(c):
            continue
        for im in facts.crate(c)["impls"]:
            if im.get("trait") not in FOLDER_TRAITS:
                continue
            if im.get("x") and "derive" in im["x"]:
                continue  # the derived FallibleTypeFolder only forwards to the TypeFolder impl
            methods = {}
            for it in im["items"]:
                n = it["n"]
                if n.startswith("try_"):
                    n = n[4:]
                methods[n] = it["key"]
            out.append((c, im, methods))
    return out


def kind_complete(ck, facts, rule="C16.KIND-COMPLETE", crates=CRATES):
    ck.rule(rule, "K5: in every TypeFolder/FallibleTypeFolder impl, each callback family {free var, placeholder, "
                  "inference var} overrides all of {ty, lifetime, const} or none (or forbids the family)")
    impls = folder_impls(facts, crates)
    n = 0
    for c, im, methods in impls:
        for fam, (forbid, prefix) in FAMILIES.items():
            over = [k for k in KINDS if (prefix + k) in methods]
            inst = "%s:%s" % (short(im["self_key"]), fam)
            n += 1
            if len(over) in (0, 3):
                ck.ok(rule, inst, "overrides %s" % (over or "none"))
                continue
            forbidden = False
            if forbid in methods:
                fb = facts.body(methods[forbid])
                forbidden = fb is not None and const_bool(fb) is True
            if forbidden:
                ck.ok(rule, inst, "partial override %s but %s() is constant true" % (over, forbid))
                continue
            missing = [k for k in KINDS if k not in over]
            for k in missing:
                ck.violation(rule, "%s:%s%s" % (short(im["self_key"]), prefix, k), "%s:%s" % (im["file"], im["ln"]),
                             "folder overrides %s for %s but not `%s%s`: a %s of this family passes through "
                             "unchanged while types/lifetimes are rewritten" % (
                                 [prefix + o for o in over], fam, prefix, k, k))
    return len(impls)


def canonical_vars_shifted(ck, facts, R):
    """Shared by C16 / C28: the canonical variable a Canonicalizer callback puts in place of an unbound inference variable is met
    under `outer_binder` binders of the value being canonicalized, so all three callbacks (ty / lifetime / const) shift it in by
    outer_binder - otherwise a variable inside `for<..> fn(..)` is captured by that inner binder and the solution's own binder is unused."""
    from kit import params_of_type
    ck.rule(R, "K5 (siblings): Canonicalizer::fold_inference_{ty,lifetime,const} build the canonical variable of an unbound inference "
               "variable as BoundVar::new(INNERMOST, position).shifted_in_from(outer_binder) - each of the three")
    n = 0
    for kind in ("ty", "lifetime", "const"):
        key = "<chalk_solve::infer::canonicalize::Canonicalizer as chalk_ir::fold::TypeFolder>::fold_inference_%s" % kind
        b = need_body(ck, facts, R, key)
        if not b:
            continue
        n += 1
        ob = params_of_type(b, "DebruijnIndex") or {"outer_binder"}
        th = facts.thir(key)
        from kit import let_bound
        news = [c for c in calls(th, "BoundVar::new")]
        bv_names = let_bound(th, lambda i: has_call(i, "BoundVar::new"))
        # the shift is applied to the freshly built BoundVar (not to something else in the function, e.g. an already bound value)
        shifts = [c for c in calls(th, "shifted_in_from") if c.get("args") and any(x.get("k") == "var" and x.get("n") in ob for x in walk(c["args"][-1]))
                  and (has_call(c["args"][0], "BoundVar::new") or any(x.get("k") == "var" and x.get("n") in bv_names for x in walk(c["args"][0])))]
        inst = "Canonicalizer::fold_inference_%s:canonical-variable-shifted-in" % kind
        if news and shifts:
            ck.ok(R, inst, "shifted_in_from(outer_binder)")
        else:
            ck.violation(R, inst, b.where(), "the canonical variable is built without shifting it in by outer_binder (BoundVar::new: %d, shifts: %d)" % (len(news), len(shifts)))
    ck.floor(R, "canonicalizer-callbacks", n, 3)


def run(ck, facts, tier):
    canonical_vars_shifted(ck, facts, "C16.CANONICAL-VARS-SHIFTED")
    # instantiate o canonicalize is the identity on forms only if instantiation keeps the kind of every binder (integer / float too)
    from props.c28 import kind_preserving
    kind_preserving(ck, facts, "C16.KIND-PRESERVING")
    nimpl = kind_complete(ck, facts)
    ck.floor("C16.KIND-COMPLETE", "folder-impls", nimpl, 11)

    # ---------------------------------------------------------------- FIRST-OCCURRENCE
    R = "C16.FIRST-OCCURRENCE"
    ck.rule(R, "K3/K1: Canonicalizer::add returns the existing position of a variable or appends at free_vars.len(); "
               "unbound inference variables are keyed by their union-find root; bound ones are folded, not numbered")
    add = need_body(ck, facts, R, "chalk_solve::infer::canonicalize::Canonicalizer::add")
    if add:
        pos = [c for c in calls(add.thir, "Iterator::position")]
        ok_pos = bool(pos) and mentions_field(pos[0]["args"][0], "free_vars")
        clos = facts.closures_of(add)

        # the not-found path: some block (the closure given to unwrap_or_else, or the `None` arm of a match on the position) reads
        # len(), then pushes, and yields the length read before the push
        def append_block(blk):
            blk = peel(blk)
            if not (isinstance(blk, dict) and blk.get("k") == "block"):
                return False
            stmts = blk.get("stmts") or []
            lets = [st for st in stmts if st.get("k") == "let" and st.get("init") is not None and any(True for _ in calls(st["init"], "Vec::len"))]
            pidx = [i for i, st in enumerate(stmts) if any(True for _ in calls(st, "Vec::push"))]
            tail = peel(blk.get("expr")) if blk.get("expr") else None
            return bool(lets and pidx and tail and tail.get("k") == "var" and tail["n"] == lets[0]["pat"].get("n") and stmts.index(lets[0]) < min(pidx))
        push_ok = False
        not_found_only = False
        for cl in clos:
            if cl.thir is not None and append_block(cl.thir):
                push_ok = True
                not_found_only = has_call(add.thir, "Option::unwrap_or_else") or has_call(add.thir, "Option::map_or_else")
        if not push_ok:
            from core import iflet_as_match
            for m_ in walk(add.thir):
                if m_.get("k") == "if":
                    m_ = iflet_as_match(m_) or m_
                if m_.get("k") == "match" and "Option<usize>" in str(m_.get("sty", "")):
                    arms = select_arms(m_, V("None"))
                    if arms and append_block(m_["arms"][arms[0][0]]["body"]):
                        push_ok = True
                        some = select_arms(m_, V("Some"))
                        not_found_only = bool(some) and not has_call(m_["arms"][some[0][0]]["body"], "Vec::push")
        if ok_pos and push_ok and not_found_only:
            ck.ok(R, "Canonicalizer::add:position-or-append", "position() over free_vars; only when absent: len() then push, yielding that len")
        else:
            ck.violation(R, "Canonicalizer::add:position-or-append", add.where(),
                         "add() must return the position of a variable already seen and otherwise append it and return its new index "
                         "(position=%s append-block=%s only-when-absent=%s)" % (ok_pos, push_ok, not_found_only))
    for kind in KINDS:
        key = "<chalk_solve::infer::canonicalize::Canonicalizer as chalk_ir::fold::TypeFolder>::fold_inference_%s" % kind
        b = need_body(ck, facts, R, key)
        if not b:
            continue
        ms = [m for m in find_matches(b.thir) if any(True for _ in calls(m["scrut"], "InferenceTable::probe_var"))]
        if len(ms) != 1:
            ck.violation(R, "fold_inference_%s:probe-match" % kind, b.where(), "expected one match on probe_var(var)")
            continue
        m = ms[0]
        for vname in ("None", "Some"):
            arms = select_arms(m, V(vname))
            if len(arms) != 1:
                ck.violation(R, "fold_inference_%s:%s-arm" % (kind, vname), b.where(), "arm not unique")
                continue
            body_ = m["arms"][arms[0][0]]["body"]
            has_add = has_call(body_, "Canonicalizer::add")
            has_find = has_call(body_, "UnificationTable::find") or has_call(body_, "find")
            has_fold = has_call(body_, "TypeFoldable::fold_with") or has_call(body_, "fold_with")
            if vname == "None":
                if has_add and has_find and has_call(body_, "BoundVar::new"):
                    ck.ok(R, "fold_inference_%s:unbound->add(find(var))" % kind)
                else:
                    ck.violation(R, "fold_inference_%s:unbound->add(find(var))" % kind, b.where(m["arms"][arms[0][0]]["ln"]),
                                 "unbound variable must be numbered by add(ParameterEnaVariable::new(kind, unify.find(var))) "
                                 "(add=%s find=%s)" % (has_add, has_find))
            else:
                if has_fold and not has_add:
                    ck.ok(R, "fold_inference_%s:bound->fold" % kind)
                else:
                    ck.violation(R, "fold_inference_%s:bound->fold" % kind, b.where(m["arms"][arms[0][0]]["ln"]),
                                 "a bound variable must be replaced by its folded value and never numbered "
                                 "(fold=%s add=%s)" % (has_fold, has_add))
    # the method of Canonicalizer that turns `free_vars` into the canonical binders - found by what it does, not by its name
    ib_keys = [k for k, b_ in facts.bodies("chalk_solve").items() if k.startswith("chalk_solve::infer::canonicalize::Canonicalizer::")
               and "{" not in k and b_.thir is not None and has_call(b_.thir, "CanonicalVarKinds::from_iter")]
    ib = facts.body(ib_keys[0]) if len(ib_keys) == 1 else need_body(ck, facts, R, "chalk_solve::infer::canonicalize::Canonicalizer::into_binders")
    ib_name = ib.key.split("::")[-1] if ib else "into_binders"
    if ib:
        if has_call_deep(facts, ib, "InferenceTable::universe_of_unbound_var") and (has_call(ib.thir, "into_iter") or has_call(ib.thir, "iter")) \
                and has_call(ib.thir, "CanonicalVarKinds::from_iter"):
            ck.ok(R, "Canonicalizer::into_binders:free_vars-in-order", "binders = free_vars.into_iter().map(universe_of_unbound_var)")
        else:
            ck.violation(R, "Canonicalizer::into_binders:free_vars-in-order", ib.where(),
                         "binders must be built from free_vars in order with each variable's universe")
    cz = need_body(ck, facts, R, "chalk_solve::infer::InferenceTable::canonicalize")
    if cz:
        # binders and free_vars come from the same Canonicalizer after the fold
        dominated_by_calls(ck, R, cz, "Canonicalizer::" + ib_name, "try_fold_with", "into_binders", "try_fold_with(value)")

    # ---------------------------------------------------------------- UNIVERSES
    R = "C16.UNIVERSES"
    ck.rule(R, "K2/K3: u_canonicalize adds the universes of the binders and of the value (kind-agnostic collector) "
               "before any mapping; to/from maps index the same sorted vector")
    uc = need_body(ck, facts, R, "chalk_solve::infer::InferenceTable::u_canonicalize")
    if uc:
        n1 = dominated_by_calls(ck, R, uc, "try_fold_with", "visit_with", "try_fold_with(UMapToCanonical)", "visit_with(UCollector)")
        n2 = dominated_by_calls(ck, R, uc, "try_fold_with", ("Iterator::next", "Iterator::for_each"), "try_fold_with(UMapToCanonical)", "the iteration over value0.binders")
        ck.floor(R, "u_canonicalize.fold-sites", min(n1, n2), 1)
        # the binder loop iterates value0.binders
        uth = facts.thir("chalk_solve::infer::InferenceTable::u_canonicalize")       # closures spliced in
        adds = [c for c in calls(uth, "UniverseMapExt::add")]
        if adds and any(mentions_field(m, "binders") for m in walk(uth) if m.get("k") in ("match", "loop", "call")):
            ck.ok(R, "u_canonicalize:binders-collected")
        else:
            ck.violation(R, "u_canonicalize:binders-collected", uc.where(), "binder universes are not added to the universe map")
        # the mapped binders use map_universe_to_canonical
        if has_call_deep(facts, uc, "UniverseMapExt::map_universe_to_canonical"):
            ck.ok(R, "u_canonicalize:binders-mapped")
        else:
            ck.violation(R, "u_canonicalize:binders-mapped", uc.where(), "binder universes are not mapped with map_universe_to_canonical")
    # collector: kind agnostic and adds universe.ui
    vis = [im for im in facts.impls("chalk_solve", trait="chalk_ir::visit::TypeVisitor",
                                    self_key="chalk_solve::infer::ucanonicalize::UCollector")]
    if ck.require(R, "UCollector impl", vis):
        names = {it["n"]: it["key"] for it in vis[0]["items"]}
        skipping = [n for n in names if n in ("visit_ty", "visit_lifetime", "visit_const", "visit_goal",
                                              "visit_program_clause", "visit_where_clause", "visit_domain_goal")]
        vb = facts.body(names.get("visit_free_placeholder", ""))
        if vb is not None and has_call(vb.thir, "UniverseMapExt::add") and mentions_field(vb.thir, "ui") and not skipping:
            ck.ok(R, "UCollector:visit_free_placeholder->add(ui)")
        else:
            ck.violation(R, "UCollector:visit_free_placeholder->add(ui)", "chalk-solve/src/infer/ucanonicalize.rs",
                         "collector must add every placeholder's universe and must not cut the default traversal (overrides: %s)" % skipping)
    base = "<chalk_ir::UniverseMap as chalk_solve::infer::ucanonicalize::UniverseMapExt>::"
    to = need_body(ck, facts, R, base + "map_universe_to_canonical")
    if to:
        closure_counter = any(n.get("k") == "adt" and n["adt"] == "chalk_ir::UniverseIndex" and
                              any(f[0] == "counter" and peel(f[1]).get("k") == "var" for f in n["fields"])
                              for t in [to.thir] + [c.thir for c in facts.closures_of(to)] for n in walk(t))
        if has_call(to.thir, "binary_search") and closure_counter:
            ck.ok(R, "map_universe_to_canonical:index-in-sorted-vector")
        else:
            ck.violation(R, "map_universe_to_canonical:index-in-sorted-vector", to.where(),
                         "canonical universe must be the binary_search index of the universe in the sorted vector")
    fr = need_body(ck, facts, R, base + "map_universe_from_canonical")
    if fr:
        idx = [n for n in walk(fr.thir) if n.get("k") in ("index",) or (n.get("k") == "call" and callee_matches(n, "Index::index"))]
        idx_ok = any(mentions_field(n, "universes") and mentions_field(n, "counter") for n in idx)
        if idx_ok:
            ck.ok(R, "map_universe_from_canonical:indexes-same-vector")
        else:
            ck.violation(R, "map_universe_from_canonical:indexes-same-vector", fr.where(),
                         "in-range universes must map back by indexing self.universes with the canonical counter")
    ad = need_body(ck, facts, R, base + "add")
    if ad:
        ins = [c for c in calls(ad.thir, "Vec::insert")]
        if has_call(ad.thir, "binary_search") and ins and not has_call(ad.thir, "Vec::push"):
            ck.ok(R, "UniverseMap::add:sorted-insert")
        else:
            ck.violation(R, "UniverseMap::add:sorted-insert", ad.where(), "universes must be inserted at the binary_search position (sorted, no duplicates)")
    mf = need_body(ck, facts, R, base + "map_from_canonical")
    if mf:
        if has_call_deep(facts, mf, "UniverseMapExt::map_universe_from_canonical") and has_call(mf.thir, "try_fold_with"):
            ck.ok(R, "map_from_canonical:binders-and-value")
        else:
            ck.violation(R, "map_from_canonical:binders-and-value", mf.where(), "both binders and value must be mapped back")

    R = "C16.UNIVERSE-MAP-FAITHFUL"
    ck.rule(R, "K1: undoing universe compression maps every universe of a result - those of its binders and those of its placeholders - "
               "through the one function map_universe_from_canonical and nothing else: no min / max / clamp / saturating arithmetic on the "
               "mapped universe in UniverseMapExt::map_from_canonical (binders and placeholders of one fresh universe must stay together)")
    mfk = "<chalk_ir::UniverseMap as chalk_solve::infer::ucanonicalize::UniverseMapExt>::map_from_canonical"
    mfb = need_body(ck, facts, R, mfk)
    if mfb:
        th = facts.thir(mfk)
        adj = [str(c.get("fn", "")).split("::")[-1] for c in calls(th) if str(c.get("fn", "")).split("::")[-1] in
               ("min", "max", "clamp", "saturating_sub", "saturating_add", "checked_sub", "min_by", "max_by")]
        maps = [c for c in calls(th, "map_universe_from_canonical")]
        if maps and not adj:
            ck.ok(R, "map_from_canonical:binder-universes-mapped-unadjusted", "%d mapping call(s)" % len(maps))
        else:
            ck.violation(R, "map_from_canonical:binder-universes-mapped-unadjusted", mfb.where(), "binder universes are adjusted after the mapping (%s) "
                         "or not mapped at all: variables and placeholders of the same fresh universe are torn apart" % adj)

    # ---------------------------------------------------------------- INVERT
    R = "C16.INVERT"
    ck.rule(R, "K3: InferenceTable::invert reaches the Inverter fold only when canonicalize found no free existential variable")
    inv = need_body(ck, facts, R, "chalk_solve::infer::InferenceTable::invert")
    if inv:
        cfg = inv.cfg
        edges = cfg.bool_edges(trace_is_call("Vec::is_empty"), want=True)
        sites = cfg.call_blocks("Inverter::new") + cfg.call_blocks("try_fold_with")
        n = guard_sites(ck, R, inv, sites, edges, "Inverter fold", "free_vars.is_empty()")
        ck.floor(R, "invert.fold-sites", n, 1)
        dominated_by_calls(ck, R, inv, "Inverter::new", "InferenceTable::canonicalize", "Inverter::new", "canonicalize(value)")

    R = "C16.INVERT-CONSISTENT"
    ck.rule(R, "K3/K2: inversion is a consistent renaming: in each Inverter::fold_free_placeholder_{ty,lifetime,const} the fresh variable "
               "that replaces a placeholder is created only inside the memo-map update keyed by that placeholder (entry(p).or_insert_with / "
               "insert(p, ..)), so two occurrences of one placeholder become one variable; a variable created outside the update makes "
               "`P(!x, !x)` invert to the canonical form of `P(!x, !y)`")
    n = 0
    for kind in ("ty", "lifetime", "const"):
        key = "<chalk_solve::infer::invert::Inverter as chalk_ir::fold::TypeFolder>::fold_free_placeholder_" + kind
        b = need_body(ck, facts, R, key)
        if not b:
            continue
        th = facts.thir(key)
        fresh = [c for c in calls(th, "new_variable")]
        memo = [c for c in calls(th) if str(c.get("fn", "")).split("::")[-1] in ("or_insert_with", "or_insert", "insert", "or_insert_with_key")]
        inside = set()
        for m_ in memo:
            for x in walk(m_):
                inside.add(id(x))
        from kit import params_of_type
        from core import expr_vars as _ev
        pp = params_of_type(b, "PlaceholderIndex")
        keyed = bool(pp) and any(_ev(m_) & pp for m_ in memo)
        n += len(fresh)
        inst = "Inverter::fold_free_placeholder_%s" % kind
        if fresh and memo and all(id(c) in inside for c in fresh) and keyed:
            ck.ok(R, inst, "fresh variable created only inside the memo update")
        else:
            ck.violation(R, inst, b.where(), "the variable standing for a placeholder is not (only) created inside the memo-map update: "
                         "%d creation(s), %d memo update(s)" % (len(fresh), len(memo)))
    ck.floor(R, "Inverter.fresh-variable-sites", n, 3)

    R = "C16.UCOLLECT-ALL"
    ck.rule(R, "K1: UCollector (gathers every universe mentioned by the value before compression) never aborts its traversal (no visit method returns ControlFlow::Break)")
    collector_never_breaks(ck, R, facts, "chalk_solve", "<chalk_solve::infer::ucanonicalize::UCollector as chalk_ir::visit::TypeVisitor>::", "UCollector", 1)
