"""C22 - printing a program and reparsing it gives back an equivalent program.

Decided: the writer (chalk-solve/src/display) and the parser (chalk-parse/src/parser.lalrpop) agree on their tables:
  LANG-TABLE     WellKnownTrait <-> #[lang(name)] are inverse bijections
  ATTR-COVERAGE  every attribute the grammar accepts on an item kind is emitted by that item's writer
  FIELD-COVERAGE every field of a rendered datum is read by its writer
  KEYWORDS       every word the item writers emit is a terminal of the grammar
Not decided: round-trip equality of programs."""
import os
import re
import grammar
from core import enum_matches, select_arms, V, walk, calls, expr_vars
from kit import need_body, string_literals, thir_all, short

RENDER = "<chalk_solve::rust_ir::%s as chalk_solve::display::render_trait::RenderAsRust>::fmt"

# grammar item nonterminal -> datum whose writer prints that item
ITEM_WRITER = {
    "AdtDefn": "AdtDatum",
    "TraitDefn": "TraitDatum",
    "AssocTyDefn": "AssociatedTyDatum",
    "FnDefn": "FnDefDatum",
    "Impl": "ImplDatum",
    "OpaqueTyDefn": "OpaqueTyDatum",
    "AssocTyValue": "AssociatedTyValue",
}

# fields of rendered datums that carry no printable syntax (one named field + reason)
FIELD_EXCEPTIONS = {
    "AssociatedTyDatum.name": "the interner's name for the associated type; the writer prints the disambiguated alias of `id` instead",
    "AssociatedTyDatum.trait_id": "implied by the enclosing trait item the associated type is printed in",
    "AssociatedTyValue.impl_id": "implied by the enclosing impl block",
    "ImplDatum.polarity": None,  # (placeholder: must be read; kept here to document that it IS checked)
}


def writer_texts(facts, body):
    out = []
    for t in thir_all(facts, body):
        out += string_literals(t)
    return out


def run(ck, facts, tier):
    repo = ck.extract_info.get("repo", "/repo")
    gpath = os.path.join(repo, "chalk-parse/src/parser.lalrpop")
    rules = grammar.parse(gpath)
    ck.count("grammar.nonterminals", len(rules))
    ck.floor("C22.GRAMMAR", "nonterminals", len(rules), 60)
    terminals = grammar.all_terminals(rules)
    # words the grammar accepts through an `Id` whose action matches on string literals (e.g. repr(C), repr(packed))
    for alts in rules.values():
        for alt in alts:
            if alt.action and grammar.attribute_of(alt):
                terminals |= set(re.findall(r'"(\w+)"', alt.action))

    # ------------------------------------------------------------------ LANG-TABLE
    R = "C22.LANG-TABLE"
    ck.rule(R, "K5: the writer's `WellKnownTrait -> name` match and the grammar's `#[lang(name)] => WellKnownTrait::V` "
               "productions are inverse bijections over all variants")
    variants = facts.variants("chalk_solve::rust_ir::WellKnownTrait") or []
    ck.floor(R, "WellKnownTrait-variants", len(variants), 20)
    g_map = {}
    for alt in rules.get("WellKnownTrait", []):
        at = grammar.attribute_of(alt)
        m = re.search(r"WellKnownTrait\s*::\s*(\w+)", alt.action or "")
        if at and at[0] == "lang" and m:
            g_map[m.group(1)] = at[1][0]
    tb = need_body(ck, facts, R, RENDER % "TraitDatum")
    w_map = {}
    if tb:
        ms = enum_matches(facts.thir(tb.key), "chalk_solve::rust_ir::WellKnownTrait")
        if len(ms) != 1:
            ck.violation(R, "writer-match", tb.where(), "expected one match on WellKnownTrait in TraitDatum's writer")
        else:
            for v in variants:
                arms = select_arms(ms[0], V(v))
                if len(arms) == 1 and arms[0][1] == "yes":
                    lits = string_literals(ms[0]["arms"][arms[0][0]]["body"])
                    if len(lits) == 1:
                        w_map[v] = lits[0]
    for v in variants:
        inst = "WellKnownTrait::%s" % v
        if v not in g_map:
            ck.violation(R, inst + ":no-grammar-production", gpath, "no `#[lang(..)]` production yields this variant")
        elif v not in w_map:
            ck.violation(R, inst + ":no-writer-arm", tb.where() if tb else "", "the writer has no literal name for this variant")
        elif g_map[v] != w_map[v]:
            ck.violation(R, inst, tb.where(), "writer prints `#[lang(%s)]` but the grammar only accepts `#[lang(%s)]` for this variant: "
                                              "the rendered program does not reparse" % (w_map[v], g_map[v]))
        else:
            ck.ok(R, inst, "lang(%s)" % g_map[v])
    if len(set(g_map.values())) != len(g_map):
        ck.violation(R, "grammar-names-not-injective", gpath, "two variants share one #[lang] name")

    # ------------------------------------------------------------------ ATTR-COVERAGE
    R = "C22.ATTR-COVERAGE"
    ck.rule(R, "K5: for every attribute production the grammar accepts on an item kind, that item's RenderAsRust writer "
               "emits a literal `#[<name>`")
    attr_nts = {}
    for nt, alts in rules.items():
        names = set()
        for alt in alts:
            at = grammar.attribute_of(alt)
            if at:
                names.add(at[0])
        if names and all(grammar.attribute_of(a) for a in alts):
            attr_nts[nt] = names
    ck.count("grammar.attribute_nonterminals", sorted(attr_nts))
    n_inst = 0
    for item, datum in ITEM_WRITER.items():
        alts = rules.get(item)
        if not alts:
            ck.violation(R, "missing-anchor:grammar:%s" % item, gpath, "item production not found")
            continue
        wb = need_body(ck, facts, R, RENDER % datum)
        if not wb:
            continue
        texts = writer_texts(facts, wb)
        accepted = set()
        for alt in alts:
            for nt in alt.nonterminals:
                if nt in attr_nts:
                    accepted |= {(nt, a) for a in attr_nts[nt]}
        for nt, a in sorted(accepted):
            n_inst += 1
            inst = "%s:#[%s]" % (item, a)
            if any(("#[%s" % a) in t for t in texts):
                ck.ok(R, inst, "emitted by %s" % datum)
            else:
                ck.violation(R, inst, wb.where(),
                             "the grammar accepts `#[%s..]` (%s) on %s but the %s writer never emits it: a program using it "
                             "round-trips to a different program" % (a, nt, item, datum))
    ck.floor(R, "item-attribute-pairs", n_inst, 17)

    # ------------------------------------------------------------------ ATTR-ORDER
    R = "C22.ATTR-ORDER"
    ck.rule(R, "K5: the grammar accepts an item's attributes only in the fixed order of its production; the item's writer emits the "
               "attributes it knows in that same relative order (first emission of `#[a` precedes first emission of `#[b` whenever "
               "a's nonterminal precedes b's in the production) - otherwise an item carrying both prints as text the parser rejects")
    n_pairs = 0
    for item, datum in ITEM_WRITER.items():
        alts = rules.get(item)
        wb = facts.body(RENDER % datum)
        if not alts or wb is None:
            continue
        texts = writer_texts(facts, wb)

        def first_pos(a):
            for i, t in enumerate(texts):
                j = t.find("#[%s" % a)
                if j >= 0:
                    return (i, j)
            return None
        for alt in alts:
            seq = []
            for nt in alt.nonterminals:
                if nt in attr_nts:
                    for a in sorted(attr_nts[nt]):
                        pos = first_pos(a)
                        if pos is not None:
                            seq.append((nt, a, pos))
            for (nt1, a1, p1), (nt2, a2, p2) in zip(seq, seq[1:]):
                if nt1 == nt2:
                    continue
                n_pairs += 1
                inst = "%s:#[%s]<#[%s]" % (item, a1, a2)
                if p1 < p2:
                    ck.ok(R, inst)
                else:
                    ck.violation(R, inst, wb.where(), "the grammar requires `#[%s..]` before `#[%s..]` on %s but the writer emits them the other way "
                                 "round: an item with both attributes does not reparse" % (a1, a2, item))
            break
    ck.floor(R, "ordered-attribute-pairs", n_pairs, 10)

    # ------------------------------------------------------------------ FIELD-COVERAGE
    R = "C22.FIELD-COVERAGE"
    ck.rule(R, "K2: every field of a rendered datum (and of its flag structs, checked by the write_flags! destructuring) is "
               "read by the datum's writer")
    n_f = 0
    for datum in sorted(set(ITEM_WRITER.values())):
        adt = facts.adt("chalk_solve::rust_ir::%s" % datum)
        wb = facts.body(RENDER % datum)
        if adt is None or wb is None:
            ck.violation(R, "missing-anchor:%s" % datum, "", "datum or writer not found")
            continue
        read = set()
        for t in thir_all(facts, wb):
            for n in walk(t):
                if n.get("k") == "field" and n.get("adt", "").endswith("::" + datum):
                    read.add(n["n"])
        for fld in adt["variants"][0]["fields"]:
            n_f += 1
            key = "%s.%s" % (datum, fld["n"])
            if fld["n"] in read:
                ck.ok(R, key, "read by writer")
            elif FIELD_EXCEPTIONS.get(key):
                ck.ok(R, key, "exception: " + FIELD_EXCEPTIONS[key])
            else:
                ck.violation(R, key, wb.where(), "field `%s` (%s) is never read by the %s writer" % (fld["n"], fld["ty"], datum))
    ck.floor(R, "datum-fields", n_f, 25)

    # ------------------------------------------------------------------ KEYWORDS
    R = "C22.KEYWORDS"
    ck.rule(R, "K5: every alphabetic word an item writer emits in literal position is a terminal of the grammar "
               "(identifier prefixes the writer invents are listed)")
    IDENT_PREFIXES = {"field_", "variant_", "arg_"}
    NOT_FROM_PARSER = {"union": "AdtKind::Union cannot be produced by the parser (no `union` item); C22 quantifies over parsed programs"}
    n_w = 0
    for datum in sorted(set(ITEM_WRITER.values())):
        wb = facts.body(RENDER % datum)
        if wb is None:
            continue
        ms_lang = enum_matches(facts.thir(wb.key), "chalk_solve::rust_ir::WellKnownTrait")
        lang_names = set()
        for m in ms_lang:
            lang_names |= set(string_literals(m))
        for t in writer_texts(facts, wb):
            if t in lang_names:
                continue
            for w in re.findall(r"[A-Za-z_][A-Za-z_0-9]*", t.replace("{}", " ")):
                if w in IDENT_PREFIXES:
                    continue
                n_w += 1
                inst = "%s:`%s`" % (datum, w)
                if w in terminals:
                    ck.ok(R, inst, "grammar terminal")
                elif w in NOT_FROM_PARSER:
                    ck.ok(R, inst, "exception: " + NOT_FROM_PARSER[w])
                else:
                    ck.violation(R, inst, wb.where(), "the writer emits the word `%s` which is not a terminal of the grammar" % w)
    ck.floor(R, "emitted-words", n_w, 30)

    R = "C22.NO-FILTER"
    ck.rule(R, "K6-style inventory: inside the writer (chalk_solve::display::*) every iterator adaptor that can drop or pick elements "
               "(filter, filter_map, skip, take, skip_while, take_while, step_by, find, nth, last, dedup, unique) is in the audited table "
               "with its reason; a new one means some bound / clause / field / parameter of a datum may not be printed")
    ADAPT = {"filter", "filter_map", "skip", "take", "skip_while", "take_while", "step_by", "find", "find_map", "nth", "last", "dedup", "unique", "position"}
    AUDIT = {
        ("<chalk_ir::TyKind as render_trait::RenderAsRust>::fmt", "filter_map"): (2, "AssociatedType: picks the *type* parameters to find Self (assert count>=1; first one printed as `<X as ..>`); the full substitution is printed separately"),
        ("<chalk_solve::rust_ir::TraitDatum as render_trait::RenderAsRust>::fmt", "skip"): (1, "skip(1): the trait's own Self parameter is implicit in `trait Name<..>`"),
        ("state::InternalWriterState::indent", "take"): (1, "builds the indentation string"),
    }
    seen = {}
    for key, b in sorted(facts.bodies("chalk_solve").items()):
        if "chalk_solve::display" not in key or b.thir is None or "{" in key:
            continue
        for t in thir_all(facts, b):
            for c in calls(t):
                fn = str(c.get("fn", ""))
                ad = fn.split("::")[-1]
                if ad in ADAPT and ("Iterator" in fn or "Itertools" in fn or "iter::" in fn):
                    k2 = (key.replace("chalk_solve::display::", ""), ad)
                    seen.setdefault(k2, []).append((b, c.get("ln")))
    for k2, sites in sorted(seen.items()):
        inst = "%s:%s" % (k2[0], k2[1])
        if k2 in AUDIT and len(sites) <= AUDIT[k2][0]:
            ck.ok(R, inst, AUDIT[k2][1][:120])
        else:
            b, ln = sites[-1]
            ck.violation(R, inst, b.where(ln), "%d use(s) of `.%s(..)` in a writer function (audited: %d): the writer must print every element "
                         "of the datum; an adaptor that drops elements needs an audit entry with its reason"
                         % (len(sites), k2[1], AUDIT.get(k2, (0, ""))[0]))
    ck.floor(R, "audited-adaptor-sites", sum(len(v) for v in seen.values()), 3)

    R = "C22.WRITER-RUNS-TO-END"
    ck.rule(R, "K6-style inventory (expected count 0; positive control: the detector must see the explicit return of "
               "display::state::IdAliasStore or any other function of the crate): the item writers - RenderAsRust::fmt of ImplDatum, "
               "TraitDatum, AdtDatum, FnDefDatum, OpaqueTyDatum, AssociatedTyDatum, AssociatedTyValue - contain no explicit `return` "
               "(only `?` on formatter errors): a writer that returns early for some polarity / flag / kind skips whatever is rendered "
               "after that point (where clauses, the body) and prints a different, still parsable program")
    from kit import user_block
    def explicit_returns(th_):
        return [x for x in walk(user_block(th_)) if x.get("k") == "return" and "QuestionMark" not in str(x.get("x", "")) and "`?`" not in str(x.get("x", ""))]
    n_w = 0
    for item in ("ImplDatum", "TraitDatum", "AdtDatum", "FnDefDatum", "OpaqueTyDatum", "AssociatedTyDatum", "AssociatedTyValue"):
        wb = facts.body(RENDER % item)
        if wb is None or wb.thir is None:
            continue
        n_w += 1
        ers = explicit_returns(facts.thir(RENDER % item))
        if ers:
            ck.violation(R, "%s:explicit-return" % item, wb.where(ers[0].get("ln")), "the writer of %s returns before its end on some path" % item)
        else:
            ck.ok(R, "%s:no-explicit-return" % item)
    ck.floor(R, "item-writers", n_w, 6)
    ctrl = sum(len(explicit_returns(b_.thir)) for k_, b_ in facts.bodies("chalk_solve").items() if b_.thir is not None and "{" not in k_ and "chalk_solve::clauses" in k_)
    if ctrl == 0:
        ck.violation(R, "positive-control", "", "the explicit-return detector sees no `return` anywhere in chalk_solve::clauses: it has gone blind")

    R = "C22.ATTRS-INDEPENDENT"
    ck.rule(R, "K7 (control dependence): the attributes of an item are independent of each other in the grammar (`#[repr(C)]`, "
               "`#[repr(packed)]`, `#[repr(u8)]`, the flag attributes), so in an item writer the test that decides whether one attribute "
               "field of a *Repr / *Flags struct is printed is never nested inside the then- or else-branch of a test on ANOTHER field "
               "of the same struct (`if repr.packed {..} else if let Some(t) = &repr.int {..}` drops the integer repr of a packed "
               "enum; the text still parses, to a different program)")

    def attr_fields(n_):
        return {(x.get("adt"), x.get("n")) for x in walk(n_) if x.get("k") == "field" and
                str(x.get("adt", "")).split("::")[-1].endswith(("Repr", "Flags"))}

    def tests_in(n_):
        for x in walk(n_):
            if x.get("k") == "if":
                yield x, x.get("cond"), [x.get("then"), x.get("else")]
            elif x.get("k") == "match" and str(x.get("src", "")).startswith("Normal"):
                yield x, x.get("scrut"), [a_.get("body") for a_ in x.get("arms", [])]
    n_tests = 0
    for item in ("ImplDatum", "TraitDatum", "AdtDatum", "FnDefDatum", "OpaqueTyDatum", "AssociatedTyDatum", "AssociatedTyValue"):
        wb = facts.body(RENDER % item)
        if wb is None or wb.thir is None:
            continue
        bad = None
        for node, cond, branches in tests_in(facts.thir(RENDER % item)):
            outer = attr_fields(cond)
            if not outer:
                continue
            n_tests += 1
            for br in branches:
                if br is None:
                    continue
                for node2, cond2, _b in tests_in(br):
                    inner = attr_fields(cond2)
                    dep = {(a2, f2) for a2, f2 in inner for a1, f1 in outer if a1 == a2 and f1 != f2}
                    if dep and not (inner & outer):
                        bad = (node2, sorted(outer)[0], sorted(dep)[0])
        if bad:
            ck.violation(R, "%s:%s-under-%s" % (item, bad[2][1], bad[1][1]), wb.where(bad[0].get("ln")),
                         "whether `%s` is written depends on `%s`: for some combination of attributes one of them is dropped" % (bad[2][1], bad[1][1]))
        else:
            ck.ok(R, "%s:attribute-tests-independent" % item)
    ck.floor(R, "attribute-tests", n_tests, 3)

    R = "C22.NAME-INJECTIVE"
    ck.rule(R, "K1/K3: the writer gives different ids different names: IdAliasStore::alias_for_id_name looks the alias up by *id*, draws a "
               "new alias from a counter kept per *name* and advances that counter, and prints `name` for alias 0 and `name_<alias>` "
               "otherwise (so two items called alike are told apart, and the same item always gets the same name)")
    ak = "chalk_solve::display::state::IdAliasStore::alias_for_id_name"
    ab = need_body(ck, facts, R, ak)
    if ab:
        th = facts.thir(ak)
        by_id = [c for c in calls(th, "IndexMap::entry") if "id" in expr_vars(c["args"][1] if len(c["args"]) > 1 else c)]
        per_name = [c for c in calls(th, "BTreeMap::entry") if "name" in expr_vars(c)]
        bump = [n for n in walk(th) if n.get("k") == "assignop" and n.get("op") in ("AddAssign", "Add")]
        cond = [n for n in walk(th) if n.get("k") == "if" and any(x.get("k") == "bin" and x.get("op") in ("Eq", "Ne") and "alias" in expr_vars(x)
                                                                 for x in walk(n["cond"]))]
        fmt_ok = any("_" in lit and lit.count("{}") == 2 for lit in string_literals(th))
        checks = {"alias-keyed-by-id": bool(by_id), "counter-per-name": bool(per_name), "counter-advanced": bool(bump),
                  "suffix-iff-alias-nonzero": bool(cond) and fmt_ok}
        for name, okv in checks.items():
            if okv:
                ck.ok(R, "alias_for_id_name:%s" % name)
            else:
                ck.violation(R, "alias_for_id_name:%s" % name, ab.where(), "name disambiguation lost this ingredient: two different items could be "
                             "printed under one name (or one item under two)")
