"""C27 - in-place folding is memory-safe at every failure point.

Typestate / ordering rules on the MIR and THIR of chalk-ir/src/fold/in_place.rs.  Decides the ordering and ownership skeleton for
all lengths and failure positions; trusts the contracts of ptr::read/write, Box/Vec::from_raw(_parts), ManuallyDrop and mem::forget.
  LAYOUT-GUARD  every unsafe step is reachable only when T and U have identical layout and T is not a ZST (else the safe path)
  VEC-ORDER     in the loop: ptr::read(place_i) -> map_in_progress = i -> map(val) -> (on success only) ptr::write(place_i as *mut U);
                finish() only after the loop
  VEC-DROP      the guard's Drop drops [0, map_in_progress) as U, (map_in_progress, len) as T, then frees with length 0 and the
                original capacity; new() forgets the source vector; finish() disarms the guard with ManuallyDrop
  BOX-ORDER     the box becomes Box<MaybeUninit<U>> before `map` runs and is written only after `map` succeeded
  WHO-CALLS     the two functions are private to chalk_ir::fold and called only from the Vec<T> / Box<T> TypeFoldable impls
"""
from core import walk, calls, peel, callee_matches, var_name, expr_vars, trace_is_call, CallGraph
from kit import need_body, has_call, short, guard_sites, result_expr, mentions_field, user_block

IP = "chalk_ir::fold::in_place::"
VM = IP + "VecMappedInPlace"


def is_map_call(t):
    return t.get("k") == "call" and (t.get("fn") or "").endswith(("FnMut::call_mut", "FnOnce::call_once")) and "impl" in (t.get("recv") or "")


def run(ck, facts, tier):
    R = "C27.LAYOUT-GUARD"
    ck.rule(R, "K3: in fallible_map_box / fallible_map_vec every raw-pointer step (ptr::read, ptr::write, Box::into_raw, Box::from_raw, "
               "VecMappedInPlace::new) is reachable only through is_layout_identical::<T,U>() == true and is_zst::<T>() == false; "
               "is_layout_identical compares size and alignment, is_zst compares size with 0")
    UNSAFE = ("ptr::read", "ptr::write", "Box::into_raw", "Box::from_raw", VM + "::new", "ptr::mut_ptr::add", "add")
    for fn in ("fallible_map_box", "fallible_map_vec"):
        b = need_body(ck, facts, R, IP + fn)
        if not b:
            continue
        cfg = b.cfg
        sites = [i for i in cfg.call_blocks(UNSAFE) if not cfg.blocks[i].get("c")]
        n1 = guard_sites(ck, R, b, sites, cfg.bool_edges(trace_is_call(IP + "is_layout_identical"), True), fn + ":unsafe-step", "is_layout_identical::<T,U>()")
        n2 = guard_sites(ck, R, b, sites, cfg.bool_edges(trace_is_call(IP + "is_zst"), False), fn + ":unsafe-step", "!is_zst::<T>()")
        ck.floor(R, fn + ".unsafe-steps", min(n1, n2), 3)
    li = need_body(ck, facts, R, IP + "is_layout_identical")
    if li:
        e = peel(result_expr(li.thir))
        ok = e.get("k") == "logic" and e["op"] == "And" and len([c for c in calls(e, "size_of")]) == 2 and len([c for c in calls(e, "align_of")]) == 2 \
            and all(peel(x).get("k") == "bin" and peel(x)["op"] == "Eq" for x in (e["l"], e["r"]))
        if ok:
            ck.ok(R, "is_layout_identical", "size_of == size_of && align_of == align_of")
        else:
            ck.violation(R, "is_layout_identical", li.where(), "layout identity must compare both size and alignment")
    zs = need_body(ck, facts, R, IP + "is_zst")
    if zs:
        e = peel(result_expr(zs.thir))
        if e.get("k") == "bin" and e["op"] == "Eq" and has_call(e, "size_of") and any(x.get("k") == "lit" and "Pu128(0)" in x["v"] for x in walk(e)):
            ck.ok(R, "is_zst", "size_of::<T>() == 0")
        else:
            ck.violation(R, "is_zst", zs.where(), "is_zst must be size_of::<T>() == 0")

    R = "C27.VEC-ORDER"
    ck.rule(R, "K3 typestate: in fallible_map_vec's loop ptr::read(place) dominates `vec.map_in_progress = i`, which dominates map(val), which "
               "dominates ptr::write; ptr::write is reachable only through the success edge of map's `?`; read, progress index and write use "
               "the same loop index; finish() is reached only from the loop exit")
    fv = need_body(ck, facts, R, IP + "fallible_map_vec")
    if fv:
        cfg = fv.cfg
        rd = [i for i in cfg.call_blocks("ptr::read") if not cfg.blocks[i].get("c")]
        wr = [i for i in cfg.call_blocks("ptr::write") if not cfg.blocks[i].get("c")]
        mp = [i for i, bl in enumerate(cfg.blocks) if is_map_call(bl["t"]) and not bl.get("c")]
        prog = [bk for bk, j, st in cfg.field_writes(VM + ".map_in_progress") if j != "term"]
        fin = cfg.call_blocks(VM + "::finish")
        ck.floor(R, "sites(read,progress,map,write,finish)", min(len(rd), len(prog), len(mp), len(wr), len(fin)), 1)
        if rd and wr and mp and prog and fin:
            chain = [("ptr::read", rd), ("map_in_progress = i", prog), ("map(val)", mp), ("ptr::write", wr)]
            for (na, a), (nb, bq) in zip(chain, chain[1:]):
                # a statement (the progress write) precedes the terminator of its own block
                ok = all(cfg.must_pass_blocks(x, a) or (na.startswith("map_in_progress") and x in a) for x in bq)
                if ok:
                    ck.ok(R, "%s before %s" % (na, nb))
                else:
                    ck.violation(R, "%s before %s" % (na, nb), fv.where(), "`%s` can be reached without `%s` having happened in this iteration: on a "
                                 "panic or error the drop guard would drop an element twice or read an uninitialised one" % (nb, na))
            # within one iteration: the progress write must happen *after* the read of the same iteration: read block reaches progress block without the back edge
            branch = [i for i in cfg.call_blocks("Try::branch") if cfg.must_pass_blocks(i, mp)]
            is_branch = lambda tr: tr.get("of", {}).get("kind") == "call" and tr["of"].get("block") in branch
            cont = cfg.variant_edges(is_branch, ["Continue"])
            guard_sites(ck, R, fv, wr, cont, "ptr::write", "map(val) returned Ok")
            # finish is outside the loop: it cannot reach the read again
            if all(r not in cfg.reachable(f) for f in fin for r in rd):
                ck.ok(R, "finish-after-loop")
            else:
                ck.violation(R, "finish-after-loop", fv.where(), "finish() inside the loop would hand out a vector whose tail is still of type T")
            th = fv.thir
            idx_ok = False
            for lp in [m for m in walk(th) if m.get("k") == "match" and m.get("src", "").startswith("ForLoopDesugar")]:
                body_ = lp
                binds = [x["pat"]["sub"][0][2].get("n") for x in walk(lp) if x.get("k") == "match" and x.get("arms") and False]
            assigns = [n for n in walk(th) if n.get("k") == "assign" and mentions_field(n["l"], "map_in_progress")]
            adds = [c for c in calls(th, "add") if mentions_field(c["args"][0], "ptr")]
            reads = [c for c in calls(th, "ptr::read")]
            writes = [c for c in calls(th, "ptr::write")]
            if assigns and adds and reads and writes:
                iv = var_name(assigns[0]["r"])
                place = None
                for st in walk(th):
                    if st.get("k") == "let" and st.get("init") is not None and has_call(st["init"], "add") and mentions_field(st["init"], "ptr"):
                        place = st["pat"].get("n")
                        add_idx = var_name([c for c in calls(st["init"], "add")][0]["args"][1])
                idx_ok = iv is not None and place is not None and add_idx == iv and place in expr_vars(reads[0]["args"][0]) and \
                    place in expr_vars(writes[0]["args"][0]) and any(x.get("k") == "cast" and "*mut U" in x.get("ty", "") for x in walk(writes[0]["args"][0]))
            if idx_ok:
                ck.ok(R, "same-index-for-read-progress-write", "place = ptr.add(i); read(place); map_in_progress = i; write(place as *mut U)")
            else:
                ck.violation(R, "same-index-for-read-progress-write", fv.where(), "the element read, the recorded progress index and the slot written must be the same index")
            # loop runs over 0..vec.len
            rng = [n for n in walk(th) if n.get("k") == "adt" and n["adt"].endswith("::Range")]
            if rng and any(dict(r["fields"]).get("start", {}).get("k") == "lit" and mentions_field(dict(r["fields"])["end"], "len") for r in rng):
                ck.ok(R, "loop-over-0..len")
            else:
                ck.violation(R, "loop-over-0..len", fv.where(), "the loop must cover exactly 0..vec.len")

    R = "C27.VEC-DROP"
    ck.rule(R, "K1: Drop for VecMappedInPlace: drop_in_place(ptr.add(i) as *mut U) for i in 0..map_in_progress; drop_in_place(ptr.add(i)) for i in "
               "map_in_progress+1..len; then Vec::from_raw_parts(ptr, 0, cap). new(): reads ptr/len/capacity then mem::forget(vec), progress 0. "
               "finish(): ManuallyDrop::new(self) then from_raw_parts(ptr as *mut U, len, cap)")
    dr = need_body(ck, facts, R, "<%s as core::ops::drop::Drop>::drop" % VM)
    if dr:
        th = dr.thir
        loops = [m for m in walk(th) if m.get("k") == "match" and m.get("src", "").startswith("ForLoopDesugar") and has_call(m["scrut"], "into_iter")]
        got = []
        for lp in loops:
            rng = [n for n in walk(lp["scrut"]) if n.get("k") == "adt" and n["adt"].endswith("::Range")]
            if not rng:
                continue
            f = dict(rng[0]["fields"])
            s, e = peel(f["start"]), peel(f["end"])
            s_desc = "0" if s.get("k") == "lit" and "Pu128(0)" in s["v"] else ("progress+1" if s.get("k") == "bin" and s["op"] == "Add" and mentions_field(s, "map_in_progress")
                                                                                  and any(x.get("k") == "lit" and "Pu128(1)" in x["v"] for x in walk(s)) else "?")
            e_desc = "progress" if mentions_field(e, "map_in_progress") else ("len" if mentions_field(e, "len") else "?")
            dp = [c for c in calls(lp, "drop_in_place")]
            as_u = bool(dp) and any(x.get("k") == "cast" and "*mut U" in x.get("ty", "") for x in walk(dp[0]["args"][0]))
            got.append((s_desc, e_desc, "U" if as_u else "T", len(dp)))
        want = [("0", "progress", "U", 1), ("progress+1", "len", "T", 1)]
        if got == want:
            ck.ok(R, "drop:ranges", "[0,progress) as U; (progress,len) as T")
        else:
            ck.violation(R, "drop:ranges", dr.where(), "drop ranges are %s, required %s: an element would be dropped twice, leaked, or dropped at the wrong type" % (got, want))
        frp = [c for c in calls(th, "Vec::from_raw_parts")]
        okf = len(frp) == 1 and mentions_field(frp[0]["args"][0], "ptr") and peel(frp[0]["args"][1]).get("k") == "lit" and "Pu128(0)" in peel(frp[0]["args"][1])["v"] \
            and mentions_field(frp[0]["args"][2], "cap")
        if okf:
            ck.ok(R, "drop:free-with-len-0-and-cap")
        else:
            ck.violation(R, "drop:free-with-len-0-and-cap", dr.where(), "storage must be freed as Vec::from_raw_parts(ptr, 0, cap)")
        # order: element drops before the free
        cfg = dr.cfg
        fb = cfg.call_blocks("Vec::from_raw_parts")
        db = cfg.call_blocks("drop_in_place")
        if fb and db and all(d not in cfg.reachable(fb[0]) for d in db):
            ck.ok(R, "drop:elements-before-free")
        else:
            ck.violation(R, "drop:elements-before-free", dr.where(), "elements must be dropped before the storage is freed")
    nw = need_body(ck, facts, R, VM + "::new")
    if nw:
        cfg = nw.cfg
        fg = cfg.call_blocks("mem::forget")
        before = cfg.call_blocks(("Vec::as_mut_ptr", "Vec::len", "Vec::capacity"))
        ctor = [x for x in walk(nw.thir) if x.get("k") == "adt" and x["adt"] == VM]
        f = dict(ctor[0]["fields"]) if len(ctor) == 1 else {}
        zero = peel(f.get("map_in_progress", {})).get("k") == "lit" and "Pu128(0)" in peel(f["map_in_progress"])["v"] if f else False
        ok = len(fg) == 1 and len(before) == 3 and all(cfg.must_pass_blocks(fg[0], [x]) for x in before) and zero and \
            var_name(f.get("ptr")) == "ptr" and var_name(f.get("len")) == "len" and var_name(f.get("cap")) == "cap"
        if ok:
            ck.ok(R, "new", "raw parts taken, then mem::forget(vec); map_in_progress = 0")
        else:
            ck.violation(R, "new", nw.where(), "new() must take ptr/len/capacity, forget the vector (no double free) and start with map_in_progress = 0")
    fi = need_body(ck, facts, R, VM + "::finish")
    if fi:
        th = fi.thir
        md = [c for c in calls(th, "ManuallyDrop::new")]
        frp = [c for c in calls(th, "Vec::from_raw_parts")]
        ok = len(md) == 1 and var_name(md[0]["args"][0]) == "self" and len(frp) == 1 and mentions_field(frp[0]["args"][0], "ptr") and \
            any(x.get("k") == "cast" and "*mut U" in x.get("ty", "") for x in walk(frp[0]["args"][0])) and \
            mentions_field(frp[0]["args"][1], "len") and mentions_field(frp[0]["args"][2], "cap")
        dom = fi.cfg.call_blocks("ManuallyDrop::new") and all(fi.cfg.must_pass_blocks(x, fi.cfg.call_blocks("ManuallyDrop::new")) for x in fi.cfg.call_blocks("Vec::from_raw_parts"))
        if ok and dom:
            ck.ok(R, "finish", "ManuallyDrop::new(self); Vec::from_raw_parts(ptr as *mut U, len, cap)")
        else:
            ck.violation(R, "finish", fi.where(), "finish() must disarm the guard before rebuilding the vector from (ptr as *mut U, len, cap)")

    R = "C27.BOX-ORDER"
    ck.rule(R, "K3 typestate: in fallible_map_box: Box::into_raw(b) -> ptr::read(raw) -> Box::from_raw(raw.cast()) as Box<MaybeUninit<U>> -> map(val) "
               "-> (success edge only) ptr::write -> Box::from_raw(Box::into_raw(raw).cast())")
    fb = need_body(ck, facts, R, IP + "fallible_map_box")
    if fb:
        cfg = fb.cfg
        ir = [i for i in cfg.call_blocks("Box::into_raw") if not cfg.blocks[i].get("c")]
        rd = [i for i in cfg.call_blocks("ptr::read") if not cfg.blocks[i].get("c")]
        fr = [i for i in cfg.call_blocks("Box::from_raw") if not cfg.blocks[i].get("c")]
        wr = [i for i in cfg.call_blocks("ptr::write") if not cfg.blocks[i].get("c")]
        mp = [i for i, bl in enumerate(cfg.blocks) if is_map_call(bl["t"]) and not bl.get("c") and cfg.must_pass_blocks(i, rd)]
        ck.floor(R, "sites(into_raw,read,from_raw,map,write)", min(len(ir), len(rd), len(mp), len(wr)), 1)
        if ir and rd and fr and wr and mp and len(fr) == 2 and len(ir) == 2:
            first_fr = [x for x in fr if not cfg.must_pass_blocks(x, mp)]
            second_fr = [x for x in fr if cfg.must_pass_blocks(x, mp)]
            first_ir = [x for x in ir if not cfg.must_pass_blocks(x, mp)]
            checks = [
                ("Box::into_raw(b) before ptr::read", all(cfg.must_pass_blocks(x, first_ir) for x in rd)),
                ("ptr::read before Box<MaybeUninit<U>>::from_raw", bool(first_fr) and all(cfg.must_pass_blocks(x, rd) for x in first_fr)),
                ("Box<MaybeUninit<U>> exists before map(val)", bool(first_fr) and all(cfg.must_pass_blocks(x, first_fr) for x in mp)),
                ("map(val) before ptr::write", all(cfg.must_pass_blocks(x, mp) for x in wr)),
                ("ptr::write before the final Box::from_raw", bool(second_fr) and all(cfg.must_pass_blocks(x, wr) for x in second_fr)),
            ]
            for name, okc in checks:
                if okc:
                    ck.ok(R, name)
                else:
                    ck.violation(R, name, fb.where(), "ordering violated: `%s`; a panic or error in `map` would free or drop the moved-out value" % name)
            branch = [i for i in cfg.call_blocks("Try::branch") if cfg.must_pass_blocks(i, mp)]
            is_branch = lambda tr: tr.get("of", {}).get("kind") == "call" and tr["of"].get("block") in branch
            guard_sites(ck, R, fb, wr, cfg.variant_edges(is_branch, ["Continue"]), "ptr::write", "map(val) returned Ok")
            mu = any(st.get("k") == "let" and "MaybeUninit<U>" in st["pat"].get("ty", "") for st in walk(fb.thir))
            if mu:
                ck.ok(R, "intermediate-box-is-MaybeUninit<U>")
            else:
                ck.violation(R, "intermediate-box-is-MaybeUninit<U>", fb.where(), "while `map` runs the allocation must be owned as Box<MaybeUninit<U>> so that unwinding frees but does not drop it")
        else:
            ck.violation(R, "box-steps", fb.where(), "expected two Box::into_raw, two Box::from_raw, one read, one write, one map call")

    R = "C27.WHO-CALLS"
    ck.rule(R, "K4/K8: fallible_map_vec / fallible_map_box are not public and are called only from <Vec<T> as TypeFoldable>::try_fold_with and "
               "<Box<T> as TypeFoldable>::try_fold_with")
    crates = ["chalk_ir", "chalk_solve", "chalk_engine", "chalk_recursive", "chalk_integration", "chalk"]
    cg = CallGraph(facts, crates)
    want = {IP + "fallible_map_vec": "<alloc::vec::Vec as chalk_ir::fold::TypeFoldable>::try_fold_with",
            IP + "fallible_map_box": "<alloc::boxed::Box as chalk_ir::fold::TypeFoldable>::try_fold_with"}
    for fn, caller in want.items():
        b = facts.body(fn)
        if b is not None and b.d.get("pub") is False:
            ck.ok(R, "%s:not-public" % fn.split("::")[-1])
        elif b is not None:
            ck.violation(R, "%s:not-public" % fn.split("::")[-1], b.where(), "the unsafe helper became nameable from outside its module tree")
        cs = cg.callers_of(lambda k, f=fn: k == f)
        ck.floor(R, "callers-of-" + fn.split("::")[-1], len(cs), 1)
        for k, blk, t in cs:
            if k.split("::{")[0] == caller:
                ck.ok(R, "%s<-%s" % (fn.split("::")[-1], short(k)))
            else:
                ck.violation(R, "%s<-%s" % (fn.split("::")[-1], short(k)), cg.bodies[k].where(t.get("ln")), "unaudited caller of an unsafe in-place helper")
