"""C11 - interrupted solving is a safe approximation.

Decided:
  NO-TAINTED-CACHE  a value produced because the caller's continue-callback said `stop` must not flow into state that a later
                    query reads as final (the recursive solver's cache, the SLG answer tables) unless the store is itself guarded
                    by the interruption
  WEAKER            on every interrupted path make_solution only produces Ambig(Unknown | Suggested) - never Unique, Definite or None
"""
from core import enum_matches, select_arms, V, walk, calls, peel, callee_matches, var_name, expr_vars, trace_is_call, CallGraph
from kit import need_body, has_call, short, guard_sites, result_expr, ctor_names

RC = "chalk_recursive::fixed_point::RecursiveContext::"
SG = "chalk_recursive::fixed_point::search_graph::SearchGraph::"
MAKE = "<chalk_engine::slg::SlgContextOps as chalk_engine::slg::aggregate::AggregateOps>::make_solution"


def is_should_continue_call(t):
    return t.get("k") == "call" and (t.get("fn") or "").endswith("Fn::call") and "Fn() -> bool" in (t.get("recv") or "")


def trace_is_sc(tr):
    return tr.get("kind") == "call" and is_should_continue_call(tr["call"])


def interrupted_flag_guard(ck, facts, R, sg):
    """The other accepted discipline: a flag in the context (`RecursiveContext.interrupted`) that
      (1) is set to true by the closure solve_root_goal wraps around the caller's callback, on the edge where the callback returned
          false, and that closure - not the raw callback - is what solve_goal / the iterations receive;
      (2) is cleared at the root entry before solving;
      (3) is read in solve_goal: the edges on which it is false.
    -> (edges of solve_goal on which the flag is false, description) or ([], reason)"""
    cfg = sg.cfg
    def to_field(c, operand, depth=5):
        tr = c.trace(operand)
        for _ in range(depth):
            if tr.get("kind") == "field":
                return any(str(f).endswith(".interrupted") or str(f) == "interrupted" for f in tr.get("fields", []))
            if tr.get("kind") == "call" and tr["call"].get("a"):
                tr = c.trace(tr["call"]["a"][0])
                continue
            return False
        return False
    LOADS = ("Atomic::load", "AtomicBool::load", "Atomic::<T>::load", "Cell::<T>::get", "Cell::get")
    STORES = ("Atomic::store", "AtomicBool::store", "Atomic::<T>::store", "Cell::<T>::set", "Cell::set")
    load_false = cfg.bool_edges(lambda tr: tr.get("kind") == "call" and callee_matches(tr["call"], LOADS)
                                and to_field(cfg, tr["call"]["a"][0]), False)
    if not load_false:
        return [], "no read of an `interrupted` flag in solve_goal"
    root = facts.body(RC + "solve_root_goal")
    if root is None:
        return [], "solve_root_goal not found"
    clos = facts.closures_of(root)
    setter = None
    for c in clos:
        th = c.thir
        if th is None:
            continue
        stores = [x for x in calls(th, STORES) if "true" in repr(x.get("args", [])[-2:])]
        if not stores:
            continue
        # the store must sit in the branch taken when the wrapped callback returned false
        lets = {st["pat"].get("n"): st["init"] for st in walk(th) if st.get("k") == "let" and st.get("init") is not None and st["pat"].get("k") == "bind"}

        def from_callback(e, depth=3):
            if any(is_should_continue_call(x) or callee_matches(x, ("Fn::call", "FnMut::call_mut", "FnOnce::call_once")) for x in calls(e)):
                return True
            return depth > 0 and any(v in lets and from_callback(lets[v], depth - 1) for v in expr_vars(e))
        ok_branch = False
        for n in walk(th):
            if n.get("k") == "if" and any(x is stores[0] for x in walk(n["then"])):
                c0 = peel(n["cond"])
                if c0.get("k") == "un" and c0.get("op") == "Not" and from_callback(c0["e"]):
                    ok_branch = True
        # and the closure returns what the callback returned
        if ok_branch:
            setter = c
    if setter is None:
        return [], "no wrapper closure in solve_root_goal that sets the flag when the callback returns false"
    rcfg = root.cfg
    sgc = rcfg.call_blocks(RC + "solve_goal")
    if not sgc:
        return [], "solve_root_goal does not call solve_goal"
    # the callback handed to solve_goal is the wrapper closure (a local), not the raw parameter
    t = rcfg.blocks[sgc[0]]["t"]
    last = t.get("a", [])[-1] if t.get("a") else None
    raw = isinstance(last, dict) and (last.get("m") or last.get("c") or {}).get("l") in range(1, (root.mir.get("argc") or 4) + 1) \
        and not (last.get("m") or last.get("c") or {}).get("pj")
    if raw:
        return [], "solve_goal still receives the caller's raw callback"
    resets = [b for b in rcfg.call_blocks(STORES)]
    if not resets or not all(rcfg.must_pass_blocks(b, resets) for b in sgc):
        return [], "the flag is not cleared at the root entry"
    return load_false, "wrapper closure in solve_root_goal; cleared at entry"


def run(ck, facts, tier):
    from shared import state
    state.result_stores(ck, facts, "C11.RESULT-STORES")
    R = "C11.NO-TAINTED-CACHE"
    ck.rule(R, "interprocedural taint (K3/K4): sources = the `!should_continue()` edges (SolveIteration::solve_iteration -> Ambig(Unknown); "
               "ForestSolver::peek_answer -> QuantumExceeded); sinks = Cache::insert (through move_to_cache) and Table::push_answer. "
               "A sink reachable on a path that carries the interrupt-derived value must be control-dependent on the interruption")
    # --- recursive solver
    si = need_body(ck, facts, R, "chalk_recursive::solve::SolveIteration::solve_iteration")
    src_ok = False
    if si:
        cfg = si.cfg
        stop = cfg.bool_edges(trace_is_sc, False)
        amb = [b for b, j, st in cfg.agg_sites("chalk_solve::solve::Solution", "Ambig")]
        if stop and amb and any(a in cfg.reachable(stop[0][1]) for a in amb):
            src_ok = True
            ck.ok(R, "source:solve_iteration:!should_continue()->Ambig(Unknown)", "source located")
        else:
            ck.violation(R, "missing-anchor:source:solve_iteration", si.where(), "interrupt source not found; re-anchor the rule")
    # the interrupt-derived value is what solve_iteration returns; solve_new_subgoal stores it in search_graph[dfn].solution;
    # solve_goal promotes the node with move_to_cache.  Is that promotion guarded by the interruption?
    sn = need_body(ck, facts, R, RC + "solve_new_subgoal")
    sg = need_body(ck, facts, R, RC + "solve_goal")
    if sn and sg and src_ok:
        from kit import let_bound
        ans = let_bound(sn.thir, lambda i: has_call(i, "solve_iteration"))     # the iteration's answer, whatever it is called
        stores = [n for n in walk(sn.thir) if n.get("k") == "assign" and any(x.get("k") == "field" and x["n"] == "solution" for x in walk(n["l"]))
                  and expr_vars(n["r"]) & ans]
        stores += [c for c in calls(sn.thir, "mem::replace") if expr_vars(c) & ans]
        from_iter = bool(ans)
        if not (stores and from_iter):
            ck.violation(R, "missing-anchor:flow:solve_new_subgoal", sn.where(), "could not follow the iteration result into the search graph; re-anchor")
        else:
            ck.ok(R, "flow:solve_iteration->search_graph[dfn].solution", "%d store(s)" % len(stores))
            cfg = sg.cfg
            sinks = cfg.call_blocks(SG + "move_to_cache")
            guards = cfg.bool_edges(trace_is_sc, True) + cfg.bool_edges(trace_is_sc, False)
            # a guard may also be a flag returned by solve_new_subgoal / stored in self; accept any switch whose source is derived
            # from a should_continue call anywhere in this body
            flag_guard, flag_why = interrupted_flag_guard(ck, facts, R, sg)
            for sblk in sinks:
                guarded = bool(guards) and cfg.must_pass_edges(sblk, guards)
                inst = "%s:move_to_cache" % short(RC + "solve_goal")
                if guarded:
                    ck.ok(R, inst, "promotion to the cache is control-dependent on should_continue()")
                elif flag_guard and cfg.must_pass_edges(sblk, flag_guard):
                    ck.ok(R, inst, "promotion to the cache only on the `interrupted == false` edge; the flag is set on every false "
                                   "return of the caller's callback (%s)" % flag_why)
                else:
                    ck.violation(R, inst, sg.where(cfg.blocks[sblk]["t"].get("ln")),
                                 "the `Ambig(Unknown)` produced when the caller interrupts the solve is stored in the search graph and promoted "
                                 "to the cache with no guard: a later, uninterrupted `solve` of the same goal returns the stale ambiguous answer")
            ck.floor(R, "solve_goal.cache-sinks", len(sinks), 1)
    # --- SLG
    pk = need_body(ck, facts, R, "<chalk_engine::forest::ForestSolver as chalk_engine::context::AnswerStream>::peek_answer")
    if pk:
        cfg = pk.cfg
        stop = cfg.bool_edges(trace_is_sc, False)
        q = [b for b, j, st in cfg.agg_sites("chalk_engine::context::AnswerResult", "QuantumExceeded")]
        if not stop or not q:
            ck.violation(R, "missing-anchor:source:peek_answer", pk.where(), "interrupt source not found")
        else:
            # between the stop edge and the return nothing is written: no calls at all except constructing the result
            bad = []
            for e in stop:
                region = cfg.reachable(e[1])
                for b in region:
                    t = cfg.blocks[b]["t"]
                    if t["k"] == "call" and not (t.get("x") and "tracing" in (t.get("x") or "")):
                        bad.append((b, t.get("fn")))
            # the loop continues on the other edge only; region of the stop edge must lead straight to return
            bad = [x for x in bad if not (x[1] or "").startswith("tracing")]
            if not bad:
                ck.ok(R, "peek_answer:!should_continue()->QuantumExceeded", "returns without touching the forest")
            else:
                ck.violation(R, "peek_answer:!should_continue()->QuantumExceeded", pk.where(), "calls after the interruption: %s" % bad[:3])
            # should_continue is consulted only after root_answer returned QuantumExceeded (its SolveState already unwound into the tables)
            sc = [i for i, b in enumerate(cfg.blocks) if is_should_continue_call(b["t"])]
            ra = cfg.call_blocks("Forest::root_answer")
            if sc and ra and all(cfg.must_pass_blocks(s, ra) for s in sc):
                ck.ok(R, "peek_answer:interruption-only-between-root_answer-calls")
            else:
                ck.violation(R, "peek_answer:interruption-only-between-root_answer-calls", pk.where(), "the callback must be consulted only between complete root_answer calls")
    # push_answer is never guarded by / fed from the callback: no function of chalk_engine::logic calls should_continue
    n_sc = 0
    for k, b in facts.bodies("chalk_engine").items():
        if k.startswith("chalk_engine::logic::") or k.startswith("chalk_engine::table"):
            for blk in b.mir["blocks"]:
                if is_should_continue_call(blk["t"]):
                    n_sc += 1
    if n_sc == 0:
        ck.ok(R, "slg:tables-never-see-the-interruption", "no should_continue call in chalk_engine::logic / table")
    else:
        ck.violation(R, "slg:tables-never-see-the-interruption", "", "the SLG search now consults the callback while tables are being built; re-audit")

    R = "C11.INTERRUPT-YIELDS-AMBIG"
    ck.rule(R, "K3 (every interruption point): wherever chalk-recursive or chalk-engine reads the caller's continue-callback, the edge on "
               "which it returned false reaches the function's return only through the construction of an explicitly weaker result - "
               "Solution::Ambig / Guidance::Unknown (recursive solver), RootSearchFail::QuantumExceeded / AnswerResult::QuantumExceeded "
               "(SLG) - or through the write of the interruption flag (the wrapper closure).  An interruption point that returns whatever "
               "has been computed so far (a provisional cycle answer, partial guidance) can report a *stronger* answer than the full solve")
    WEAK = (("chalk_solve::solve::Solution", "Ambig"), ("chalk_engine::logic::RootSearchFail", "QuantumExceeded"),
            ("chalk_engine::context::AnswerResult", "QuantumExceeded"))
    n_pts = 0
    for crate in ("chalk_recursive", "chalk_engine"):
        for key, b in sorted(facts.bodies(crate).items()):
            if b.d.get("mir") is None:
                continue
            cfg = b.cfg
            stop_edges = cfg.bool_edges(trace_is_sc, False)
            if not stop_edges:
                continue
            weak = set()
            for adt, var in WEAK:
                weak |= {blk for blk, j, st in cfg.agg_sites(adt, var)}
            weak |= {blk for blk, j, st in cfg.field_writes("interrupted")} if hasattr(cfg, "field_writes") else set()
            # an atomic flag is written through a call: AtomicBool::store on the interrupted field
            weak |= set(cfg.call_blocks(("AtomicBool::store", "Atomic::store", "Atomic::fetch_or", "AtomicBool::fetch_or", "Cell::set")))
            rets = set(cfg.return_blocks())
            for e in stop_edges:
                n_pts += 1
                inst = "%s:!should_continue()" % short(key.split("::{")[0])
                reach = cfg.reachable(e[1], (), False, stop=weak)
                if rets & (reach - weak):
                    ck.violation(R, inst, b.where(cfg.blocks[e[0]]["t"].get("ln")), "after the callback said stop, the function can return without "
                                 "building Ambig / QuantumExceeded: the interrupted result is whatever was computed so far")
                else:
                    ck.ok(R, inst, "every path to the return builds the weaker result")
    ck.floor(R, "interruption-points", n_pts, 2)

    R = "C11.WEAKER"
    ck.rule(R, "K1: in make_solution every QuantumExceeded arm and the `is_quantum_exceeded()` branch build only Ambig(Unknown|Suggested)")
    mk = need_body(ck, facts, R, MAKE)
    if mk:
        th = mk.thir
        n = 0
        for m in enum_matches(th, "chalk_engine::context::AnswerResult"):
            arms = select_arms(m, V("QuantumExceeded"))
            arm = m["arms"][arms[0][0]]
            sol = set(ctor_names(arm["body"], "chalk_solve::solve::Solution")) | set(ctor_names(arm["body"], "chalk_solve::solve::Guidance"))
            none = any(x.get("k") == "adt" and x.get("v") == "None" for x in walk(arm["body"]))
            n += 1
            inst = "make_solution:QuantumExceeded-arm#%d" % n
            if sol and sol <= {"Ambig", "Unknown", "Suggested"} and not none:
                ck.ok(R, inst, str(sorted(sol)))
            else:
                ck.violation(R, inst, mk.where(arm["ln"]), "an interrupted enumeration must yield Ambig(Unknown|Suggested); found %s%s" % (sorted(sol), " and None" if none else ""))
        for x in walk(th):
            if x.get("k") == "if" and has_call(x["cond"], "AnswerResult::is_quantum_exceeded"):
                sol = set(ctor_names(x["then"], "chalk_solve::solve::Solution")) | set(ctor_names(x["then"], "chalk_solve::solve::Guidance"))
                n += 1
                if sol and sol <= {"Ambig", "Unknown", "Suggested"}:
                    ck.ok(R, "make_solution:is_quantum_exceeded-branch", str(sorted(sol)))
                else:
                    ck.violation(R, "make_solution:is_quantum_exceeded-branch", mk.where(x.get("ln")), "found %s" % sorted(sol))
        ck.floor(R, "interrupted-paths", n, 2)

    R = "C11.SOLVE-ERRORS-PROPAGATE"
    ck.rule(R, "K6-style error discipline: inside the recursive solver the result of proving / refuting / solving a (sub)goal "
               "(Fulfill::prove, Fulfill::refute, solve_goal, solve_iteration, solve_from_clauses, solve_via_simplification, Fulfill::solve) "
               "is never `unwrap()`ed / `expect()`ed: an obligation that was ambiguous a moment ago can come back `NoSolution` when the "
               "caller's callback interrupted the first attempt (k-th invocation false, later ones true), and then the solve must return "
               "an answer, not panic")
    SOLVES = ("Fulfill::<I, Solver>::prove", "Fulfill::prove", "Fulfill::<I, Solver>::refute", "Fulfill::refute", "SolveDatabase::solve_goal",
              "SolveIteration::solve_iteration", "SolveIterationHelpers::solve_from_clauses", "SolveIterationHelpers::solve_via_simplification",
              "Fulfill::<I, Solver>::solve", "Fulfill::solve", "prove", "refute")
    n_calls = 0
    from kit import thir_all
    for key, b in sorted(facts.bodies("chalk_recursive").items()):
        if b.thir is None or "{" in key:
            continue
        for t in thir_all(facts, b):
            n_calls += len([c for c in calls(t, SOLVES)])
            for c in calls(t, ("Result::<T, E>::unwrap", "Result::<T, E>::expect", "Result::unwrap", "Result::expect")):
                if c.get("args") and any(True for x in calls(c["args"][0], SOLVES)):
                    inner = [x for x in calls(c["args"][0], SOLVES)][0]
                    ck.violation(R, "%s:unwrap-of-%s" % (short(key), str(inner.get("fn", "")).split("::")[-1]), b.where(c.get("ln")),
                                 "the result of %s is unwrapped: it can be Err(NoSolution) on a re-proof after an interrupted first attempt, "
                                 "and the solver panics instead of answering" % str(inner.get("fn", "")).split("::")[-1])
    ck.floor(R, "calls-that-solve-a-goal", n_calls, 4)
    if not [v for v in ck.violations if v["rule"] == R]:
        ck.ok(R, "recursive-solver:no-unwrap-on-solve-results", "%d solving call(s), none unwrapped" % n_calls)
