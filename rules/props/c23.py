"""C23 - the logged program reproduces the solver's answers.

Decided: RECORD-DISCIPLINE (every served item id is recorded on every path), COLLECT-COVERS (the stub collector
visits every datum write_items prints, with the same database getters), COLLECTOR-TABLE (IdCollector records
every id-carrying TyKind / WhereClause variant and never cuts the traversal).
Not decided: that the stubs are sufficient for the answers to coincide."""
import re
from core import enum_matches, walk, calls, peel, find_matches, select_arms, V, callee_matches, var_name
from kit import need_body, has_call, short, mentions_field, dominated_by_calls, thir_all, collector_never_breaks

LOG = "chalk_solve::logging_db::LoggingRustIrDatabase"
RECORDABLE = ("TraitId", "AdtId", "ImplId", "OpaqueTyId", "FnDefId", "CoroutineId")
OWNER_FIELD = {"AssocTypeId": "trait_id", "AssociatedTyValueId": "impl_id"}

# one named symbol + reason each
EXCEPTIONS = {
    "trait_name": "name getter used for Debug output only; serves no program fact",
    "adt_name": "name getter used for Debug output only",
    "assoc_type_name": "name getter used for Debug output only",
    "opaque_type_name": "name getter used for Debug output only",
    "fn_def_name": "name getter used for Debug output only",
    "associated_ty_from_impl": "pure id lookup; the impl id it takes was handed out (and recorded) by impls_for_trait, "
                               "and the value it returns is recorded when associated_ty_value is served",
    "local_impls_to_coherence_check:result": "used by coherence checking only, never while solving a goal (C23 quantifies over goals)",
}


def id_kind(ty):
    m = re.match(r"^&?chalk_ir::(\w+)<I>$", ty) or re.match(r"^&?chalk_solve::rust_ir::(\w+)<I>$", ty)
    return m.group(1) if m else None


def record_args(thir):
    out = []
    for c in calls(thir, LOG + "::record"):
        if len(c["args"]) >= 2:
            out.append(c["args"][1])
    return out


def run(ck, facts, tier):
    R = "C23.RECORD-DISCIPLINE"
    ck.rule(R, "K5+K3: in `impl RustIrDatabase/UnificationDatabase for LoggingRustIrDatabase` every method that takes or returns "
               "a recordable item id calls record/record_all on it on every path before returning (exceptions: one named symbol + reason)")
    n_methods = 0
    n_checked = 0
    for trait in ("chalk_solve::RustIrDatabase", "chalk_ir::UnificationDatabase"):
        ims = facts.impls("chalk_solve", trait=trait, self_key=LOG)
        if not ck.require(R, "impl %s for LoggingRustIrDatabase" % trait, ims):
            continue
        for it in ims[0]["items"]:
            b = facts.body(it["key"])
            if b is None:
                continue
            n_methods += 1
            name = it["n"]
            params = b.d.get("params", [])
            pnames = [p.get("n") if isinstance(p, dict) else None for p in b.d.get("thir_params", [])]
            rargs = record_args(b.thir)
            for ty, pn in zip(params, pnames):
                kind = id_kind(ty)
                if kind in RECORDABLE:
                    n_checked += 1
                    inst = "%s(%s: %s)" % (name, pn, kind)
                    if name in EXCEPTIONS:
                        ck.ok(R, inst, "exception: " + EXCEPTIONS[name])
                        continue
                    hit = any(var_name(a) == pn for a in rargs)
                    dom = False
                    if hit:
                        cfg = b.cfg
                        recs = cfg.call_blocks(LOG + "::record")
                        dom = all(cfg.must_pass_blocks(r, recs) for r in cfg.return_blocks())
                    if hit and dom:
                        ck.ok(R, inst, "record(%s) on every path" % pn)
                    else:
                        ck.violation(R, "%s:%s" % (name, kind), b.where(),
                                     "method `%s` serves item `%s: %s` but does not record it on every path; an item used by "
                                     "the solver would be missing from the logged program" % (name, pn, kind))
                elif kind in OWNER_FIELD:
                    n_checked += 1
                    inst = "%s(%s: %s)" % (name, pn, kind)
                    if name in EXCEPTIONS:
                        ck.ok(R, inst, "exception: " + EXCEPTIONS[name])
                        continue
                    fld = OWNER_FIELD[kind]
                    hit = any(mentions_field(a, fld) for a in rargs)
                    if hit:
                        ck.ok(R, inst, "records the owner via .%s" % fld)
                    else:
                        ck.violation(R, "%s:%s" % (name, kind), b.where(),
                                     "method `%s` serves `%s` but does not record its owner (`.%s`)" % (name, kind, fld))
            ret = b.d.get("ret", "")
            if re.search(r"Vec<chalk_ir::ImplId<I>>", ret):
                n_checked += 1
                inst = "%s -> Vec<ImplId>" % name
                if (name + ":result") in EXCEPTIONS:
                    ck.ok(R, inst, "exception: " + EXCEPTIONS[name + ":result"])
                elif has_call(b.thir, LOG + "::record_all"):
                    ck.ok(R, inst, "record_all(result)")
                else:
                    ck.violation(R, "%s:result-ImplId" % name, b.where(), "impl ids handed to the solver are not recorded")
            m = re.search(r"Option<chalk_ir::(TraitId|AssocTypeId)<I>>", ret)
            if m:
                n_checked += 1
                inst = "%s -> Option<%s>" % (name, m.group(1))
                some_arm_records = False
                for n in walk(b.thir):
                    if n.get("k") == "if":
                        cond = n["cond"]
                        if cond.get("k") == "letexpr" and cond["pat"].get("v") == "Some" and has_call(n["then"], LOG + "::record"):
                            some_arm_records = True
                    if n.get("k") == "match":
                        for i, r in select_arms(n, V("Some")):
                            if has_call(n["arms"][i]["body"], LOG + "::record"):
                                some_arm_records = True
                if some_arm_records:
                    ck.ok(R, inst, "recorded in the Some arm")
                else:
                    ck.violation(R, "%s:result-%s" % (name, m.group(1)), b.where(), "the id returned in `Some` is not recorded")
    ck.floor(R, "methods", n_methods, 35)
    ck.floor(R, "id-serving-instances", n_checked, 18)

    # ------------------------------------------------------------------ COLLECT-COVERS
    R = "C23.COLLECT-COVERS"
    ck.rule(R, "K1 sibling: for every RecordedItemId variant, collect_unrecorded_ids visits the datum(s) that write_items prints, "
               "obtained through the same database getters")
    cu = need_body(ck, facts, R, "chalk_solve::logging_db::id_collector::collect_unrecorded_ids")
    wi = need_body(ck, facts, R, "chalk_solve::display::write_items")
    variants = facts.variants("chalk_solve::logging_db::RecordedItemId") or []
    ck.floor(R, "RecordedItemId-variants", len(variants), 6)
    OUT_OF_FRAGMENT = {"Coroutine": "collector arm is `unimplemented!()`; coroutines are outside the C01/C05/C07 fragment C23 quantifies over"}
    if cu and wi and variants:
        mc = enum_matches(facts.thir(cu.key), "chalk_solve::logging_db::RecordedItemId")
        mw = enum_matches(facts.thir(wi.key), "chalk_solve::logging_db::RecordedItemId")
        if len(mc) != 1 or len(mw) != 1:
            ck.violation(R, "match-on-RecordedItemId", cu.where(), "expected exactly one match on RecordedItemId in each function")
        else:
            for v in variants:
                ac = select_arms(mc[0], V(v))
                aw = select_arms(mw[0], V(v))
                inst = "RecordedItemId::%s" % v
                if len(ac) != 1 or len(aw) != 1 or ac[0][1] != "yes" or aw[0][1] != "yes":
                    ck.violation(R, inst, cu.where(), "variant not handled by exactly one unconditional arm")
                    continue
                bc = mc[0]["arms"][ac[0][0]]["body"]
                bw = mw[0]["arms"][aw[0][0]]["body"]
                getters_w = {c["fn"].split("::")[-1] for c in calls(bw) if c.get("trait") == "chalk_solve::RustIrDatabase"} - {"interner"}
                getters_c = {c["fn"].split("::")[-1] for c in calls(bc) if c.get("trait") == "chalk_solve::RustIrDatabase"}
                if v in OUT_OF_FRAGMENT:
                    ck.ok(R, inst, "exception: " + OUT_OF_FRAGMENT[v])
                    continue
                visits = has_call(bc, "visit_with")
                # every datum fetched in the arm is visited *whole*: some visit_with has, as its receiver, the getter call itself or
                # the variable bound to it (a visit of a projection / derived value such as `.bounds_on_self()` does not count)
                lets = {st["pat"].get("n"): st["init"] for st in walk(bc) if st.get("k") == "let" and st.get("init") is not None and st["pat"].get("k") == "bind"}
                whole = set()
                for c in calls(bc, "visit_with"):
                    r = peel(c["args"][0]) if c.get("args") else {}
                    while isinstance(r, dict) and r.get("k") == "call" and callee_matches(r, ("Deref::deref", "Arc::<T>::as_ref", "AsRef::as_ref", "Borrow::borrow")) and r.get("args"):
                        r = peel(r["args"][0])
                    if r.get("k") == "var" and r.get("n") in lets:
                        r = peel(lets[r["n"]])
                    if r.get("k") == "call" and r.get("trait") == "chalk_solve::RustIrDatabase":
                        whole.add(r["fn"].split("::")[-1])
                fetched = {c["fn"].split("::")[-1] for c in calls(bc) if c.get("trait") == "chalk_solve::RustIrDatabase"} - {"interner"}
                if fetched - whole:
                    ck.violation(R, inst + ":whole-datum", cu.where(mc[0]["arms"][ac[0][0]]["ln"]),
                                 "the datum(s) fetched through %s are not visited as a whole (only parts / derived values are): ids that occur "
                                 "only in the unvisited parts get no stub, and the printed program names an item it does not define"
                                 % sorted(fetched - whole))
                    continue
                if getters_w and getters_w <= getters_c and visits:
                    ck.ok(R, inst, "writer getters %s all visited by the collector" % sorted(getters_w))
                else:
                    ck.violation(R, inst, cu.where(mc[0]["arms"][ac[0][0]]["ln"]),
                                 "write_items prints this item through %s but the collector visits %s: ids referenced only from "
                                 "the unvisited datum get no stub" % (sorted(getters_w), sorted(getters_c)))

    # ------------------------------------------------------------------ COLLECTOR-TABLE
    R = "C23.COLLECTOR-TABLE"
    ck.rule(R, "K1 vs spec: IdCollector records the id of every id-carrying TyKind (Adt, FnDef, OpaqueType, Alias) and WhereClause "
               "(Implemented, AliasEq) variant and always continues with super_visit_with")
    base = "<chalk_solve::logging_db::id_collector::IdCollector as chalk_ir::visit::TypeVisitor>::"
    vt = need_body(ck, facts, R, base + "visit_ty")
    if vt:
        ms = enum_matches(facts.thir(vt.key), "chalk_ir::TyKind")
        spec = {"Adt": "IdCollector::record", "FnDef": "IdCollector::record", "OpaqueType": "IdCollector::record",
                "Alias": "IdCollector::visit_alias"}
        if len(ms) != 1:
            ck.violation(R, "visit_ty:match", vt.where(), "expected one match on TyKind")
        else:
            for v, want in spec.items():
                arms = select_arms(ms[0], V(v))
                body_ = ms[0]["arms"][arms[0][0]]["body"] if arms else None
                if arms and arms[0][1] == "yes" and has_call(body_, want):
                    ck.ok(R, "visit_ty:TyKind::%s" % v, want)
                else:
                    ck.violation(R, "visit_ty:TyKind::%s" % v, vt.where(), "ids inside `%s` types are not collected" % v)
        tail = peel(vt.thir)
        tail = tail.get("expr") if tail.get("k") == "block" else None
        if tail is not None and has_call(tail, "super_visit_with"):
            ck.ok(R, "visit_ty:continues-traversal")
        else:
            ck.violation(R, "visit_ty:continues-traversal", vt.where(), "visit_ty must end in ty.super_visit_with(..)")
    vw = need_body(ck, facts, R, base + "visit_where_clause")
    if vw:
        ms = enum_matches(facts.thir(vw.key), "chalk_ir::WhereClause")
        spec = {"Implemented": "IdCollector::record", "AliasEq": "IdCollector::visit_alias"}
        if len(ms) != 1:
            ck.violation(R, "visit_where_clause:match", vw.where(), "expected one match on WhereClause")
        else:
            for v, want in spec.items():
                arms = select_arms(ms[0], V(v))
                body_ = ms[0]["arms"][arms[0][0]]["body"] if arms else None
                if arms and arms[0][1] == "yes" and has_call(body_, want):
                    ck.ok(R, "visit_where_clause:WhereClause::%s" % v, want)
                else:
                    ck.violation(R, "visit_where_clause:WhereClause::%s" % v, vw.where(), "ids inside `%s` clauses are not collected" % v)
        tail = peel(vw.thir)
        tail = tail.get("expr") if tail.get("k") == "block" else None
        if tail is not None and has_call(tail, "super_visit_with"):
            ck.ok(R, "visit_where_clause:continues-traversal")
        else:
            ck.violation(R, "visit_where_clause:continues-traversal", vw.where(), "must end in where_clause.super_visit_with(..)")
    va = need_body(ck, facts, R, "chalk_solve::logging_db::id_collector::IdCollector::visit_alias")
    if va:
        ms = enum_matches(facts.thir(va.key), "chalk_ir::AliasTy")
        if len(ms) == 1:
            for v, fld in (("Projection", "trait_id"), ("Opaque", "opaque_ty_id")):
                arms = select_arms(ms[0], V(v))
                body_ = ms[0]["arms"][arms[0][0]]["body"] if arms else None
                if arms and has_call(body_, "IdCollector::record") and mentions_field(body_, fld):
                    ck.ok(R, "visit_alias:AliasTy::%s" % v, "records .%s" % fld)
                else:
                    ck.violation(R, "visit_alias:AliasTy::%s" % v, va.where(), "alias of kind %s does not record .%s" % (v, fld))
        else:
            ck.violation(R, "visit_alias:match", va.where(), "expected one match on AliasTy")
    # Display: stubs are computed from the recorded set and written before the items
    R = "C23.DISPLAY"
    ck.rule(R, "K3: Display for LoggingRustIrDatabase computes stub ids from the recorded set and writes stubs and recorded items")
    d = need_body(ck, facts, R, "<%s as core::fmt::Display>::fmt" % LOG)
    if d:
        ok = has_call(d.thir, "collect_unrecorded_ids") and has_call(d.thir, "write_stub_items") and has_call(d.thir, "write_items")
        if ok:
            ck.ok(R, "fmt:collect+stubs+items")
        else:
            ck.violation(R, "fmt:collect+stubs+items", d.where(), "Display must write collect_unrecorded_ids stubs and the recorded items")

    R = "C23.IDCOLLECT-DESCENDS"
    ck.rule(R, "K3 (must-pass-through): IdCollector::visit_ty (which finds every item mentioned by a recorded item, so that it gets a stub) "
               "reaches ty.super_visit_with on every path to its return - whatever it has recorded before: the arguments of a second "
               "mention `Wrap<Meters>` of an already seen `Wrap<..>` name items of their own; visit_where_clause and visit_const likewise")
    from kit import all_returns_pass as _arp
    for meth in ("visit_ty", "visit_where_clause"):
        key = "<chalk_solve::logging_db::id_collector::IdCollector as chalk_ir::visit::TypeVisitor>::" + meth
        vb = facts.body(key)
        if vb is None:
            if meth == "visit_ty":
                ck.violation(R, "missing-anchor:IdCollector::visit_ty", "", "function not found")
            continue
        sv = vb.cfg.call_blocks(("TypeSuperVisitable::super_visit_with", "super_visit_with"))
        if not sv:
            ck.violation(R, "IdCollector::%s:descends" % meth, vb.where(), "the visitor never descends into the components")
        else:
            _arp(ck, R, vb, [0], sv, "IdCollector::%s:every-return-after-super_visit_with" % meth)

    R = "C23.ONE-NAME-TABLE"
    ck.rule(R, "K4 (who-may-construct): one log has one table of printed names - WriterState::new (which creates the IdAliasStore that "
               "tells apart items with the same name, `Assoc` / `Assoc_1`) is called only by LoggingRustIrDatabase::new inside the "
               "library crates, and write_stub_items derives its state from the caller's with wrap_db_ref (sharing that table): a stub "
               "section printed under a fresh state numbers equal names independently of the recorded section, and the printed "
               "program refers to names it never declares")
    from core import CallGraph
    cgw = CallGraph(facts, ["chalk_solve", "chalk_engine", "chalk_recursive", "chalk_integration", "chalk"])
    mk = cgw.callers_of(lambda k: k.endswith("display::state::WriterState::new") or k.endswith("display::state::WriterState<I, DB, P>::new"))
    allowed = ("chalk_solve::logging_db::LoggingRustIrDatabase::new",)
    ck.floor(R, "WriterState::new-callers", len(mk), 1)
    for k, blk, t in mk:
        base = k.split("::{")[0]
        if base in allowed:
            ck.ok(R, "WriterState::new<-%s" % short(base))
        else:
            ck.violation(R, "WriterState::new<-%s" % short(base), "", "a second writer state (its own name table) is created here")
    wsi = need_body(ck, facts, R, "chalk_solve::display::write_stub_items")
    if wsi:
        if has_call(facts.thir("chalk_solve::display::write_stub_items"), "wrap_db_ref") and has_call(wsi.thir, "write_items"):
            ck.ok(R, "write_stub_items:state-derived-with-wrap_db_ref")
        else:
            ck.violation(R, "write_stub_items:state-derived-with-wrap_db_ref", wsi.where(), "the stub pass must print through a state derived "
                         "from the caller's (wrap_db_ref), so that both passes draw names from one table")
    wdr = need_body(ck, facts, R, "chalk_solve::display::state::WriterState::wrap_db_ref")
    if wdr:
        th = facts.thir("chalk_solve::display::state::WriterState::wrap_db_ref")
        fresh = has_call(th, "Default::default") or has_call(th, "IdAliasStore::default") or has_call(th, "WriterState::new")
        shares = has_call(th, "Clone::clone") or has_call(th, "Arc::clone") or has_call(th, "clone")
        if shares and not fresh:
            ck.ok(R, "wrap_db_ref:shares-the-alias-store")
        else:
            ck.violation(R, "wrap_db_ref:shares-the-alias-store", wdr.where(), "wrap_db_ref must hand on the existing alias store (clone of the shared handle), not a new one")

    R = "C23.IDCOLLECT-ALL"
    ck.rule(R, "K1: IdCollector (finds every item id referenced by a recorded item, to stub it) never aborts its traversal (no visit method returns ControlFlow::Break)")
    collector_never_breaks(ck, R, facts, "chalk_solve", "<chalk_solve::logging_db::id_collector::IdCollector as chalk_ir::visit::TypeVisitor>::", "IdCollector", 1)

    R = "C23.RECORD-MONOTONE"
    ck.rule(R, "K4 who-may-write: the set of recorded ids (LoggingRustIrDatabase.def_ids) only ever grows: it is borrowed mutably "
               "(DerefMut / get_mut / into_inner / mem::take|replace|swap) only in record / record_all, which only insert / extend; "
               "printing the wrapper (Display::fmt) and every other function read it through Deref only - so every print contains "
               "everything served so far, however many times the wrapper was printed before")
    MUT = ("DerefMut::deref_mut", "Mutex::<T>::get_mut", "Mutex::<T>::into_inner", "mem::take", "mem::replace", "mem::swap",
           "get_mut", "into_inner")
    SHRINK = ("clear", "remove", "swap_remove", "shift_remove", "drain", "retain", "pop", "truncate", "take", "swap_take", "shift_take", "split_off")
    WRITERS = {"chalk_solve::logging_db::LoggingRustIrDatabase::record": ("insert",),
               "chalk_solve::logging_db::LoggingRustIrDatabase::record_all": ("extend",)}
    users = 0
    for key, b in sorted(facts.bodies("chalk_solve").items()):
        if b.thir is None or "{" in key:
            continue
        roots = thir_all(facts, b)
        if not any(mentions_field(t, "def_ids") for t in roots):
            continue
        users += 1
        touching = [c for t in roots for c in calls(t) if mentions_field(c, "def_ids")]
        muts = [c for c in touching if callee_matches(c, MUT)]
        shr = [c for c in touching if str(c.get("fn", "")).split("::")[-1] in SHRINK]
        inst = "%s:def_ids" % short(key)
        if key in WRITERS:
            # the two writers are a few lines each: whatever they call (on the field or on the guard they bound to a local) is an
            # insert / extend and nothing in them removes
            every = [c for t in roots for c in calls(t)]
            grow = [c for c in every if str(c.get("fn", "")).split("::")[-1] in ("insert", "extend", "insert_full")]
            shr = shr + [c for c in every if str(c.get("fn", "")).split("::")[-1] in SHRINK and "Iterator" not in str(c.get("fn", ""))
                         and "Option" not in str(c.get("fn", ""))]
            if grow and not shr:
                ck.ok(R, inst, "mutable borrow used to %s only" % "/".join(WRITERS[key]))
            else:
                ck.violation(R, inst, b.where(), "record functions may only add ids to the recorded set")
        elif muts or shr:
            c = (muts + shr)[0]
            ck.violation(R, inst, b.where(c.get("ln")), "`%s` on the recorded-id set outside record / record_all: a reader that mutates (drains, "
                         "replaces) the record makes later prints of the same wrapper incomplete" % str(c.get("fn", "")).split("::")[-1])
        else:
            ck.ok(R, inst, "read-only")
    ck.floor(R, "functions-touching-def_ids", users, 4)

    R = "C23.NO-BYPASS"
    ck.rule(R, "K5 + call-graph effect: a RustIrDatabase method whose ordinary implementations *re-enter* the database (their bodies reach other "
               "RustIrDatabase callbacks - today only program_clauses_for_env, which runs the environment elaboration) must not be forwarded "
               "by the recording wrapper to the wrapped database: the nested lookups would be served by the wrapped database directly and "
               "never recorded.  The wrapper has to run the computation on itself")
    DBT = "chalk_solve::RustIrDatabase::"
    WRAPPERS = ("chalk_solve::logging_db::LoggingRustIrDatabase", "chalk_solve::logging_db::WriteOnDropRustIrDatabase",
                "chalk_solve::display::stub::StubWrapper")
    # a database method re-enters when an ordinary (non-wrapper) implementation hands `self` *as the database* to a free function
    # (e.g. `chalk_solve::program_clauses_for_env(self, environment)`): that function will call back into whatever database it was given
    reentrant = {}
    for crate in ("chalk_solve", "chalk_integration"):
        if not facts.has_crate(crate):
            continue
        for key, b in facts.bodies(crate).items():
            ti = b.d.get("trait_item") or ""
            if not ti.startswith(DBT) or any(w in key for w in WRAPPERS) or "{" in key or b.thir is None:
                continue
            for t in thir_all(facts, b):
                for c in calls(t):
                    if c.get("recv") is None and not str(c.get("fn", "")).startswith(("core::", "std::", "alloc::")) and \
                            any(var_name(peel(a)) == "self" for a in c.get("args", [])):
                        reentrant.setdefault(ti.split("::")[-1], []).append("%s -> %s" % (short(key), str(c.get("fn"))))
    ck.count("re-entrant-database-methods", sorted(reentrant))
    ck.floor(R, "re-entrant methods found in the workspace's database impls", len(reentrant), 1)
    ims = facts.impls("chalk_solve", trait="chalk_solve::RustIrDatabase", self_key=LOG)
    for it in (ims[0]["items"] if ims else []):
        if it["n"] not in reentrant:
            continue
        b = facts.body(it["key"])
        if b is None:
            continue
        fwd = [c for t in thir_all(facts, b) for c in calls(t) if str(c.get("fn", "")) == DBT + it["n"]]
        on_self = [c for t in thir_all(facts, b) for c in calls(t) if c.get("args") and var_name(peel(c["args"][0])) == "self"
                   and str(c.get("fn", "")) != DBT + it["n"]]
        inst = "LoggingRustIrDatabase::%s" % it["n"]
        if fwd:
            ck.violation(R, inst, b.where(fwd[0].get("ln")), "`%s` re-enters the database (%s) but the wrapper forwards it to the wrapped "
                         "database: everything it looks up while computing is served unrecorded" % (it["n"], reentrant[it["n"]][:2]))
        elif on_self:
            ck.ok(R, inst, "computed on the wrapper itself (%s)" % str(on_self[0].get("fn", "")).split("::")[-1])
        else:
            ck.violation(R, inst, b.where(), "re-entrant method neither forwarded nor computed on `self`: unclassified")
