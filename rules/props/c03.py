"""C03 - SLG answer enumeration is sound, duplicate-free and complete.

Not decided: that each yielded answer is true or that all answers are eventually yielded.
Decided:
  NO-DUP          the answer vector handed to enumeration never contains two equal entries: Table.answers is written only by
                  push_answer (behind a vacant entry of a hash keyed by the whole canonical answer substitution) and reset by
                  mark_floundered
  INDEX-MONOTONE  next_answer advances the answer index exactly once per call; peek_answer only skips invalid answers
  FLAG-SOURCE     the `more answers follow` flag given to the callback is `!peek_answer().is_no_more_solutions()` evaluated after
                  the answer was taken
  STRAND-CONSERVED  completeness needs every derivation to stay alive until it fails or answers: a strand handed by value to one of the
                  SolveState steps leaves that step, on every normal path, through a *conserving sink* (put back into a table, parked as
                  the active strand, passed on to the next step, turned into an answer) - the only audited discard is a failed merge
  NEXT-ANSWER     merge_answer_into_strand re-enqueues a copy of the strand asking for the next answer index before it consumes this
                  answer (positive literal, non-trivial answer)
(The non-terminating `Floundered` loop in solve_multiple is reported under C09.)"""
import re
from core import enum_matches, select_arms, V, walk, calls, peel, callee_matches, var_name, expr_vars, trace_is_call
from kit import need_body, has_call, short, result_expr, mentions_field, dominated_by_calls, user_block

TABLE = "chalk_engine::table::Table"


def cycle_minimums(ck, facts, R):
    """Shared by C01 / C03: when an SLG table whose strands are all blocked on a cycle is popped, its caller must learn how far down
    the stack the cycle reaches."""
    ck.rule(R, "K1: in SolveState::on_no_strands_left (branch `table part of a cycle`) the match on the caller's selected literal hands "
               "the popped table's cyclic minimums to the caller: Positive -> take_minimums(&cyclic_minimums) - the table's own "
               "minimums, unchanged; Negative -> take_minimums of Minimums { positive: own clock, negative: minimum_of_pos_and_neg }. "
               "A caller that is told `positive = its own clock` for a positive dependency believes it heads the cycle and clears the "
               "strands of everything the cycle reaches - answers of the real head are lost")
    key = "chalk_engine::logic::SolveState::on_no_strands_left"
    b = need_body(ck, facts, R, key)
    if not b:
        return
    th = facts.thir(key)
    ms = [m_ for m_ in enum_matches(th, "chalk_engine::Literal") if has_call(m_, "take_minimums")]
    if len(ms) != 1:
        ck.violation(R, "on_no_strands_left:match-on-caller-literal", b.where(), "expected one match on the caller's selected Literal (found %d)" % len(ms))
        return
    from kit import let_bound, let_inits, resolve_var
    cm = let_bound(th, lambda i: has_call(i, "take_strands") is False and any(x.get("k") == "field" and x.get("n") == "cyclic_minimums" for x in walk(i)))
    inits = let_inits(th)
    for lit in ("Positive", "Negative"):
        arms = select_arms(ms[0], V(lit))
        body_ = ms[0]["arms"][arms[0][0]]["body"]
        tm = [c for c in calls(body_, "take_minimums")]
        inst = "on_no_strands_left:%s-dependency" % lit
        if len(tm) != 1 or len(tm[0].get("args", [])) < 2:
            ck.violation(R, inst, b.where(ms[0]["arms"][arms[0][0]].get("ln")), "the caller's minimums are not updated (take_minimums) for a %s dependency" % lit)
            continue
        arg = resolve_var(tm[0]["args"][1], inits)
        if lit == "Positive":
            direct = var_name(peel(tm[0]["args"][1])) in cm or (isinstance(arg, dict) and arg.get("k") == "field" and arg.get("n") == "cyclic_minimums")
            built = isinstance(arg, dict) and arg.get("k") == "adt" and "Minimums" in str(arg.get("adt", ""))
            if direct and not built:
                ck.ok(R, inst, "take_minimums(&cyclic_minimums)")
            else:
                ck.violation(R, inst, b.where(tm[0].get("ln")), "a positive dependency must inherit the popped table's cyclic minimums unchanged "
                             "(found a %s)" % ("constructed Minimums value" if built else "different argument"))
        else:
            f = dict((a_, b__) for a_, b__ in (arg.get("fields") or [])) if isinstance(arg, dict) and arg.get("k") == "adt" else {}
            okn = bool(f) and has_call(f.get("negative"), "minimum_of_pos_and_neg") and any(x.get("k") == "field" and x.get("n") == "clock" for x in walk(f.get("positive")))
            if okn:
                ck.ok(R, inst, "Minimums { positive: clock, negative: minimum_of_pos_and_neg }")
            else:
                ck.violation(R, inst, b.where(tm[0].get("ln")), "a negative dependency must depend negatively on min(pos, neg) of the popped table")


def run(ck, facts, tier):
    # ------------------------------------------------------------------ COMPLETE-MODE-RESTARTS
    R = "C03.COMPLETE-MODE-RESTARTS"
    ck.rule(R, "K3: in SolveState::on_no_strands_left a table that still has strands, none of them eligible under the current clock, and "
               "is in AnswerMode::Complete never reaches the `cycle with no new answers` clean-up (Table::take_strands / "
               "clear_strands_after_cycle): from the Complete edge of the test on answer_mode every path leaves the function through "
               "the switch to Ambiguous mode and a QuantumExceeded restart.  The follow-up strands merge_answer_into_strand enqueues are "
               "stamped with the current clock - only the restart gives them a turn; clearing instead drops them and their answers")
    nb2 = need_body(ck, facts, R, "chalk_engine::logic::SolveState::on_no_strands_left")
    if nb2:
        cfg = nb2.cfg
        comp = cfg.variant_edges(lambda tr: tr.get("of", {}).get("kind") == "field" and any(str(f_).endswith("answer_mode") for f_ in tr["of"].get("fields", [])), ["Complete"])
        ts = cfg.call_blocks("Table::take_strands") + cfg.call_blocks("clear_strands_after_cycle")
        ck.floor(R, "on_no_strands_left.Complete-edges/clean-up-sites", min(len(comp), len(ts)), 1)
        leak = [e for e in comp if set(ts) & cfg.reachable(e[1], (), False)]
        if comp and ts and not leak:
            ck.ok(R, "on_no_strands_left:Complete-mode-never-clears-strands")
        else:
            ck.violation(R, "on_no_strands_left:Complete-mode-never-clears-strands", nb2.where(), "a Complete-mode table with pending strands can reach the "
                         "cycle clean-up in the same quantum: strands that were only waiting for the next clock tick are discarded")
    cycle_minimums(ck, facts, "C03.CYCLE-MINIMUMS")
    # ------------------------------------------------------------------ GREEN-CUT
    R = "C03.GREEN-CUT"
    ck.rule(R, "K10 (symbolic evaluation of the guard): SolveState::pursue_answer may discard the remaining strands of the table "
               "(Table::take_strands - no further answer of this table will ever be produced) only when the answer just published has the "
               "trivial substitution AND no region constraints: the condition guarding take_strands, with its flags expanded to their "
               "definitions, must be false whenever is_trivial_substitution is false and whenever constraints.is_empty is false, whatever "
               "else holds (a goal without inference variables can still have a second answer with other constraints - from the environment)")
    pb = need_body(ck, facts, R, "chalk_engine::logic::SolveState::pursue_answer")
    if pb:
        from kit import let_inits, bool_atoms, bool_eval, _Return
        pth = facts.thir("chalk_engine::logic::SolveState::pursue_answer")
        inits = let_inits(pth)

        def expand(n, depth=4):
            if isinstance(n, list):
                return [expand(x, depth) for x in n]
            if not isinstance(n, dict):
                return n
            if n.get("k") == "var" and n.get("n") in inits and depth > 0:
                return expand(inits[n["n"]], depth - 1)
            return {k_: (expand(v_, depth) if k_ not in ("pat",) else v_) for k_, v_ in n.items()}
        cuts = [n for n in walk(pth) if n.get("k") == "if" and has_call(n["then"], "take_strands")]
        # the innermost conditions only (an enclosing `if let Some(i) = push_answer(..)` is not the guard of the cut)
        cuts = [n for n in cuts if not any(m_ is not n and m_.get("k") == "if" and has_call(m_["then"], "take_strands") for m_ in walk(n["then"]))]
        ck.floor(R, "pursue_answer.take_strands-guards", len(cuts), 1)
        for i, n in enumerate(cuts):
            cond = expand(n["cond"])
            atoms = bool_atoms(cond)
            req = {"is_trivial_substitution": [a for a in atoms if a.get("k") == "call" and callee_matches(a, "is_trivial_substitution")],
                   "constraints.is_empty": [a for a in atoms if a.get("k") == "call" and str(a.get("fn", "")).endswith("is_empty") and mentions_field(a, "constraints")]}
            for what, alist in req.items():
                inst = "pursue_answer:take_strands#%d:requires:%s" % (i, what)
                if not alist:
                    ck.violation(R, inst, pb.where(n.get("ln")), "the guard of the cut does not test %s at all" % what)
                    continue
                # for EVERY assignment of the other tests: with this one false the guard must be false
                import itertools
                others = [a for a in atoms if all(a is not b_ for b_ in alist)][:10]
                r = False
                for combo in itertools.product((True, False), repeat=len(others)):
                    vals = {id(a): v_ for a, v_ in zip(others, combo)}
                    for a in alist:
                        vals[id(a)] = False
                    try:
                        r1 = bool_eval(cond, vals)
                    except _Return as e:
                        r1 = e.v
                    if r1 is not False:
                        r = r1
                        break
                if r is False:
                    ck.ok(R, inst, "the cut is impossible when %s is false" % what)
                else:
                    ck.violation(R, inst, pb.where(n.get("ln")), "with %s false (and every other test true) the guard evaluates to %s: the remaining "
                                 "strands are discarded although another answer may follow" % (what, r))
    # ------------------------------------------------------------------ SUCCESS-MEANS-ANSWER
    R = "C03.SUCCESS-MEANS-ANSWER"
    ck.rule(R, "K3: SolveState::on_no_remaining_subgoals reports NoRemainingSubgoalsResult::Success - `go on with the caller's strand under "
               "the same clock` - only behind the Some edge of pursue_answer (a *new* answer was tabled) and the Some edge of "
               "pop_and_take_caller_strand (the caller's strand was put back); when pursue_answer declines (duplicate, floundered) the "
               "quantum ends.  Going on without a new answer lets the no-eligible-strand cleanup discard live follow-up strands: later "
               "answers are lost and `NoMoreSolutions` comes early")
    nb = need_body(ck, facts, R, "chalk_engine::logic::SolveState::on_no_remaining_subgoals")
    if nb:
        from kit import guard_sites as _gs
        from core import callee_matches as _cm
        cfg = nb.cfg
        succ = sorted({b for b, j, st in cfg.agg_sites("chalk_engine::logic::NoRemainingSubgoalsResult", "Success")})
        e1 = cfg.variant_edges(lambda tr: tr.get("of", {}).get("kind") == "call" and _cm(tr["of"]["call"], "pursue_answer"), ["Some"])
        e2 = cfg.variant_edges(lambda tr: tr.get("of", {}).get("kind") == "call" and _cm(tr["of"]["call"], "pop_and_take_caller_strand"), ["Some"])
        ck.floor(R, "on_no_remaining_subgoals.Success-sites/Some-edges", min(len(succ), len(e1), len(e2)), 1)
        _gs(ck, R, nb, succ, e1, "Success", "pursue_answer(..) == Some(new answer)")
        _gs(ck, R, nb, succ, e2, "Success", "pop_and_take_caller_strand() == Some(caller)")
    R = "C03.NO-DUP"
    ck.rule(R, "K4+K3: Table.answers is mutated only in Table::push_answer (push) / mark_floundered (reset) / new; in push_answer the push "
               "happens only when `answers_hash.entry(answer.subst)` was vacant; the hash key is the whole Canonical<AnswerSubst>; "
               "answers_hash is never cleared or removed from")
    writers = {}
    for k, b in facts.bodies("chalk_engine").items():
        if b.thir is None:
            continue
        for n in walk(b.thir):
            hit = None
            if n.get("k") == "assign":
                l = peel(n["l"])
                if l.get("k") == "field" and l.get("adt") == TABLE and l["n"] in ("answers", "answers_hash"):
                    hit = (l["n"], "assign")
            if n.get("k") == "call" and n.get("args"):
                a0 = n["args"][0]
                p = a0
                if isinstance(p, dict) and p.get("k") == "ref" and p.get("m"):
                    q = peel(p)
                    if q.get("k") == "field" and q.get("adt") == TABLE and q["n"] in ("answers", "answers_hash"):
                        hit = (q["n"], (n.get("fn") or "").split("::")[-1])
            if n.get("k") == "adt" and n["adt"] == TABLE:
                hit = ("answers", "construct")
            if hit:
                writers.setdefault(k, set()).add(hit)
    allowed = {TABLE + "::push_answer": {("answers", "push"), ("answers_hash", "entry")},
               TABLE + "::mark_floundered": {("answers", "assign")},
               TABLE + "::new": {("answers", "construct")}}
    for k, hits in writers.items():
        extra = hits - allowed.get(k, set())
        if extra:
            ck.violation(R, "writer:%s" % short(k), facts.body(k).where(), "mutates the answer store outside the audited operations: %s" % sorted(extra))
        else:
            ck.ok(R, "writer:%s" % short(k), str(sorted(hits)))
    ck.floor(R, "answer-store-writers", len(writers), 3)
    pa = need_body(ck, facts, R, TABLE + "::push_answer")
    if pa:
        blk = user_block(pa.thir)
        stmts = blk.get("stmts", []) if blk.get("k") == "block" else []
        added_let = None
        guard_idx = None
        push_idx = None
        # the flag is whatever local holds the outcome of the match on `answers_hash.entry(..)` (no name assumed)
        added_name = None
        for i, st in enumerate(stmts):
            if st.get("k") == "let" and st.get("init") is not None and (st.get("pat") or {}).get("k") == "bind" and \
                    peel(st["init"]).get("k") == "match" and has_call(peel(st["init"]).get("scrut"), "HashMap::entry"):
                added_name = st["pat"].get("n")
        for i, st in enumerate(stmts):
            if st.get("k") == "let" and added_name is not None and st["pat"].get("n") == added_name:
                added_let = (i, st)
            if st.get("k") == "if" and peel(st["cond"]).get("k") == "un" and added_name is not None and var_name(peel(st["cond"])["e"]) == added_name and \
                    any(r.get("k") == "return" for r in walk(st["then"])):
                guard_idx = i
            if any(True for _ in calls(st, "Vec::push")) and mentions_field(st, "answers"):
                push_idx = i
        ok = False
        key_ok = False
        if added_let and guard_idx is not None and push_idx is not None and added_let[0] < guard_idx < push_idx:
            m = peel(added_let[1]["init"])
            if m.get("k") == "match" and has_call(m["scrut"], "HashMap::entry"):
                va = select_arms(m, V("Vacant"))
                oc = select_arms(m, V("Occupied"))
                vb = result_expr(m["arms"][va[0][0]]["body"])
                ob = result_expr(m["arms"][oc[0][0]]["body"])
                ok = vb.get("k") == "lit" and "true" in vb["v"] and ob.get("k") == "lit" and "false" in ob["v"] and \
                    has_call(m["arms"][va[0][0]]["body"], "VacantEntry::insert")
                ent = [c for c in calls(m["scrut"], "HashMap::entry")][0]
                karg = ent["args"][1]
                kc = peel(karg)
                if kc.get("k") == "call" and callee_matches(kc, "Clone::clone"):
                    kc = peel(kc["args"][0])
                from kit import params_of_type as _pot
                ans_params = _pot(pa, "chalk_engine::Answer") or {"answer"}
                key_ok = kc.get("k") == "field" and kc["n"] == "subst" and kc.get("adt") == "chalk_engine::Answer" and var_name(kc["e"]) in ans_params
        if ok:
            ck.ok(R, "push_answer:push-only-if-vacant", "added = (Vacant => true | Occupied => false); if !added return None; push")
        else:
            ck.violation(R, "push_answer:push-only-if-vacant", pa.where(), "an answer must be appended only when its hash entry was vacant")
        if key_ok:
            ck.ok(R, "push_answer:key=whole-answer-subst")
        else:
            ck.violation(R, "push_answer:key=whole-answer-subst", pa.where(), "the duplicate check must be keyed by the whole canonical answer substitution")
        # index returned is the position pushed at
        def reads_len(e_):
            # `self.answers.len()` directly, or through a Table accessor (next_answer_index) that is nothing but that
            if has_call(e_, "Vec::len") and mentions_field(e_, "answers"):
                return True
            for c_ in calls(e_):
                hb_ = facts.body(c_.get("res") or c_.get("fn") or "")
                if hb_ is not None and hb_.thir is not None and "Table::" in hb_.key and has_call(hb_.thir, "Vec::len") and \
                        mentions_field(hb_.thir, "answers") and not mutated_self_fields(hb_.thir, "Table"):
                    return True
            return False
        from kit import mutated_self_fields
        lens = [n for n in walk(pa.thir) if n.get("k") == "let" and n.get("init") is not None and reads_len(n["init"])]
        if lens:
            ck.ok(R, "push_answer:index=len-before-push")
        else:
            ck.violation(R, "push_answer:index=len-before-push", pa.where(), "returned AnswerIndex must be the vector length before the push")

    R = "C03.INDEX-MONOTONE"
    ck.rule(R, "K3: ForestSolver::next_answer = peek_answer then exactly one self.answer.increment(); peek_answer increments only in the "
               "InvalidAnswer arm")
    FS = "<chalk_engine::forest::ForestSolver as chalk_engine::context::AnswerStream>::"
    na = need_body(ck, facts, R, FS + "next_answer")
    if na:
        incs = [c for c in calls(na.thir, "AnswerIndex::increment")]
        peeks = [c for c in calls(na.thir, "peek_answer")]
        n = dominated_by_calls(ck, R, na, "AnswerIndex::increment", "peek_answer", "answer.increment()", "peek_answer()")
        if len(incs) == 1 and len(peeks) == 1 and not [x for x in walk(na.thir) if x.get("k") in ("loop", "if", "match")]:
            ck.ok(R, "next_answer:exactly-one-increment")
        else:
            ck.violation(R, "next_answer:exactly-one-increment", na.where(), "next_answer must be `peek; increment once; return`")
    pk = need_body(ck, facts, R, FS + "peek_answer")
    if pk:
        # the match on what root_answer returned - on the call itself or on a local it was bound to
        ms = [m for m in walk(pk.thir) if m.get("k") == "match" and (has_call(m["scrut"], "root_answer") or
                                                                     ("Result<" in m.get("sty", "") and "RootSearchFail" in m.get("sty", "")))]
        if len(ms) != 1:
            ck.violation(R, "peek_answer:match", pk.where(), "expected the match on root_answer(..)")
        else:
            bad = []
            for arm in ms[0]["arms"]:
                inc = has_call(arm["body"], "AnswerIndex::increment")
                is_invalid = any(x.get("k") == "variant" and x.get("v") == "InvalidAnswer" for x in walk_pat(arm["pat"]))
                if inc != is_invalid:
                    bad.append(arm["ln"])
            if not bad:
                ck.ok(R, "peek_answer:increment-only-on-InvalidAnswer")
            else:
                ck.violation(R, "peek_answer:increment-only-on-InvalidAnswer", pk.where(bad[0]), "peek must not advance past valid answers")
            ok_arm = select_arms(ms[0], V("Ok"))
            e = result_expr(ms[0]["arms"][ok_arm[0][0]]["body"])

    R = "C03.FLAG-SOURCE"
    ck.rule(R, "dataflow: in SLGSolver::solve_multiple the callback's second argument is `!answers.peek_answer(..).is_no_more_solutions()`, "
               "computed after next_answer() of the same iteration")
    sm = need_body(ck, facts, R, "<chalk_engine::solve::SLGSolver as chalk_solve::solve::Solver>::solve_multiple")
    if sm:
        th = sm.thir
        cb = [c for c in walk(th) if c.get("k") == "call" and c.get("fnptr") or (c.get("k") == "call" and "FnMut::call_mut" in (c.get("fn") or ""))]
        cbs = [c for c in walk(th) if c.get("k") == "call" and (c.get("fnty") or c.get("fnptr") or "call_mut" in (c.get("fn") or ""))]
        ok = False
        for c in cbs:
            args = c["args"]
            flat = args[1]["es"] if len(args) == 2 and peel(args[1]).get("k") == "tuple" else args
            flat = peel(args[1])["es"] if len(args) == 2 and peel(args[1]).get("k") == "tuple" else args[-2:]
            flag = peel(flat[-1])
            if flag.get("k") == "un" and flag["op"] == "Not":
                inner = peel(flag["e"])
                if inner.get("k") == "call" and callee_matches(inner, "AnswerResult::is_no_more_solutions") and has_call(inner, "peek_answer"):
                    ok = True
        dom = dominated_by_calls(ck, R, sm, "peek_answer", "next_answer", "peek_answer (look-ahead)", "next_answer")
        if ok and dom:
            ck.ok(R, "solve_multiple:flag=!peek.is_no_more_solutions()")
        else:
            ck.violation(R, "solve_multiple:flag=!peek.is_no_more_solutions()", sm.where(),
                         "the `more` flag must come from a look-ahead peek taken after the current answer")

    strand_rules(ck, facts)


def walk_pat(p):
    if isinstance(p, dict):
        yield p
        for k in ("sub", "pats"):
            v = p.get(k)
            if isinstance(v, list):
                for x in v:
                    if isinstance(x, list):
                        yield from walk_pat(x[2])
                    else:
                        yield from walk_pat(x)
            elif isinstance(v, dict):
                yield from walk_pat(v)


STRAND_TY = re.compile(r"(chalk_engine::strand::Strand<|chalk_ir::Canonical<chalk_engine::strand::Strand<)")
SS = "chalk_engine::logic::SolveState::"
CONSERVING = ("Table::enqueue_strand", SS + "on_coinductive_subgoal", SS + "on_positive_cycle", SS + "pursue_answer",
              SS + "on_subgoal_selected", SS + "on_no_remaining_subgoals")


def strand_sinks(body):
    """blocks that hand a strand on: a conserving call receiving a moved strand, or a write to StackEntry.active_strand"""
    cfg = body.cfg
    loc = body.cfg.locals
    out = set()
    for i, blk in enumerate(cfg.blocks):
        t = blk["t"]
        if t["k"] == "call" and callee_matches(t, CONSERVING):
            if any(isinstance(a, dict) and "m" in a and STRAND_TY.search(loc[a["m"]["l"]]) for a in t.get("a", [])):
                out.add(i)
    for i, j, st in cfg.field_writes("chalk_engine::stack::StackEntry.active_strand"):
        out.add(i)
    return out


def strand_rules(ck, facts):
    R = "C03.STRAND-CONSERVED"
    ck.rule(R, "K3 must-pass-through: in on_coinductive_subgoal / on_positive_cycle / on_subgoal_selected / on_no_remaining_subgoals (strand "
               "received by value) and in ensure_root_answer (strand taken from the table), every path to a normal return - and, in "
               "ensure_root_answer, back to the loop head - passes a conserving sink: Table::enqueue_strand(strand), "
               "StackEntry.active_strand = Some(strand), or the next step taking the strand by value (pursue_answer turns it into an "
               "answer).  Audited discard: the Err edge of merge_answer_into_strand (the answer does not unify: the derivation failed)")
    AUDITED = {"on_subgoal_selected": ("merge_answer_into_strand", ["Err"])}
    for fn in ("on_coinductive_subgoal", "on_positive_cycle", "on_subgoal_selected", "on_no_remaining_subgoals"):
        b = need_body(ck, facts, R, SS + fn)
        if not b:
            continue
        cfg = b.cfg
        if not STRAND_TY.search(b.mir["locals"][2]):
            ck.violation(R, "missing-anchor:%s:by-value-strand" % fn, b.where(), "second parameter is no longer a strand taken by value")
            continue
        sinks = strand_sinks(b)
        removed = []
        if fn in AUDITED:
            callee, vs = AUDITED[fn]
            removed = cfg.variant_edges(lambda tr: trace_is_call(callee)(tr.get("of") or {}), vs)
            ck.floor(R, "%s.audited-discard-edge(%s)" % (fn, callee), len(removed), 1)
        ck.floor(R, "%s.sinks" % fn, len(sinks), 1)
        reach = cfg.reachable(0, removed, False, stop=sinks)
        esc = [r for r in cfg.return_blocks() if r in reach and r not in sinks]
        if esc:
            ck.violation(R, "%s:strand-discarded" % fn, b.where(),
                         "a path from entry to the return (bb%s) hands the strand to no table, no active_strand slot and no later step: the "
                         "derivation is dropped although it has not failed, so answers that depend on it are never produced" % esc[:2])
        else:
            ck.ok(R, "%s:strand-conserved" % fn, "%d sink block(s), %d audited discard edge(s)" % (len(sinks), len(removed)))
    b = need_body(ck, facts, R, SS + "ensure_root_answer")
    if b:
        cfg = b.cfg
        sel = cfg.call_blocks(SS + "select_subgoal")
        head = cfg.call_blocks("Option::take")
        sinks = strand_sinks(b)
        ck.floor(R, "ensure_root_answer.select_subgoal/sinks/loop-head", min(len(sel), len(sinks), len(head)), 1)
        if sel and sinks and head:
            start = cfg.blocks[sel[0]]["t"].get("t")
            reach = cfg.reachable(start, (), False, stop=sinks)
            esc = [r for r in list(cfg.return_blocks()) + head if r in reach and r not in sinks]
            if esc:
                ck.violation(R, "ensure_root_answer:strand-discarded", b.where(), "after select_subgoal a path reaches %s without handing the strand on" % esc[:2])
            else:
                ck.ok(R, "ensure_root_answer:strand-conserved")

    R = "C03.NEXT-ANSWER"
    ck.rule(R, "K3: in merge_answer_into_strand, on the path where the selected literal is Positive and the answer is not the trivial "
               "substitution, a strand whose answer_index was incremented is enqueued (Table::enqueue_strand) before the answer is merged; "
               "the only ways around that enqueue are the Negative-literal edge, the is_trivial_substitution==true edge and the early "
               "ambiguous-answer return")
    b = need_body(ck, facts, R, SS + "merge_answer_into_strand")
    if b:
        cfg = b.cfg
        enq = cfg.call_blocks("Table::enqueue_strand")
        inc = cfg.call_blocks("AnswerIndex::increment")
        merge = cfg.call_blocks(("apply_answer_subst", "AnswerSubstitutor::substitute", "resolvent::apply_answer_subst"))
        triv = cfg.bool_edges(trace_is_call("is_trivial_substitution"), True)
        ck.floor(R, "merge_answer_into_strand.enqueue/increment/merge/trivial-edge", min(len(enq), len(inc), len(merge), len(triv)), 1)
        if enq and inc and merge and triv:
            ok_inc = all(cfg.must_pass_blocks(e, inc) for e in enq)
            # literal-kind edges: switch on Literal discriminant -> Negative
            neg = cfg.variant_edges(lambda tr: str(tr.get("adt", "")).endswith("Literal"), ["Negative"])
            removed = list(triv) + list(neg)
            bypass = [m for m in merge if m in cfg.reachable(0, removed, False, stop=set(enq))]
            if not ok_inc:
                ck.violation(R, "merge_answer_into_strand:next-strand-has-next-index", b.where(), "the re-enqueued strand does not ask for the next answer index")
            elif bypass:
                ck.violation(R, "merge_answer_into_strand:next-strand-enqueued", b.where(),
                             "a positive, non-trivial answer can be merged (bb%s) without first enqueueing the strand for the next answer: later "
                             "answers of the subgoal are never combined with this strand" % bypass[:2])
            else:
                ck.ok(R, "merge_answer_into_strand:next-strand-enqueued", "enqueue dominated by answer_index.increment(); bypass only via Negative / trivial edges")
