"""C26 - type flags summarize a type's contents accurately.

Decided (the whole computation is a finite set of tables):
  COVERAGE   every term-carrying field of every TyKind / WhereClause / AliasTy / const is consumed by a flag-producing expression
  OWN        leaf kinds contribute exactly their own flag constants (spec table); composite kinds contribute none of their own
  SIBLING    the const-value table in the Array arm equals the one in GenericArg::compute_flags
  CONSTRUCT  TyData.flags is only ever built from compute_flags of the same kind
`STILL_FURTHER_SPECIALIZABLE` is ignored, as the property says."""
import re
from core import enum_matches, select_arms, V, walk, calls, peel, callee_matches, var_name, expr_vars, pat_bindings
from kit import need_body, has_call, short, mentions_field, result_expr

TERM_TYPES = re.compile(r"chalk_ir::(Ty|Substitution|Lifetime|Const|AliasTy|DynTy|FnPointer|FnSubst|GenericArg|ProjectionTy|OpaqueTy)<")
IGNORED_FLAGS = {"STILL_FURTHER_SPECIALIZABLE"}

TY_OWN = {"InferenceVar": {"HAS_TY_INFER"}, "Placeholder": {"HAS_TY_PLACEHOLDER"}, "Error": {"HAS_ERROR"},
          # the array length is a const whose leaf flags are computed inline in the Array arm (see C26.SIBLING)
          "Array": {"HAS_CT_INFER", "HAS_CT_PLACEHOLDER"}}
LT_OWN = {
    "InferenceVar": {"HAS_RE_INFER", "HAS_FREE_LOCAL_REGIONS", "HAS_FREE_REGIONS"},
    "Placeholder": {"HAS_RE_PLACEHOLDER", "HAS_FREE_LOCAL_REGIONS", "HAS_FREE_REGIONS"},
    "Static": {"HAS_FREE_REGIONS"},
    "Phantom": set(),
    "BoundVar": {"HAS_RE_LATE_BOUND"},
    "Erased": {"HAS_RE_ERASED"},
    "Error": {"HAS_RE_ERROR"},
}
CT_OWN = {"BoundVar": set(), "Concrete": set(), "InferenceVar": {"HAS_CT_INFER"}, "Placeholder": {"HAS_CT_PLACEHOLDER"}}
ALIAS_OWN = {"Projection": {"HAS_TY_PROJECTION"}, "Opaque": {"HAS_TY_OPAQUE"}}


def flag_consts(node):
    out = set()
    for n in walk(node):
        if n.get("k") == "const" and n.get("def", "").startswith("chalk_ir::TypeFlags::"):
            out.add(n["def"].split("::")[-1])
    return out - IGNORED_FLAGS


def flag_sources(node):
    """Variables / fields whose flags flow into the result: receivers of compute_flags(..) and of `.data(..).flags`."""
    used = set()
    fields = set()
    for n in walk(node):
        if n.get("k") == "call" and n.get("fn", "").endswith("compute_flags"):
            used |= expr_vars(n["args"][0])
            fields |= {x["n"] for x in walk(n["args"][0]) if x.get("k") == "field"}
        if n.get("k") == "field" and n["n"] == "flags":
            used |= expr_vars(n["e"])
            fields |= {x["n"] for x in walk(n["e"]) if x.get("k") == "field"}
        if n.get("k") == "match" and n.get("src", "").startswith("Normal"):
            used |= expr_vars(n["scrut"])
    # propagate through `let x = <expr>`: if x feeds the flags, so does everything x was computed from
    changed = True
    while changed:
        changed = False
        for n in walk(node):
            if n.get("k") == "let" and n.get("init") is not None:
                names = {b for b, _ in pat_bindings(n["pat"])}
                if names & used:
                    new = expr_vars(n["init"]) - used
                    if new:
                        used |= new
                        changed = True
    return used, fields


def adt_variant_fields(facts, adt, variant):
    a = facts.adt(adt)
    for v in a["variants"]:
        if v["n"] == variant:
            return v["fields"]
    return []


def bound_fields(pat, variant):
    """field index -> binding name (None for wildcard) in the first alternative mentioning `variant`."""
    def go(p):
        if p.get("k") == "variant" and p.get("v") == variant:
            return {idx: (sp.get("n") if sp.get("k") == "bind" else None) for idx, _n, sp in p.get("sub", [])}
        if p.get("k") == "or":
            for alt in p["pats"]:
                r = go(alt)
                if r is not None:
                    return r
        return None
    return go(pat)


def own_table(ck, R, body, match, adt_variants, spec, what, default_empty=True):
    n = 0
    for v in adt_variants:
        arms = select_arms(match, V(v))
        inst = "%s::%s" % (what, v)
        if len(arms) != 1 or arms[0][1] != "yes":
            ck.violation(R, inst, body.where(), "no unique arm")
            continue
        arm = match["arms"][arms[0][0]]
        # `unreachable!()` arms carry no flags
        got = flag_consts(arm["body"])
        want = spec.get(v, set() if default_empty else None)
        n += 1
        if want is None:
            continue
        if got == want:
            ck.ok(R, inst, "own flags %s" % sorted(got))
        else:
            ck.violation(R, inst, body.where(arm["ln"]), "contributes own flags %s, the property requires exactly %s" % (sorted(got), sorted(want)))
    return n


def through_helper(body, bf):
    """An arm that only hands its fields to a single-use helper (`TyKind::Dyn(d) => Self::dyn_flags(d, interner)`): continue in the
    helper's body (spliced by Facts.thir under `inl`), with the bound names renamed to the helper's parameters."""
    e = peel(result_expr(body))
    if isinstance(e, dict) and e.get("k") == "call" and isinstance(e.get("inl"), dict):
        params = [p.get("n") if isinstance(p, dict) else None for p in (e["inl"].get("params") or [])]
        ren = {}
        for a, pn in zip(e.get("args", []), params):
            if var_name(a) and pn:
                ren[var_name(a)] = pn
        return e["inl"]["body"], {i: ren.get(n, n) for i, n in (bf or {}).items()}
    return body, bf


def run(ck, facts, tier):
    tk = need_body(ck, facts, "C26.COVERAGE", "chalk_ir::TyKind::compute_flags")
    if not tk:
        return
    ms = enum_matches(facts.thir("chalk_ir::TyKind::compute_flags"), "chalk_ir::TyKind")
    if len(ms) != 1:
        ck.violation("C26.COVERAGE", "TyKind::compute_flags:match", tk.where(), "expected one match on TyKind")
        return
    m = ms[0]
    variants = facts.variants("chalk_ir::TyKind")

    R = "C26.COVERAGE"
    ck.rule(R, "K2: in every compute_flags arm each field whose type can contain a type, lifetime or const is bound and consumed by a "
               "flag-producing expression (compute_flags(..) or .data(..).flags); wildcards only on id/scalar/index fields")
    n = 0
    for v in variants:
        arms = select_arms(m, V(v))
        if len(arms) != 1 or arms[0][1] != "yes":
            ck.violation(R, "TyKind::%s" % v, tk.where(), "no unique arm")
            continue
        arm = m["arms"][arms[0][0]]
        bf = bound_fields(arm["pat"], v) or {}
        abody, bf = through_helper(arm["body"], bf)
        used, used_fields = flag_sources(abody)
        for idx, fld in enumerate(adt_variant_fields(facts, "chalk_ir::TyKind", v)):
            if not TERM_TYPES.search(fld["ty"]):
                continue
            n += 1
            inst = "TyKind::%s.%d" % (v, idx)
            name = bf.get(idx)
            if name and name in used:
                ck.ok(R, inst, "`%s` consumed" % name)
            else:
                ck.violation(R, inst, tk.where(arm["ln"]), "field %d (%s) of TyKind::%s does not contribute to the flags: unknowns, "
                             "placeholders or errors inside it would be invisible" % (idx, fld["ty"], v))
    ck.floor(R, "term-fields", n, 17)
    # Dyn: every WhereClause variant and each term field of its payload
    arm = m["arms"][select_arms(m, V("Dyn"))[0][0]]
    dyn_body, _bf = through_helper(arm["body"], {})
    wm = enum_matches(dyn_body, "chalk_ir::WhereClause")
    _, dyn_fields = flag_sources(dyn_body)
    if len(wm) != 1:
        ck.violation(R, "TyKind::Dyn:where-clause-match", tk.where(arm["ln"]), "expected a match over WhereClause in the Dyn arm")
    else:
        payload = {"Implemented": ("chalk_ir::TraitRef", None), "AliasEq": ("chalk_ir::AliasEq", None),
                   "LifetimeOutlives": ("chalk_ir::LifetimeOutlives", None), "TypeOutlives": ("chalk_ir::TypeOutlives", None)}
        for v in facts.variants("chalk_ir::WhereClause"):
            wa = select_arms(wm[0], V(v))
            if len(wa) != 1 or wa[0][1] != "yes":
                ck.violation(R, "Dyn:WhereClause::%s" % v, tk.where(), "no unique arm")
                continue
            warm = wm[0]["arms"][wa[0][0]]
            _, wf = flag_sources(warm["body"])
            st = facts.adt(payload.get(v, (None,))[0]) if v in payload else None
            if st is None:
                ck.violation(R, "Dyn:WhereClause::%s" % v, tk.where(warm["ln"]), "unknown WhereClause variant; extend the rule deliberately")
                continue
            for fld in st["variants"][0]["fields"]:
                if not TERM_TYPES.search(fld["ty"]):
                    continue
                inst = "Dyn:WhereClause::%s.%s" % (v, fld["n"])
                if fld["n"] in wf:
                    ck.ok(R, inst, "consumed")
                else:
                    ck.violation(R, inst, tk.where(warm["ln"]), "`%s.%s` does not contribute to a dyn type's flags" % (v, fld["n"]))
        for f in ("lifetime", "bounds"):
            if mentions_field(arm["body"], f):
                ck.ok(R, "Dyn:DynTy.%s" % f)
            else:
                ck.violation(R, "Dyn:DynTy.%s" % f, tk.where(arm["ln"]), "DynTy.%s is not read" % f)
    # Array: element, const type, const value
    arm = m["arms"][select_arms(m, V("Array"))[0][0]]
    cm = enum_matches(arm["body"], "chalk_ir::ConstValue")
    if len(cm) == 1 and mentions_field(arm["body"], "ty") and mentions_field(arm["body"], "value"):
        ck.ok(R, "Array:const-type-and-value")
    else:
        ck.violation(R, "Array:const-type-and-value", tk.where(arm["ln"]), "array flags must include the length const's type and value")

    # ------------------------------------------------------------------ OWN
    R = "C26.OWN"
    ck.rule(R, "K1 vs spec: leaf kinds contribute exactly their own flags (InferenceVar->HAS_TY_INFER, Placeholder->HAS_TY_PLACEHOLDER, "
               "Error->HAS_ERROR, alias/lifetime/const leaves likewise); every other kind contributes none of its own")
    n = own_table(ck, R, tk, m, variants, TY_OWN, "TyKind")
    lt = need_body(ck, facts, R, "chalk_ir::Lifetime::compute_flags")
    if lt:
        lm = enum_matches(facts.thir(lt.key), "chalk_ir::LifetimeData")
        if len(lm) == 1:
            n += own_table(ck, R, lt, lm[0], facts.variants("chalk_ir::LifetimeData"), LT_OWN, "LifetimeData", default_empty=False)
            for v in facts.variants("chalk_ir::LifetimeData"):
                if v not in LT_OWN:
                    ck.violation(R, "LifetimeData::%s" % v, lt.where(), "lifetime kind not in the spec table; extend it deliberately")
        else:
            ck.violation(R, "Lifetime::compute_flags:match", lt.where(), "expected one match on LifetimeData")
    al = need_body(ck, facts, R, "chalk_ir::AliasTy::compute_flags")
    if al:
        am = enum_matches(facts.thir(al.key), "chalk_ir::AliasTy")
        if len(am) == 1:
            n += own_table(ck, R, al, am[0], facts.variants("chalk_ir::AliasTy"), ALIAS_OWN, "AliasTy", default_empty=False)
            for v in facts.variants("chalk_ir::AliasTy"):
                arm = am[0]["arms"][select_arms(am[0], V(v))[0][0]]
                used, flds = flag_sources(arm["body"])
                if "substitution" in flds:
                    ck.ok("C26.COVERAGE", "AliasTy::%s.substitution" % v)
                else:
                    ck.violation("C26.COVERAGE", "AliasTy::%s.substitution" % v, al.where(arm["ln"]), "alias substitution does not contribute")
        else:
            ck.violation(R, "AliasTy::compute_flags:match", al.where(), "expected one match on AliasTy")
    ga = need_body(ck, facts, R, "chalk_ir::GenericArg::compute_flags")
    tables = {}
    if ga:
        gm = enum_matches(facts.thir(ga.key), "chalk_ir::GenericArgData")
        cms = enum_matches(facts.thir(ga.key), "chalk_ir::ConstValue")
        if len(gm) == 1 and len(cms) == 1:
            n += own_table(ck, R, ga, cms[0], facts.variants("chalk_ir::ConstValue"), CT_OWN, "GenericArg:ConstValue", default_empty=False)
            tables["generic"] = {v: flag_consts(cms[0]["arms"][select_arms(cms[0], V(v))[0][0]]["body"]) for v in facts.variants("chalk_ir::ConstValue")}
            # kinds: Ty -> .flags, Lifetime -> compute_flags, Const -> type flags in every arm
            for v, need in (("Ty", "flags"), ("Lifetime", "compute_flags"), ("Const", "flags")):
                arm = gm[0]["arms"][select_arms(gm[0], V(v))[0][0]]
                okk = mentions_field(arm["body"], "flags") if need == "flags" else has_call(arm["body"], "compute_flags")
                if okk:
                    ck.ok("C26.COVERAGE", "GenericArgData::%s" % v)
                else:
                    ck.violation("C26.COVERAGE", "GenericArgData::%s" % v, ga.where(arm["ln"]), "generic argument of this kind contributes nothing")
            for v in facts.variants("chalk_ir::ConstValue"):
                arm = cms[0]["arms"][select_arms(cms[0], V(v))[0][0]]
                if "flags" in expr_vars(arm["body"]):
                    ck.ok("C26.COVERAGE", "GenericArg:ConstValue::%s:includes-type-flags" % v)
                else:
                    ck.violation("C26.COVERAGE", "GenericArg:ConstValue::%s:includes-type-flags" % v, ga.where(arm["ln"]),
                                 "the const's type flags are dropped in this arm")
        else:
            ck.violation(R, "GenericArg::compute_flags:matches", ga.where(), "expected matches on GenericArgData and ConstValue")
    arm = m["arms"][select_arms(m, V("Array"))[0][0]]
    cm = enum_matches(arm["body"], "chalk_ir::ConstValue")
    if len(cm) == 1:
        n += own_table(ck, R, tk, cm[0], facts.variants("chalk_ir::ConstValue"), CT_OWN, "Array:ConstValue", default_empty=False)
        tables["array"] = {v: flag_consts(cm[0]["arms"][select_arms(cm[0], V(v))[0][0]]["body"]) for v in facts.variants("chalk_ir::ConstValue")}
    ck.floor(R, "cells", n, 23 + 7 + 2 + 4 + 4)

    R = "C26.SIBLING"
    ck.rule(R, "K5: the const-value flag table inside the Array arm equals the one in GenericArg::compute_flags")
    if "array" in tables and "generic" in tables:
        for v in tables["array"]:
            if tables["array"][v] == tables["generic"].get(v):
                ck.ok(R, "ConstValue::%s" % v, str(sorted(tables["array"][v])))
            else:
                ck.violation(R, "ConstValue::%s" % v, tk.where(), "Array arm gives %s, GenericArg gives %s" % (
                    sorted(tables["array"][v]), sorted(tables["generic"].get(v, []))))
    else:
        ck.violation(R, "tables", tk.where(), "could not extract both const tables")

    R = "C26.SUBST"
    ck.rule(R, "K2: Substitution::compute_flags ORs the flags of every generic argument (no early exit, no narrowing)")
    sb = need_body(ck, facts, R, "chalk_ir::Substitution::compute_flags")
    if sb:
        sth = facts.thir("chalk_ir::Substitution::compute_flags")          # closures spliced in (`fold(empty, |f, a| f | a.compute_flags())`)
        ors = [x for x in walk(sth) if x.get("k") == "assignop" and x["op"] == "BitOrAssign" and has_call(x["r"], "compute_flags")]
        ors += [x for x in walk(sth) if x.get("k") == "call" and callee_matches(x, ("BitOrAssign::bitor_assign", "BitOr::bitor")) and has_call(x, "compute_flags")]
        ors += [x for x in walk(sth) if x.get("k") == "bin" and x.get("op") == "BitOr" and has_call(x, "compute_flags")]
        from kit import DROP_ADAPTORS
        narrowing = [c for c in calls(sth) if str(c.get("fn", "")).split("::")[-1] in DROP_ADAPTORS and "Iterator" in str(c.get("fn", ""))]
        from kit import user_block
        rets = [x for x in walk(user_block(sth)) if x.get("k") == "return"]
        if ors and has_call(sb.thir, "iter") and not narrowing and not rets:
            ck.ok(R, "Substitution::compute_flags", "flags |= arg.compute_flags() for every arg")
        else:
            ck.violation(R, "Substitution::compute_flags", sb.where(), "must OR every argument's flags (or=%d narrowing=%d early-return=%d)" % (
                len(ors), len(narrowing), len(rets)))

    R = "C26.CONSTRUCT"
    ck.rule(R, "K4: every construction of TyData initialises `flags` with compute_flags of the same `kind`, and no other code assigns TyData.flags")
    n = 0
    for crate in ("chalk_ir", "chalk_solve", "chalk_engine", "chalk_recursive", "chalk_integration", "chalk"):
        if not facts.has_crate(crate):
            continue
        for k, b in facts.bodies(crate).items():
            if b.thir is None or (b.d.get("x") and "derive" in b.d["x"]):
                continue
            for x in walk(b.thir):
                if x.get("k") == "adt" and x["adt"] == "chalk_ir::TyData":
                    n += 1
                    f = dict((a, bb) for a, bb in x["fields"])
                    kind_var = var_name(f.get("kind"))
                    fl = f.get("flags")
                    okc = False
                    if fl is not None:
                        src = fl
                        v = var_name(fl)
                        if v:
                            # find `let v = <init>` in this body
                            for st in walk(b.thir):
                                if st.get("k") == "let" and st["pat"].get("n") == v and st.get("init") is not None:
                                    src = st["init"]
                        cs = [c for c in calls(src, "TyKind::compute_flags")]
                        okc = bool(cs) and kind_var is not None and kind_var in expr_vars(cs[0]["args"][0])
                    inst = "%s:TyData{..}" % short(k)
                    if okc:
                        ck.ok(R, inst, "flags = kind.compute_flags()")
                    else:
                        ck.violation(R, inst, b.where(x.get("ln")), "TyData built with flags that are not compute_flags of its own kind")
            for i, j, st in b.cfg.field_writes("chalk_ir::TyData.flags"):
                # aggregate construction is not a field write; any explicit assignment is suspicious
                ck.violation(R, "%s:assigns-TyData.flags" % short(k), b.where(), "direct assignment to TyData.flags")
    ck.floor(R, "constructions", n, 1)
