"""C29 - subtyping follows declared variance.

Decided:
  ALGEBRA       Variance::xform / invert are the composition / inversion tables
  POSITIONS     the variance at which relate_ty_ty (and the Zip impls it delegates to) relates every component of every
                constructor: &T co, &mut T / *mut T invariant, *const T co, tuples co, slices/arrays ambient, fn pointers
                contra in parameters / ambient in the return type, dyn bounds invariant, ADT / fn-def parameters by declared
                variance through zip_substs, everything else invariant
  REF-LIFETIME  evaluating the Ref lifetime position through push_lifetime_outlives_goals yields `'a: 'b` for &'a T <: &'b T
  SIBLING       generalize_ty uses the same component variances as relate_ty_ty
  BOTH-VARS     both engines refuse (flounder / cannot-prove) a subtype goal between two general inference variables
Not decided: equivalence of the returned lifetime requirements for *declared* lifetime parameters (convention ambiguous, see DESIGN)."""
from core import enum_matches, select_arms, V, T, walk, calls, peel, callee_matches, var_name, expr_vars
from kit import need_body, has_call, short, result_expr, mentions_field
from props.c15 import pair_match

UNI = "chalk_solve::infer::unify::Unifier"
VAR = "chalk_ir::Variance"
NAMES = {"Invariant": "Inv", "Covariant": "Co", "Contravariant": "Contra"}


FACTS = None
AMBIENT = {"variance", "ambient"}


def compose(a, b):
    if a == "Inv" or b == "Inv":
        return "Inv"
    if b == "Co":
        return a
    return {"Co": "Contra", "Contra": "Co"}[a]


def variance_of(expr, lets):
    """Render a variance-valued expression: 'amb', 'amb*Co', 'amb*mut(Co|Inv)', 'Co', ..."""
    e = peel(expr)
    if not isinstance(e, dict):
        return "?"
    k = e.get("k")
    if k == "adt" and e.get("adt") == VAR:
        return NAMES[e["v"]]
    if k == "var":
        if e["n"] in AMBIENT:
            return "amb"
        if e["n"] in lets:
            if isinstance(lets[e["n"]], tuple):
                return "?proj:" + e["n"]
            return variance_of(lets[e["n"]], lets)
        return "?" + e["n"]
    if k == "call" and callee_matches(e, VAR + "::xform"):
        return "%s*%s" % (variance_of(e["args"][0], lets), variance_of(e["args"][1], lets))
    if k == "call" and callee_matches(e, VAR + "::invert"):
        return "inv(%s)" % variance_of(e["args"][0], lets)
    if k == "match" and "Mutability" in e.get("sty", ""):
        res = {}
        for v in ("Not", "Mut"):
            a = select_arms(e, V(v))
            res[v] = variance_of(e["arms"][a[0][0]]["body"], lets)
        return "mut(%s|%s)" % (res["Not"], res["Mut"])
    if k == "block":
        return variance_of(result_expr(e), lets)
    if k == "call" and FACTS is not None:
        # a small helper of the workspace that computes a variance (e.g. from a mutability): look into it (one level)
        for name in (e.get("res"), e.get("fn")):
            hb = FACTS.body(name) if name else None
            if hb is not None and hb.thir is not None and str(hb.d.get("ret", "")).endswith("Variance") and "{" not in name:
                from kit import user_block
                inner = variance_of(result_expr(user_block(hb.thir)), lets_of(hb.thir))
                if not inner.startswith("?"):
                    return inner
    return "?"


def lets_of(node):
    out = {}
    for st in walk(node):
        if st.get("k") == "let" and st.get("init") is not None and st["pat"].get("k") == "bind":
            out[st["pat"]["n"]] = st["init"]
        elif st.get("k") == "let" and st.get("init") is not None and st["pat"].get("k") == "leaf" and st["pat"].get("sub"):
            # `let (a, b) = helper(..)`: component i of the tuple the initializer evaluates to
            for idx, _nm, sp in st["pat"]["sub"]:
                if isinstance(sp, dict) and sp.get("k") == "bind" and sp.get("n"):
                    out[sp["n"]] = ("proj", st["init"], idx)
    return out


def _flip(v):
    return {"Co": "Contra", "Contra": "Co", "Inv": "Inv"}[v]


def sem(expr, lets, env, depth=0):
    """Value of a variance-valued expression for one ambient variance and one mutability (env = {"amb", "mut", params..}): "Co" /
    "Contra" / "Inv", a list for a tuple, None when unknown.  xform / invert are taken by their meaning (rule ALGEBRA checks that the
    two functions have it); helpers of the workspace are entered."""
    if depth > 8:
        return None
    if isinstance(expr, tuple) and expr and expr[0] == "proj":
        t = sem(expr[1], lets, env, depth + 1)
        return t[expr[2]] if isinstance(t, list) and expr[2] < len(t) else None
    e = peel(expr)
    if not isinstance(e, dict):
        return None
    k = e.get("k")
    if k == "adt" and e.get("adt") == VAR:
        return NAMES[e["v"]]
    if k == "var":
        n_ = e["n"]
        if n_ in env:
            return env[n_]
        if n_ in lets:
            return sem(lets[n_], lets, env, depth + 1)
        if n_ in AMBIENT:
            return env.get("amb")
        return None
    if k == "tuple":
        return [sem(x, lets, env, depth + 1) for x in e.get("es", [])]
    if k == "block":
        return sem(result_expr(e), lets, env, depth + 1)
    if k == "match" and "Mutability" in e.get("sty", ""):
        a = select_arms(e, V(env.get("mut")))
        return sem(e["arms"][a[0][0]]["body"], lets, env, depth + 1) if a else None
    if k == "call" and callee_matches(e, VAR + "::xform"):
        a, b = sem(e["args"][0], lets, env, depth + 1), sem(e["args"][1], lets, env, depth + 1)
        if a is None or b is None or isinstance(a, list) or isinstance(b, list):
            return None
        return compose(a, b)
    if k == "call" and callee_matches(e, VAR + "::invert"):
        a = sem(e["args"][0], lets, env, depth + 1)
        return _flip(a) if isinstance(a, str) else None
    if k == "call" and FACTS is not None:
        for name in (e.get("res"), e.get("fn")):
            hb = FACTS.body(name) if name else None
            if hb is None or hb.thir is None or "{" in name:
                continue
            from kit import user_block
            env2 = {"mut": env.get("mut")}
            params = [p_ for p_ in (hb.d.get("thir_params") or []) if isinstance(p_, dict)]
            for p_, a_ in zip(params, e.get("args", [])):
                if p_.get("k") != "bind" or not p_.get("n"):
                    continue
                if "Mutability" in str(p_.get("ty", "")):
                    continue        # decided by env["mut"] (the arm has already required both mutabilities to be equal)
                v_ = sem(a_, lets, env, depth + 1)
                if v_ is not None:
                    env2[p_["n"]] = v_
            r = sem(result_expr(user_block(hb.thir)), lets_of(hb.thir), env2, depth + 1)
            if r is not None:
                return r
    return None


CANON = {
    "amb": lambda a, m: a,
    "amb*Contra": lambda a, m: compose(a, "Contra"),
    "amb*mut(Co|Inv)": lambda a, m: a if m == "Not" else "Inv",
    "amb*Inv": lambda a, m: "Inv",
    "inv(amb)": lambda a, m: _flip(a),
}


def by_meaning(expr, lets):
    """canonical name of a variance expression the syntactic rendering could not name, from its value table over all ambient
    variances and mutabilities; None when a cell is unknown or no canonical form has that table"""
    table = {}
    for a in ("Co", "Contra", "Inv"):
        for m in ("Not", "Mut"):
            v = sem(expr, lets, {"amb": a, "mut": m})
            if not isinstance(v, str):
                return None
            table[(a, m)] = v
    for name, f in CANON.items():
        if all(f(a, m) == v for (a, m), v in table.items()):
            return name
    return None


def zip_calls(body, sv):
    """[(component label, variance string)] for every Zip::zip_with / zip_substs call in an arm body."""
    lets = lets_of(body)
    out = []
    for c in calls(body):
        fn = c.get("fn") or ""
        if fn.endswith("Zip::zip_with"):
            comp = sorted({sv.get(v, (None, v))[1] for v in (expr_vars(c["args"][2]) | expr_vars(c["args"][3])) if v in sv}, key=str)
            vv = variance_of(c["args"][1], lets)
            if "?" in vv:
                vv = by_meaning(c["args"][1], lets) or vv
            out.append(("zip%s" % comp, vv))
        elif fn.endswith("zip_substs"):
            vs = c["args"][2]
            p = peel(vs)
            if p.get("k") == "adt" and p.get("v") == "None":
                dv = "None"
            elif has_call(vs, "adt_variance"):
                dv = "adt_variance"
            elif has_call(vs, "fn_def_variance"):
                dv = "fn_def_variance"
            elif has_call(vs, "repeat") and any(n.get("k") == "adt" and n.get("adt") == VAR for n in walk(vs)):
                dv = "repeat(%s)" % [NAMES[n["v"]] for n in walk(vs) if n.get("k") == "adt" and n.get("adt") == VAR][0]
            else:
                dv = "?"
            out.append(("substs", "%s;%s" % (variance_of(c["args"][1], lets), dv)))
    return out


# constructor -> expected [(component, variance)] in relate_ty_ty
POSITIONS = {
    "Adt": [("substs", "amb;adt_variance")],
    "FnDef": [("substs", "amb;fn_def_variance")],
    "Tuple": [("substs", "amb;repeat(Co)")],
    "AssociatedType": [("substs", "amb;None")],
    "OpaqueType": [("substs", "amb;None")],
    "Closure": [("substs", "amb;None")],
    "Coroutine": [("substs", "amb;None")],
    "CoroutineWitness": [("substs", "amb;None")],
    "Scalar": [("zip[0]", "amb")],
    "Foreign": [("zip[0]", "amb")],
    "Slice": [("zip[0]", "amb")],
    "Array": [("zip[0]", "amb"), ("zip[1]", "amb")],
    "Ref": [("zip[1]", "amb*Contra"), ("zip[2]", "amb*mut(Co|Inv)")],
    "Raw": [("zip[1]", "amb*mut(Co|Inv)")],
    "Placeholder": [("zip[0]", "amb")],
    "Dyn": [("zip[0]", "amb")],
    "Function": [("zip[0]", "amb")],
    "Str": [], "Never": [],
}


def run(ck, facts, tier):
    global FACTS
    FACTS = facts
    from kit import params_of_type
    for _k in ("chalk_solve::infer::unify::Unifier::relate_ty_ty", "chalk_solve::infer::unify::Unifier::generalize_ty"):
        _b = facts.body(_k)
        if _b is not None:
            AMBIENT.update(params_of_type(_b, "Variance"))
    # ------------------------------------------------------------------ ALGEBRA
    R = "C29.ALGEBRA"
    ck.rule(R, "K1: Variance::xform is variance composition (Invariant absorbs, Covariant is the identity, Contra o Contra = Co) and "
               "invert swaps Co/Contra and fixes Invariant")
    xf = need_body(ck, facts, R, VAR + "::xform")
    iv = need_body(ck, facts, R, VAR + "::invert")
    inv_name = {v: k for k, v in NAMES.items()}
    if xf:
        ms = pair_match(facts.thir(xf.key), VAR)
        if len(ms) != 1:
            ms = [m for m in walk(xf.thir) if m.get("k") == "match" and m.get("src", "").startswith("Normal")]
        if len(ms) != 1:
            ck.violation(R, "xform:match", xf.where(), "expected one match")
        else:
            for a in NAMES:
                for b in NAMES:
                    arms = select_arms(ms[0], T(V(a), V(b)))
                    e = peel(result_expr(ms[0]["arms"][arms[0][0]]["body"]))
                    got = NAMES[e["v"]] if e.get("k") == "adt" and e.get("adt") == VAR else (NAMES[a] if var_name(e) == "self" else NAMES[b] if var_name(e) == "other" else "?")
                    want = compose(NAMES[a], NAMES[b])
                    if got == want and arms[0][1] == "yes":
                        ck.ok(R, "xform(%s,%s)" % (a, b), got)
                    else:
                        ck.violation(R, "xform(%s,%s)" % (a, b), xf.where(ms[0]["arms"][arms[0][0]]["ln"]), "gives %s, composition requires %s" % (got, want))
    if iv:
        ms = enum_matches(facts.thir(iv.key), VAR)
        if len(ms) != 1:
            ck.violation(R, "invert:match", iv.where(), "expected one match")
        else:
            want = {"Invariant": "Inv", "Covariant": "Contra", "Contravariant": "Co"}
            for a in NAMES:
                arms = select_arms(ms[0], V(a))
                e = peel(result_expr(ms[0]["arms"][arms[0][0]]["body"]))
                got = NAMES.get(e.get("v")) if e.get("k") == "adt" else "?"
                if got == want[a]:
                    ck.ok(R, "invert(%s)" % a, got)
                else:
                    ck.violation(R, "invert(%s)" % a, iv.where(), "gives %s, expected %s" % (got, want[a]))

    # ------------------------------------------------------------------ POSITIONS
    R = "C29.POSITIONS"
    ck.rule(R, "K1 vs spec: for every constructor, relate_ty_ty relates each component at the variance the language dictates (spec table "
               "POSITIONS); Zipper::zip_substs composes the ambient variance with the declared one (Invariant when undeclared); FnSubst "
               "zips parameters contravariantly and the return type at the ambient variance; DynTy zips bounds invariantly")
    rt = need_body(ck, facts, R, UNI + "::relate_ty_ty")
    from props.c18 import side_vars
    if rt:
        ms = pair_match(facts.thir(rt.key), "chalk_ir::TyKind")
        if len(ms) != 1:
            ck.violation(R, "relate_ty_ty:match", rt.where(), "expected one pair match")
        else:
            n = 0
            for k in facts.variants("chalk_ir::TyKind"):
                if k in ("InferenceVar", "Alias", "Error", "BoundVar"):
                    continue
                n += 1
                arms = select_arms(ms[0], T(V(k), V(k)))
                arm = ms[0]["arms"][arms[0][0]]
                got = sorted(zip_calls(arm["body"], side_vars(arm["pat"])))
                want = POSITIONS.get(k)
                if want is None:
                    ck.violation(R, "relate_ty_ty:%s" % k, rt.where(arm["ln"]), "constructor not in the spec table; extend it deliberately")
                elif got == sorted(want):
                    ck.ok(R, "relate_ty_ty:%s" % k, str(got))
                else:
                    ck.violation(R, "relate_ty_ty:%s" % k, rt.where(arm["ln"]), "components are related as %s, the language requires %s" % (got, sorted(want)))
            ck.floor(R, "constructors", n, 19)
    zs = need_body(ck, facts, R, "chalk_ir::zip::Zipper::zip_substs")
    if zs:
        th = facts.thir("chalk_ir::zip::Zipper::zip_substs")
        zc = [c for c in calls(th, "Zip::zip_with")]
        lets = lets_of(th)
        shape = False
        if len(zc) == 1:
            v = peel(zc[0]["args"][1])
            from kit import params_of_type as _pot
            amb = _pot(zs, "Variance") or {"ambient"}
            if v.get("k") == "call" and callee_matches(v, VAR + "::xform") and var_name(v["args"][0]) in amb:
                init = lets.get(var_name(v["args"][1]))
                # the declared variance of parameter i, Invariant when none is declared - written with Option::map / unwrap_or or as a
                # match on the Option: an indexing of the declared list, the constant Invariant and no other constant variance
                consts = [n["v"] for n in walk(init) if n.get("k") == "adt" and n.get("adt") == VAR] if init is not None else []
                if init is not None and consts and set(consts) == {"Invariant"} and \
                        any(n.get("k") in ("index",) or (n.get("k") == "call" and callee_matches(n, "Index::index")) for n in walk(init)):
                    shape = True
        # every pair is related and `i` is the parameter position: no element-dropping adaptor between zip() and enumerate()
        from kit import adaptor_sites
        dropped = adaptor_sites(facts, "chalk_ir", lambda k: k == zs.key)
        if dropped:
            shape = False
        if shape and has_call(th, "Iterator::zip") and has_call(th, "Iterator::enumerate"):
            ck.ok(R, "zip_substs", "zip_with(ambient.xform(variances[i] or Invariant), a_i, b_i) for every i")
        else:
            ck.violation(R, "zip_substs", zs.where(), "zip_substs must relate a_i, b_i at ambient.xform(declared variance i, default Invariant)")
    fs = need_body(ck, facts, R, "<chalk_ir::FnSubst as chalk_ir::zip::Zip>::zip_with")
    if fs:
        zc = [c for c in calls(fs.thir, "Zip::zip_with")]
        got = []
        for c in zc:
            v = variance_of(c["args"][1], {})
            part = "last" if has_call(c["args"][2], "last") else ("prefix" if any(n.get("k") == "adt" and n["adt"].endswith("RangeTo") for n in walk(c["args"][2])) else "?")
            got.append((part, v))
        if sorted(got) == [("last", "amb"), ("prefix", "amb*Contra")]:
            ck.ok(R, "FnSubst", "parameters contravariant, return type ambient")
        else:
            ck.violation(R, "FnSubst", fs.where(), "fn pointers must be contravariant in parameters and ambient in the return type; found %s" % got)
    dz = need_body(ck, facts, R, "<chalk_ir::DynTy as chalk_ir::zip::Zip>::zip_with")
    if dz:
        got = sorted(("bounds" if mentions_field(c["args"][2], "bounds") else "lifetime" if mentions_field(c["args"][2], "lifetime") else "?",
                      variance_of(c["args"][1], {})) for c in calls(dz.thir, "Zip::zip_with"))
        if got == [("bounds", "amb*Inv"), ("lifetime", "amb*Contra")]:
            ck.ok(R, "DynTy", "bounds invariant, lifetime like a reference's")
        else:
            ck.violation(R, "DynTy", dz.where(), "dyn bounds must be invariant and the lifetime contravariant-composed; found %s" % got)

    # ------------------------------------------------------------------ REF-LIFETIME
    R = "C29.REF-LIFETIME"
    ck.rule(R, "composite: push_lifetime_outlives_goals(v, a, b) pushes `a: b` for v in {Invariant, Contravariant} and `b: a` for v in "
               "{Invariant, Covariant}; with Ref's lifetime position `ambient.xform(Contravariant)` this yields 'a: 'b for &'a T <: &'b T "
               "and both directions under Invariant")
    pl = need_body(ck, facts, R, UNI + "::push_lifetime_outlives_goals")
    if pl:
        ifs = [n for n in walk(pl.thir) if n.get("k") == "if"]
        table = []
        for n_ in ifs:
            ms = [m for m in walk(n_["cond"]) if m.get("k") == "match"]
            if not ms:
                continue
            vs = {v for v in NAMES if any(is_true_arm(ms[0], v))}
            lo = [x for x in walk(n_["then"]) if x.get("k") == "adt" and x["adt"] == "chalk_ir::LifetimeOutlives"]
            if lo:
                f = dict((a, b) for a, b in lo[0]["fields"])
                table.append((frozenset(vs), sorted(expr_vars(f["a"]) & {"a", "b"})[0], sorted(expr_vars(f["b"]) & {"a", "b"})[0]))
        want = {(frozenset({"Invariant", "Contravariant"}), "a", "b"), (frozenset({"Invariant", "Covariant"}), "b", "a")}
        if set(table) == want:
            ck.ok(R, "push_lifetime_outlives_goals:table")
            # compose: Covariant ambient, Ref lifetime position Contravariant -> Contra -> pushes a: b
            eff = compose("Co", "Contra")
            if eff == "Contra":
                ck.ok(R, "&'a T <: &'b T => 'a: 'b")
        else:
            ck.violation(R, "push_lifetime_outlives_goals:table", pl.where(), "outlives goals pushed as %s, expected %s" % (sorted(map(str, table)), sorted(map(str, want))))

    # ------------------------------------------------------------------ LIFETIME-LEAVES
    R = "C29.LIFETIME-LEAVES"
    ck.rule(R, "K1: relate_lifetime_lifetime, for every pair of rigid lifetimes (Static / Placeholder / Erased) other than the identical "
               "leaves (Static,Static) and (Erased,Erased), pushes push_lifetime_outlives_goals(variance, a, b) with the *ambient* variance "
               "whenever a != b - the only condition allowed around the push is the a != b test; in particular it must not depend on the "
               "variance (push_lifetime_outlives_goals itself chooses the directions, and Invariant needs both)")
    rl = need_body(ck, facts, R, UNI + "::relate_lifetime_lifetime")
    if rl:
        ms = pair_match(facts.thir(rl.key), "chalk_ir::LifetimeData")
        if len(ms) != 1:
            ck.violation(R, "relate_lifetime_lifetime:table", rl.where(), "expected one match on the pair of lifetime kinds, found %d" % len(ms))
        else:
            m = ms[0]
            rigid = ("Static", "Placeholder", "Erased")
            n = 0
            for ka in rigid:
                for kb in rigid:
                    arms = select_arms(m, T(V(ka), V(kb)))
                    arm = m["arms"][arms[0][0]]
                    inst = "relate_lifetime_lifetime:(%s,%s)" % (ka, kb)
                    n += 1
                    pushes = []

                    def visit(nd, conds):
                        if isinstance(nd, list):
                            for x in nd:
                                visit(x, conds)
                            return
                        if not isinstance(nd, dict):
                            return
                        if nd.get("k") == "call" and callee_matches(nd, "push_lifetime_outlives_goals"):
                            pushes.append((nd, conds))
                        if nd.get("k") == "if":
                            visit(nd["cond"], conds)
                            visit(nd["then"], conds + [nd["cond"]])
                            visit(nd.get("else"), conds + [nd["cond"]])
                            return
                        if nd.get("k") == "match" and nd is not m:
                            visit(nd.get("scrut"), conds)
                            for a_ in nd.get("arms", []):
                                visit(a_.get("body"), conds + [nd.get("scrut")])
                            return
                        for key, v in nd.items():
                            if isinstance(v, (dict, list)) and key != "pat":
                                visit(v, conds)
                    visit(arm["body"], [])
                    if ka == kb and ka in ("Static", "Erased"):
                        if not pushes:
                            ck.ok(R, inst, "identical leaves: nothing to require")
                        else:
                            ck.ok(R, inst, "identical leaves (pushes under a != b)")
                        continue
                    if not pushes:
                        ck.violation(R, inst, rl.where(arm["ln"]), "two different rigid lifetimes are related without any outlives requirement")
                        continue
                    bad = None
                    for c, conds in pushes:
                        a0 = c["args"][1] if len(c["args"]) > 1 else None
                        if a0 is None or var_name(peel(a0)) != "variance":
                            bad = "the variance handed to push_lifetime_outlives_goals is not the ambient `variance`"
                        for cd in conds:
                            if "variance" in expr_vars(cd) or not (expr_vars(cd) <= {"a", "b"}):
                                bad = "the push is conditional on `%s`; only the a != b test may guard it" % sorted(expr_vars(cd))
                    if bad:
                        ck.violation(R, inst, rl.where(arm["ln"]), bad)
                    else:
                        ck.ok(R, inst, "a != b => push_lifetime_outlives_goals(variance, a, b)")
            ck.floor(R, "rigid-lifetime-pairs", n, 9)

    # ------------------------------------------------------------------ SIBLING
    R = "C29.SIBLING"
    ck.rule(R, "K5: generalize_ty uses the same component variances as relate_ty_ty for Ref, Raw, Adt, FnDef and Function "
               "(otherwise a generalized variable is related at a different variance than its original)")
    gt = need_body(ck, facts, R, UNI + "::generalize_ty")
    if gt:
        th = facts.thir(UNI + "::generalize_ty")
        ms = enum_matches(th, "chalk_ir::TyKind")
        if len(ms) != 1:
            ck.violation(R, "generalize_ty:match", gt.where(), "expected one match on TyKind")
        else:
            m = ms[0]
            def arm_of(k):
                return m["arms"][select_arms(m, V(k))[0][0]]
            arm = arm_of("Ref")
            lets = lets_of(arm["body"])
            lt = [c for c in calls(arm["body"], "generalize_lifetime")]
            ty = [c for c in calls(arm["body"], UNI + "::generalize_ty")]
            got = (variance_of(lt[0]["args"][3], lets) if lt else "?", variance_of(ty[0]["args"][3], lets) if ty else "?")
            if got == ("amb*Contra", "mut(Co|Inv)"):
                ck.ok(R, "generalize_ty:Ref", str(got))
            else:
                ck.violation(R, "generalize_ty:Ref", gt.where(arm["ln"]), "lifetime/type generalized at %s; relate_ty_ty uses (amb*Contra, mut(Co|Inv))" % (got,))
            arm = arm_of("Raw")
            lets = lets_of(arm["body"])
            ty = [c for c in calls(arm["body"], UNI + "::generalize_ty")]
            got = variance_of(ty[0]["args"][3], lets) if ty else "?"
            if got == "mut(Co|Inv)":
                ck.ok(R, "generalize_ty:Raw", got)
            else:
                ck.violation(R, "generalize_ty:Raw", gt.where(arm["ln"]), "pointee generalized at %s; relate_ty_ty uses mut(Co|Inv)" % got)
            for k, getter in (("Adt", "adt_variance"), ("FnDef", "fn_def_variance")):
                arm = arm_of(k)
                if has_call(arm["body"], getter) and has_call(arm["body"], "generalize_substitution"):
                    ck.ok(R, "generalize_ty:%s" % k, "declared variances via %s" % getter)
                else:
                    ck.violation(R, "generalize_ty:%s" % k, gt.where(arm["ln"]), "parameters must be generalized at their declared variance (%s)" % getter)
            arm = arm_of("Function")
            vs = sorted(variance_of(c["args"][3], {}) for c in calls(arm["body"], "generalize_generic_var"))
            if vs == ["amb", "amb*Contra"]:
                ck.ok(R, "generalize_ty:Function", "parameters contra, return ambient")
            else:
                ck.violation(R, "generalize_ty:Function", gt.where(arm["ln"]), "fn pointer components generalized at %s" % vs)

    # ------------------------------------------------------------------ SIBLING-RESOLVENT
    R = "C29.SIBLING-RESOLVENT"
    ck.rule(R, "K5: AnswerSubstitutor::zip_tys - the zipper that applies a tabled answer to the literal that selected it, at the variance "
               "of that literal - relates every component of every constructor at the variance the unifier's relate_ty_ty uses (spec "
               "table POSITIONS), or invariantly where the unifier uses a declared / covariant parameter list (asking for equality is "
               "more than subtyping needs, never less): a component related at a weaker variance here lets an answer through that the "
               "unifier would refuse")
    zkeys = [k_ for k_ in facts.bodies("chalk_engine") if k_.endswith("Zipper>::zip_tys") and "AnswerSubstitutor" in k_ and "{" not in k_]
    if not zkeys:
        ck.violation(R, "missing-anchor:AnswerSubstitutor::zip_tys", "", "the answer zipper was not found")
    else:
        zb = facts.body(zkeys[0])
        zms = pair_match(facts.thir(zb.key), "chalk_ir::TyKind")
        if len(zms) != 1:
            ck.violation(R, "zip_tys:match", zb.where(), "expected one pair match")
        else:
            nz = 0
            for k in facts.variants("chalk_ir::TyKind"):
                if k in ("InferenceVar", "Alias", "Error", "BoundVar") or k not in POSITIONS:
                    continue
                arms = select_arms(zms[0], T(V(k), V(k)))
                if not arms:
                    continue
                nz += 1
                arm = zms[0]["arms"][arms[0][0]]
                got = sorted(zip_calls(arm["body"], side_vars(arm["pat"])))
                want = sorted(POSITIONS[k])
                stricter = [(c_, "amb;None") if c_ == "substs" else (c_, v_) for c_, v_ in want]
                if got == want or got == sorted(stricter):
                    ck.ok(R, "zip_tys:%s" % k, str(got))
                else:
                    ck.violation(R, "zip_tys:%s" % k, zb.where(arm["ln"]), "components are related as %s, the unifier relates them as %s" % (got, want))
            ck.floor(R, "constructors", nz, 17)

    # ------------------------------------------------------------------ BOTH-VARS
    R = "C29.BOTH-VARS"
    ck.rule(R, "K1 sibling: a SubtypeGoal between two general inference variables is refused by both engines "
               "(SLG: flounder; recursive: cannot_prove) before any relate call")
    for key, marker in (("chalk_engine::forest::Forest::simplify_goal", "Floundered"), ("chalk_recursive::fulfill::Fulfill::push_goal", "cannot_prove")):
        b = need_body(ck, facts, R, key)
        if not b:
            continue
        ms = enum_matches(facts.thir(b.key), "chalk_ir::GoalData")
        if len(ms) != 1:
            ck.violation(R, "%s:match" % short(key), b.where(), "expected one match on GoalData")
            continue
        arm = ms[0]["arms"][select_arms(ms[0], V("SubtypeGoal"))[0][0]]
        body_ = arm["body"]
        def general_var_test(mm):
            a0 = mm["arms"][0]["pat"] if mm.get("arms") else {}
            if a0.get("k") != "variant" or a0.get("v") != "InferenceVar":
                return False
            return any(sp.get("k") == "variant" and sp.get("v") == "General" for _i, _n, sp in a0.get("sub", []))
        has_check = False
        for n_ in walk(body_):
            if n_.get("k") == "if" and peel(n_["cond"]).get("k") == "logic" and peel(n_["cond"])["op"] == "And":
                tests = [mm for mm in walk(n_["cond"]) if mm.get("k") == "match" and general_var_test(mm)]
                if len(tests) == 2:
                    has_check = True
        if marker == "Floundered":
            refuses = any(n.get("k") == "adt" and n.get("adt", "").endswith("Floundered") for n in walk(body_))
        else:
            refuses = any(n.get("k") == "assign" and mentions_field(n["l"], "cannot_prove") for n in walk(body_))
        relates = any((c.get("fn") or "").endswith(("InferenceTable::relate", "Fulfill::unify")) and
                      any(n.get("k") == "adt" and n.get("adt") == VAR and n["v"] == "Covariant" for n in walk(c))
                      for c in calls(body_))
        if has_check and refuses and relates:
            ck.ok(R, "%s:SubtypeGoal" % short(key), "both-variables test, refusal, then relate(Covariant)")
        else:
            ck.violation(R, "%s:SubtypeGoal" % short(key), b.where(arm["ln"]),
                         "SubtypeGoal handling must test for two inference variables and refuse (check=%s refuse=%s relate=%s)" % (has_check, refuses, relates))


def is_true_arm(m, v):
    """yields True if the `matches!` expansion maps variant v to `true`"""
    arms = select_arms(m, V(v))
    if arms:
        e = peel(result_expr(m["arms"][arms[0][0]]["body"]))
        if e.get("k") == "lit" and "true" in e["v"]:
            yield True
