"""C28 - every returned solution is a well-formed answer for its query.

Decided:
  ARITY+KIND  the substitution a solution is built from starts as one fresh variable per query binder, of that binder's kind
              (fresh_subst / to_generic_arg), and the only places that put a substitution into a strand / Fulfill take it from
              from_canonical of the query or from a tabled answer of the same table
  CLOSED      what is returned is the result of one canonicalize call (binders and value together) or binders + value of one
              and the same tabled answer
  UNIVERSES   map_from_canonical maps the binders and every placeholder kind (ty, lifetime, const) back to the caller's universes
Not decided: that applying the substitution to the query yields a provable goal (C01)."""
from core import enum_matches, select_arms, V, walk, calls, peel, callee_matches, var_name, expr_vars, CallGraph
from kit import need_body, has_call, short, result_expr, mentions_field, thir_all
from props.c16 import kind_complete

IT = "chalk_solve::infer::InferenceTable::"
EX = "chalk_engine::ExClause"


KIND_OF_CTOR = {"to_ty": "Ty", "to_ty_with_kind": "Ty", "new_ty_variable": "Ty", "aggregate_tys": "Ty",
                "to_lifetime": "Lifetime", "new_lifetime_variable": "Lifetime", "aggregate_lifetimes": "Lifetime",
                "to_const": "Const", "new_const_variable": "Const", "aggregate_consts": "Const"}


def kind_preserving(ck, facts, R):
    """K1 over every `match` on GenericArgData / VariableKind in the solver crates: an arm that builds a variable or an aggregate of a
    definite kind builds it in the kind(s) its pattern admits."""
    ck.rule(R, "K1 (kind tables, all of them): in every match on GenericArgData or VariableKind in chalk-ir / chalk-solve / chalk-engine / "
               "chalk-recursive, an arm that constructs something of a definite kind (to_ty / to_lifetime / to_const, a fresh variable, "
               "an anti-unifier result) constructs it for EVERY kind its pattern admits - `Ty(_) | Const(_) => var.to_ty()` answers a "
               "const unknown with a type - and an arm for `VariableKind::Ty(_)` that makes an inference variable keeps the "
               "integer / float kind of the binder (EnaVariable::to_ty_with_kind, not to_ty)")
    n = 0
    for crate in ("chalk_engine", "chalk_solve", "chalk_ir", "chalk_recursive"):
        for key, b in sorted(facts.bodies(crate).items()):
            if b.thir is None or "{" in key:
                continue
            th = facts.thir(key)
            for adt in ("chalk_ir::GenericArgData", "chalk_ir::VariableKind"):
                for m in enum_matches(th, adt):
                    for i, arm in enumerate(m["arms"]):
                        P = {v for v in ("Ty", "Lifetime", "Const") if any(ix == i for ix, _ in select_arms(m, V(v)))}
                        cs = [((c.get("res") or c.get("fn") or ""), (c.get("fn") or "").split("::")[-1]) for c in calls(arm["body"])]
                        KS = {KIND_OF_CTOR[last] for _full, last in cs if last in KIND_OF_CTOR}
                        if not KS or not P:
                            continue
                        n += 1
                        inst = "%s:%s:%s" % (short(key), adt.split("::")[-1], "|".join(sorted(P)))
                        bad = sorted(v for v in P if v not in KS)
                        loses = adt.endswith("VariableKind") and "Ty" in P and \
                            any(last == "to_ty" and "EnaVariable" in full for full, last in cs) and not any(last == "to_ty_with_kind" for _f, last in cs)
                        if bad:
                            ck.violation(R, inst, b.where(arm.get("ln")), "the arm admits %s but constructs only %s" % (bad, sorted(KS)))
                        elif loses:
                            ck.violation(R, inst, b.where(arm.get("ln")), "a type binder becomes a General inference variable: the integer / float kind of the binder is lost")
                        else:
                            ck.ok(R, inst, "constructs %s" % sorted(KS))
    ck.floor(R, "kinded-arms", n, 6)


def run(ck, facts, tier):
    kind_preserving(ck, facts, "C28.KIND-PRESERVING")
    from props.c16 import canonical_vars_shifted
    canonical_vars_shifted(ck, facts, "C28.CANONICAL-VARS-SHIFTED")
    from props.c14 import occurs_before_bind
    occurs_before_bind(ck, facts, "C28.UNIVERSE-CHECKED-BINDS")
    R = "C28.ARITY+KIND"
    ck.rule(R, "K1/K4: fresh_subst maps every binder (no filtering) through to_generic_arg, which maps Ty->ty, Lifetime->lifetime, Const->const; "
               "from_canonical applies fresh_subst to all of the canonical binders; ExClause / Fulfill values are constructed only in the audited "
               "functions, with `subst` taken from their `subst` parameter (the from_canonical result) or from the answer being refined")
    fs = need_body(ck, facts, R, IT + "fresh_subst")
    if fs:
        th = facts.thir(IT + "fresh_subst")
        narrowing = [c for c in calls(th, ("Iterator::filter", "Iterator::take", "Iterator::skip", "Iterator::filter_map", "Iterator::step_by", "Iterator::rev"))]
        ok = has_call(th, "Substitution::from_iter") and has_call(th, "Iterator::map") and has_call(th, "to_generic_arg") and has_call(th, "new_variable") \
            and not narrowing and "binders" in expr_vars(th)
        if ok:
            ck.ok(R, "fresh_subst:one-variable-per-binder")
        else:
            ck.violation(R, "fresh_subst:one-variable-per-binder", fs.where(), "fresh_subst must create exactly one variable per binder, in order")
    tg = need_body(ck, facts, R, "<chalk_ir::WithKind as chalk_solve::infer::ParameterEnaVariableExt>::to_generic_arg")
    if tg:
        ms = enum_matches(facts.thir(tg.key), "chalk_ir::VariableKind")
        want = {"Ty": "to_ty_with_kind", "Lifetime": "to_lifetime", "Const": "to_const"}
        if len(ms) != 1:
            ck.violation(R, "to_generic_arg:match", tg.where(), "expected one match on VariableKind")
        else:
            for v in facts.variants("chalk_ir::VariableKind"):
                arm = ms[0]["arms"][select_arms(ms[0], V(v))[0][0]]
                if v in want and has_call(arm["body"], want[v]) and not any(has_call(arm["body"], w) for k2, w in want.items() if k2 != v):
                    ck.ok(R, "to_generic_arg:VariableKind::%s" % v, want[v])
                else:
                    ck.violation(R, "to_generic_arg:VariableKind::%s" % v, tg.where(arm["ln"]), "a %s binder must become a %s variable" % (v, v.lower()))
    fc = need_body(ck, facts, R, IT + "from_canonical")
    if fc:
        th = fc.thir
        c = [x for x in calls(th, IT + "fresh_subst")]
        ok = len(c) == 1 and mentions_field(c[0]["args"][2], "binders") and has_call(c[0]["args"][2], "as_slice") and \
            any(has_call(x, "Substitution::apply") or has_call(x, "apply") for x in [th])
        tup = [x for x in walk(th) if x.get("k") == "tuple" and len(x["es"]) == 3]
        ret_ok = bool(tup) and [var_name(e) for e in tup[-1]["es"]] == ["table", "subst", "value"]
        if ok and ret_ok:
            ck.ok(R, "from_canonical:fresh_subst(all binders)")
        else:
            ck.violation(R, "from_canonical:fresh_subst(all binders)", fc.where(), "from_canonical must instantiate all canonical binders and return that substitution")
    cg = CallGraph(facts, ["chalk_engine", "chalk_recursive"])
    AUDITED_EX = {
        "chalk_engine::slg::resolvent::<impl chalk_solve::infer::InferenceTable>": "subst parameter",
    }
    n = 0
    for k, b in cg.bodies.items():
        if b.thir is None or (b.d.get("x") and "derive" in b.d["x"]):
            continue
        for x in walk(b.thir):
            if x.get("k") == "adt" and x["adt"] in (EX, "chalk_recursive::fulfill::Fulfill"):
                n += 1
                f = dict(x["fields"])
                src = f.get("subst")
                inst = "%s:constructs-%s" % (short(k), x["adt"].split("::")[-1])
                ok = False
                why = ""
                if src is not None:
                    vs = expr_vars(src)
                    if vs == {"subst"}:
                        # `subst` must be a parameter of the function, or destructured from a from_canonical(...) of a tabled answer
                        params = [p.get("n") for p in b.d.get("thir_params", []) if isinstance(p, dict)]
                        if "subst" in params:
                            ok, why = True, "from the `subst` parameter"
                        else:
                            for st in walk(b.thir):
                                if st.get("k") == "let" and st.get("init") is not None and has_call(st["init"], "from_canonical") and \
                                        any(nm == "subst" for nm, _ in __import__("core").pat_bindings(st["pat"])):
                                    ok, why = True, "from from_canonical(answer.subst)"
                if ok:
                    ck.ok(R, inst, why)
                else:
                    ck.violation(R, inst, b.where(x.get("ln")), "a strand / fulfillment context is created with a substitution of unknown provenance")
    ck.floor(R, "ExClause/Fulfill-constructions", n, 4)
    # callers pass the from_canonical substitution
    for key, callee in (("chalk_engine::forest::Forest::build_table", ("resolvent_clause", "simplify_goal")),
                        ("chalk_recursive::solve::SolveIterationHelpers::solve_from_clauses", ("Fulfill::new_with_clause",)),
                        ("chalk_recursive::solve::SolveIterationHelpers::solve_via_simplification", ("Fulfill::new_with_simplification",))):
        b = need_body(ck, facts, R, key)
        if not b:
            continue
        th = facts.thir(key)
        lets = [st for st in walk(th) if st.get("k") == "let" and st.get("init") is not None and
                (has_call(st["init"], "from_canonical") or has_call(st["init"], "new_inference_table"))]
        names = set()
        for st in lets:
            names |= {nm for nm, _ in __import__("core").pat_bindings(st["pat"])}
        cs = [c for c in calls(th, callee)]
        good = [c for c in cs if any("subst" in expr_vars(a) for a in c["args"])]
        if cs and len(good) == len(cs) and "subst" in names:
            ck.ok(R, "%s:passes-from_canonical-subst" % short(key))
        else:
            ck.violation(R, "%s:passes-from_canonical-subst" % short(key), b.where(), "the substitution handed to the strand / Fulfill must be the one from_canonical produced for this goal")

    R = "C28.CLOSED"
    ck.rule(R, "K3: root_answer copies binders and value from the same tabled answer; pursue_answer builds the answer from the binders and value of "
               "one canonical strand; Fulfill::solve returns `canonicalize(..)` results unchanged (Unique, Definite, Suggested)")
    ra = need_body(ck, facts, R, "chalk_engine::forest::Forest::root_answer")
    if ra:
        can = [x for x in walk(ra.thir) if x.get("k") == "adt" and x["adt"] == "chalk_ir::Canonical"]
        ok = False
        if len(can) == 1:
            f = dict(can[0]["fields"])
            ok = expr_vars(f["binders"]) == {"answer"} and expr_vars(f["value"]) == {"answer"} and mentions_field(f["binders"], "binders") and mentions_field(f["value"], "subst")
        if ok:
            ck.ok(R, "root_answer:binders-and-value-of-one-answer")
        else:
            ck.violation(R, "root_answer:binders-and-value-of-one-answer", ra.where(), "binders and value must come from the same tabled answer")
    pa = need_body(ck, facts, R, "chalk_engine::logic::SolveState::pursue_answer")
    if pa:
        th = pa.thir
        de = [st for st in walk(th) if st.get("k") == "let" and st["pat"].get("k") == "leaf" and st["pat"].get("adt") == "chalk_ir::Canonical"
              and var_name(st.get("init")) == "canonical_strand"]
        can = [x for x in walk(th) if x.get("k") == "adt" and x["adt"] == "chalk_ir::Canonical" and
               any(y.get("k") == "adt" and y["adt"] == "chalk_ir::AnswerSubst" for y in walk(x))]
        ok = False
        if de and can:
            f = dict(can[0]["fields"])
            ans = [y for y in walk(f["value"]) if y.get("k") == "adt" and y["adt"] == "chalk_ir::AnswerSubst"][0]
            ok = var_name(f["binders"]) == "binders" and var_name(dict(ans["fields"])["subst"]) == "subst"
        if ok:
            ck.ok(R, "pursue_answer:binders-and-subst-of-one-strand")
        else:
            ck.violation(R, "pursue_answer:binders-and-subst-of-one-strand", pa.where(), "the tabled answer must pair the strand's binders with the strand's own substitution")
    fs = need_body(ck, facts, R, "chalk_recursive::fulfill::Fulfill::solve")
    if fs:
        th = fs.thir
        ok = True
        for x in walk(th):
            if x.get("k") == "adt" and x["adt"] in ("chalk_solve::solve::Solution", "chalk_solve::solve::Guidance") and x["v"] in ("Unique", "Definite", "Suggested"):
                arg = peel(x["fields"][0][1])
                # must be `<var>.0` where var = canonicalize(..)
                src = None
                if arg.get("k") == "field" and arg["n"] == "0":
                    src = var_name(arg["e"])
                bound = any(st.get("k") == "let" and st["pat"].get("n") == src and has_call(st["init"], "canonicalize") for st in walk(th)) if src else False
                if not bound:
                    ok = False
                    ck.violation(R, "Fulfill::solve:%s(canonicalize(..))" % x["v"], fs.where(x.get("ln")), "returned substitution is not the direct result of canonicalize")
        if ok:
            ck.ok(R, "Fulfill::solve:returns-canonicalize-results")

    R = "C28.UNIVERSES"
    ck.rule(R, "K5: UMapFromCanonical (used by map_from_canonical on every answer that crosses a table boundary) overrides the placeholder "
               "callback for ty, lifetime and const; map_from_canonical also maps the binders")
    n = kind_complete(ck, facts, rule=R, crates=["chalk_solve"])
    ck.floor(R, "folder-impls", n, 6)
    base = "<chalk_ir::UniverseMap as chalk_solve::infer::ucanonicalize::UniverseMapExt>::"
    mf = need_body(ck, facts, R, base + "map_from_canonical")
    if mf:
        ths = thir_all(facts, mf)
        if any(has_call(t, "map_universe_from_canonical") for t in ths) and has_call(mf.thir, "try_fold_with") and mentions_field(mf.thir, "binders"):
            ck.ok(R, "map_from_canonical:binders+value")
        else:
            ck.violation(R, "map_from_canonical:binders+value", mf.where(), "both the binders' universes and the value must be mapped back")

    R = "C28.PROMOTE-VISITED"
    ck.rule(R, "K3/K2: a solution may only mention universes the query can name, so a variable of a higher universe that ends up inside the "
               "value of a lower-universe variable must itself be lowered: in each of OccursCheck's inference-variable callbacks "
               "(ty / const / lifetime) the universe promotion `unify_var_value(v, Unbound(self.universe_index))` is applied to the "
               "*visited* variable (the callback's own `var`), on the `self.universe_index < ui` edge")
    OCC = "<chalk_solve::infer::unify::OccursCheck as chalk_ir::fold::FallibleTypeFolder>"
    for kind in ("ty", "const", "lifetime"):
        b = need_body(ck, facts, R, OCC + "::try_fold_inference_" + kind)
        if not b:
            continue
        from props.c14 import promotions
        from kit import params_of_type
        proms = promotions(facts, b)                      # direct, or through an inherent OccursCheck helper (one level)
        visited = params_of_type(b, "InferenceVar") or {"var"}
        inst = "try_fold_inference_%s:promotes-visited-variable" % kind
        if not proms:
            ck.violation(R, "missing-anchor:" + inst, b.where(), "no promotion found in the callback (re-anchor the rule)")
            continue
        binds = [p_["call"] for p_ in proms]
        bad = [p_["call"] for p_ in proms if not (p_["var"] is not None and var_name(peel(p_["var"])) in visited)]
        if bad:
            ck.violation(R, inst, b.where(bad[0].get("ln")), "the promotion binds something other than the visited variable `var`")
        else:
            ck.ok(R, inst)
