"""C17 - combining candidate answers only generalizes.

Decided:
  DEFAULT-CONSERVATIVE  AntiUnifier::aggregate_tys: different constructors (and the fallthrough) give a fresh variable; a
                        same-constructor arm rebuilds the *same* constructor from aggregated components, never from one
                        side's component alone; MayInvalidate's fallthrough is `true`
  SIBLING               wherever the anti-unifier can produce something other than the current guidance, MayInvalidate's arm
                        for the same constructor tests at least the same components (types, consts; lifetimes: constant true)
  SYMMETRY              Solution::combine is symmetric in its arguments and only ever downgrades (never constructs Unique)
Not decided: that the result is the least generalization (not claimed by the property)."""
import re
from core import enum_matches, select_arms, V, T, walk, calls, peel, callee_matches, var_name, expr_vars
from kit import need_body, has_call, short, result_expr, is_lit_bool
from props.c15 import pair_match
from props.c18 import side_vars

AU = "chalk_engine::slg::aggregate::AntiUnifier"
MI = "chalk_engine::slg::MayInvalidate"
TERMISH = re.compile(r"chalk_ir::(Ty|Substitution|Lifetime|Const)<")
NOFRESH_SKIP = {"InferenceVar", "BoundVar"}


def is_fresh(body, kind="ty"):
    e = result_expr(body)
    return isinstance(e, dict) and e.get("k") == "call" and (e.get("fn") or "").endswith("new_%s_variable" % kind)


def bind_types(pat):
    out = {}
    if pat.get("k") != "leaf":
        return out
    for side, _n, sp in pat.get("sub", []):
        if sp.get("k") == "variant":
            for idx, _nn, b in sp.get("sub", []):
                if b.get("k") == "bind":
                    out[b["n"]] = b.get("ty", "")
                # nested (Alias(AliasTy::Projection(proj1)))
                if b.get("k") == "variant":
                    for idx2, _n2, b2 in b.get("sub", []):
                        if b2.get("k") == "bind":
                            out[b2["n"]] = b2.get("ty", "")
    return out


def fields_used(body, sv):
    """field indices (of the matched constructor) whose bindings from *both* sides are consumed together"""
    per = {}
    for v in expr_vars(body):
        if v in sv:
            per.setdefault(sv[v][1], set()).add(sv[v][0])
    return {i for i, s in per.items() if len(s) == 2}, {i for i, s in per.items() if len(s) == 1}


def run(ck, facts, tier):
    from shared import identity as _idn
    _idn.identity_predicates(ck, facts, "C17.TRIVIAL-IS-IDENTITY")
    from shared import state
    state.any_future_answer(ck, facts, "C17.ANY-FUTURE")
    variants = facts.variants("chalk_ir::TyKind")
    au = need_body(ck, facts, "C17.DEFAULT-CONSERVATIVE", AU + "::aggregate_tys")
    mi = need_body(ck, facts, "C17.DEFAULT-CONSERVATIVE", MI + "::aggregate_tys")
    if not (au and mi):
        return
    au_th = facts.thir(AU + "::aggregate_tys")
    mi_th = facts.thir(MI + "::aggregate_tys")
    am = pair_match(au_th, "chalk_ir::TyKind")
    mm = pair_match(mi_th, "chalk_ir::TyKind")
    if len(am) != 1 or len(mm) != 1:
        ck.violation("C17.DEFAULT-CONSERVATIVE", "matches", au.where(), "expected one (TyKind, TyKind) match in each aggregate_tys")
        return
    am, mm = am[0], mm[0]

    R = "C17.DEFAULT-CONSERVATIVE"
    ck.rule(R, "K1: AntiUnifier::aggregate_tys yields a fresh type variable for every pair of different constructors; a (K,K) arm only "
               "constructs K again, every type/substitution/lifetime/const component it uses flows through an aggregate_* call together "
               "with its counterpart, and a name/scalar/mutability is copied only under an equality test; MayInvalidate::aggregate_tys "
               "answers `true` for different constructors (except when the current guidance is already a variable)")
    n = 0
    for ka in variants:
        for kb in variants:
            n += 1
            arms = select_arms(am, T(V(ka), V(kb)))
            inst = "AntiUnifier:(%s,%s)" % (ka, kb)
            if ka != kb:
                bad = [i for i, r in arms if not is_fresh(am["arms"][i]["body"])]
                if bad:
                    ck.violation(R, inst, au.where(am["arms"][bad[0]]["ln"]), "different constructors must generalize to a fresh variable")
                else:
                    ck.ok(R, inst, "fresh variable")
                continue
            # same constructor (Alias has two sub-arms: use the un-refined value => several candidate arms)
            for i, r in arms:
                arm = am["arms"][i]
                body_ = arm["body"]
                if is_fresh(body_):
                    continue
                ctors = [x for x in walk(body_) if x.get("k") == "adt" and x["adt"] == "chalk_ir::TyKind"]
                wrong = [x["v"] for x in ctors if x["v"] != ka]
                if wrong:
                    ck.violation(R, inst, au.where(arm["ln"]), "arm for %s constructs %s" % (ka, wrong))
                    continue
                bt = bind_types(arm["pat"])
                sv = side_vars(arm["pat"])
                probs = []
                for v, ty in bt.items():
                    if v not in expr_vars(body_):
                        continue
                    if TERMISH.search(ty) or "ProjectionTy" in ty or "OpaqueTy" in ty:
                        # must only occur inside aggregate_* calls
                        inside = set()
                        for c in calls(body_):
                            if (c.get("fn") or "").split("::")[-1].startswith("aggregate_"):
                                inside |= expr_vars(c)
                        outside = False
                        for x in walk(body_):
                            if x.get("k") == "adt" and x["adt"] == "chalk_ir::TyKind":
                                for fname, fexpr in x["fields"]:
                                    direct = {vv for vv in expr_vars(fexpr)}
                                    agg = set()
                                    for c in calls(fexpr):
                                        if (c.get("fn") or "").split("::")[-1].startswith("aggregate_"):
                                            agg |= expr_vars(c)
                                    if v in direct and v not in agg:
                                        outside = True
                        if v not in inside or outside:
                            probs.append("component `%s` is used without being aggregated with its counterpart" % v)
                    else:
                        # id / scalar / mutability / arity: needs an equality guard or aggregate_name_and_substs
                        guarded = False
                        for x in walk(body_):
                            if x.get("k") == "if" and v in expr_vars(x["cond"]) and \
                                    any((y.get("k") == "bin" and y["op"] in ("Eq", "Ne")) or
                                        (y.get("k") == "call" and callee_matches(y, ("PartialEq::eq", "PartialEq::ne"))) for y in walk(x["cond"])):
                                guarded = True
                        for c in calls(body_):
                            if (c.get("fn") or "").split("::")[-1].startswith("aggregate_") and v in expr_vars(c):
                                guarded = True   # compared with its counterpart inside the helper
                        if not guarded:
                            probs.append("`%s` is copied from one side without an equality test" % v)
                if probs:
                    ck.violation(R, inst, au.where(arm["ln"]), "; ".join(probs))
                else:
                    ck.ok(R, inst, "same constructor from aggregated components")
    ck.floor(R, "AntiUnifier-pairs", n, 529)
    n = 0
    repeated_var = {}
    for ka in variants:
        for kb in variants:
            if ka == kb or ka == "InferenceVar" or kb == "InferenceVar":
                continue
            n += 1
            arms = select_arms(mm, T(V(ka), V(kb)))
            arm = mm["arms"][arms[0][0]]
            inst = "MayInvalidate:(new=%s,current=%s)" % (ka, kb)
            want = (kb != "BoundVar")
            if kb == "BoundVar":
                # a variable of the current guidance: decided by REPEATED-VARIABLE below (a constant `true` would be sound as well)
                repeated_var.setdefault("tys", []).append((ka, arm))
                continue
            if is_lit_bool(arm["body"], want) and arms[0][1] == "yes":
                ck.ok(R, inst, str(want).lower())
            else:
                ck.violation(R, inst, mi.where(arm["ln"]), "must answer `%s` (a future answer with a different constructor %s the guidance)" % (
                    str(want).lower(), "invalidates" if want else "cannot invalidate a variable in"))
    ck.floor(R, "MayInvalidate-cross-pairs", n, 22 * 21)

    # ------------------------------------------------------------------ SIBLING
    R = "C17.SIBLING"
    ck.rule(R, "K5: for every constructor K, MayInvalidate's (K,K) arm examines at least the components AntiUnifier's (K,K) arm examines; "
               "where AntiUnifier always generalizes (Function, Dyn) MayInvalidate answers true; lifetimes: constant true; consts: the "
               "value tables correspond cell by cell")
    for k in variants:
        if k in NOFRESH_SKIP:
            continue
        a_arms = select_arms(am, T(V(k), V(k)))
        m_arms = select_arms(mm, T(V(k), V(k)))
        inst = "(%s,%s)" % (k, k)
        a_fresh = all(is_fresh(am["arms"][i]["body"]) for i, r in a_arms)
        m_true = all(is_lit_bool(mm["arms"][i]["body"], True) for i, r in m_arms)
        m_false = all(is_lit_bool(mm["arms"][i]["body"], False) for i, r in m_arms)
        if a_fresh:
            if m_true:
                ck.ok(R, inst, "always generalized / always may-invalidate")
            else:
                ck.violation(R, inst, mi.where(mm["arms"][m_arms[0][0]]["ln"]),
                             "the anti-unifier always replaces this constructor by a fresh variable, so MayInvalidate must answer true")
            continue
        if len(a_arms) != len(m_arms):
            ck.violation(R, inst, mi.where(), "arm structure differs between the siblings")
            continue
        ok = True
        for (ia, _), (im_, _) in zip(a_arms, m_arms):
            aarm, marm = am["arms"][ia], mm["arms"][im_]
            a_both, a_one = fields_used(aarm["body"], side_vars(aarm["pat"]))
            m_both, _ = fields_used(marm["body"], side_vars(marm["pat"]))
            # nested Alias patterns bind the payload at depth 2: compare by payload var usage
            if side_vars(aarm["pat"]) and not a_both <= m_both:
                ok = False
                ck.violation(R, inst, mi.where(marm["ln"]), "AntiUnifier examines field(s) %s of %s but MayInvalidate only %s: an answer "
                             "differing there would change the guidance without being noticed" % (sorted(a_both), k, sorted(m_both)))
            if not side_vars(aarm["pat"]) or not a_both:
                # leaf constructor (Str, Never, Error) or helper-delegating arm: MayInvalidate must delegate too / be false only for leaves
                a_helpers = {(c.get("fn") or "").split("::")[-1] for c in calls(aarm["body"]) if (c.get("fn") or "").split("::")[-1].startswith("aggregate_")}
                m_helpers = {(c.get("fn") or "").split("::")[-1] for c in calls(marm["body"]) if (c.get("fn") or "").split("::")[-1].startswith("aggregate_")}
                if a_helpers and not m_helpers:
                    ok = False
                    ck.violation(R, inst, mi.where(marm["ln"]), "AntiUnifier delegates to %s, MayInvalidate compares nothing" % sorted(a_helpers))
        if ok:
            ck.ok(R, inst, "MayInvalidate examines at least what AntiUnifier examines")
    lt = need_body(ck, facts, R, MI + "::aggregate_lifetimes")
    if lt:
        if is_lit_bool(lt.thir, True):
            ck.ok(R, "lifetimes", "constant true")
        else:
            ck.violation(R, "lifetimes", lt.where(), "AntiUnifier generalizes differing lifetimes, so MayInvalidate::aggregate_lifetimes must stay conservative (true)")
    ac = need_body(ck, facts, R, AU + "::aggregate_consts")
    mc = need_body(ck, facts, R, MI + "::aggregate_consts")
    if ac and mc:
        acm = pair_match(facts.thir(ac.key), "chalk_ir::ConstValue")
        mcm = pair_match(facts.thir(mc.key), "chalk_ir::ConstValue")
        if len(acm) == 1 and len(mcm) == 1:
            cv = facts.variants("chalk_ir::ConstValue")
            for a in cv:
                for b in cv:
                    if "InferenceVar" in (a, b):
                        continue
                    aa = select_arms(acm[0], T(V(a), V(b)))
                    ma = select_arms(mcm[0], T(V(a), V(b)))
                    abody = acm[0]["arms"][aa[0][0]]["body"]
                    mbody = mcm[0]["arms"][ma[0][0]]["body"]
                    a_always_fresh = is_fresh(abody, "const")
                    m_false = is_lit_bool(mbody, False)
                    m_true = is_lit_bool(mbody, True)
                    inst = "consts:(new=%s,current=%s)" % (a, b)
                    if b == "BoundVar":
                        repeated_var.setdefault("consts", []).append((a, mcm[0]["arms"][ma[0][0]]))
                        continue
                    elif a_always_fresh:
                        okc = m_true
                        why = "anti-unifier always generalizes here"
                    else:
                        okc = not m_false and not m_true
                        why = "conditional in both"
                    if okc:
                        ck.ok(R, inst, why)
                    else:
                        ck.violation(R, inst, mc.where(mcm[0]["arms"][ma[0][0]]["ln"]), "MayInvalidate disagrees with the anti-unifier (%s)" % why)
            # the const's type is compared first
            if [c for c in calls(mc.thir, MI + "::aggregate_tys")]:
                ck.ok(R, "consts:type-compared")
            else:
                ck.violation(R, "consts:type-compared", mc.where(), "the const's type must be compared")
        else:
            ck.violation(R, "consts:matches", mc.where(), "expected one (ConstValue, ConstValue) match in each")
    R_rv = "C17.REPEATED-VARIABLE"
    ck.rule(R_rv, "K1: where the current guidance has a variable, MayInvalidate may answer `cannot invalidate` only for the FIRST "
                  "occurrence of that variable, or when the new answer has the same value at every occurrence: the guidance "
                  "`[?0 := ^0.0, ?1 := ^0.0]` says the two unknowns are equal and the answer `[A, B]` invalidates it (the anti-unifier "
                  "would produce two distinct variables).  The arms for (new = anything, current = BoundVar) in aggregate_tys and "
                  "aggregate_consts therefore depend on the variable and on state kept across the arguments of one may_invalidate "
                  "call; a constant `false` is wrong, a constant `true` is merely conservative")
    for what, fn_body in (("tys", mi), ("consts", mc)):
        arms_ = repeated_var.get(what, [])
        if not arms_ or fn_body is None:
            ck.violation(R_rv, "missing-anchor:%s" % what, "", "no arm for (new, current = BoundVar) found in MayInvalidate::aggregate_%s" % what)
            continue
        const_false = [(ka_, arm_) for ka_, arm_ in arms_ if is_lit_bool(arm_["body"], False)]
        inst = "MayInvalidate::aggregate_%s:(new=any,current=BoundVar)" % what
        if const_false:
            ck.violation(R_rv, inst, fn_body.where(const_false[0][1]["ln"]),
                         "answers a constant `false`: a variable that occurs twice in the guidance can be invalidated by an answer with "
                         "different values in the two places, and the aggregation loop stops early with guidance that excludes a solution")
        else:
            ck.ok(R_rv, inst, "not a constant false")
    ns = need_body(ck, facts, R, MI + "::aggregate_name_and_substs")
    if ns:
        th = facts.thir(MI + "::aggregate_name_and_substs")
        ne = any((x.get("k") == "bin" and x["op"] == "Ne") or (x.get("k") == "call" and callee_matches(x, "PartialEq::ne")) for x in walk(th))
        from kit import for_loops as _fl
        # `zip(..).any(|..| aggregate_generic_args(..))`, or the same as a loop: every pair examined, the only way out of the loop is
        # `return true`
        loop_form = False
        for l_, it_, pat_, lbody_ in _fl(th):
            if has_call(it_, "Iterator::zip") and has_call(lbody_, "aggregate_generic_args"):
                rets_ = [x for x in walk(lbody_) if x.get("k") == "return"]
                jumps_ = [x for x in walk(lbody_) if x.get("k") in ("break", "continue")]
                loop_form = not jumps_ and all(is_lit_bool(x.get("e"), True) for x in rets_) and bool(rets_)
        if ne and (has_call(th, "Iterator::any") or loop_form) and has_call(th, "Iterator::zip") and not has_call(th, "Iterator::all"):
            ck.ok(R, "aggregate_name_and_substs", "name differs || any(component may invalidate)")
        else:
            ck.violation(R, "aggregate_name_and_substs", ns.where(), "must be `names differ || zip(..).any(aggregate_generic_args)`")

    # ------------------------------------------------------------------ MAY-DISJUNCTIVE
    R = "C17.MAY-DISJUNCTIVE"
    ck.rule(R, "K10 (symbolic evaluation): every MayInvalidate function answers `true` as soon as ONE of the component tests it makes "
               "(a `!=`, a nested aggregate_* call, an `.any(..)` over parameters) says the components may differ, whatever the other "
               "tests say - the result is a disjunction of the component results.  A conjunction, a negated test or an early "
               "`return false` would let make_solution call guidance final that a pending answer still changes")
    from kit import may_differ_disjunctive, user_block
    # every bool-valued method of MayInvalidate is a component test (whatever it is called)
    mi_methods = {k_.split("::")[-1] for k_, b_ in facts.bodies("chalk_engine").items()
                  if k_.startswith(MI + "::") and "{" not in k_ and b_.d.get("ret") == "bool"}
    n = 0
    for key, b in sorted(facts.bodies("chalk_engine").items()):
        if not (key.startswith(MI + "::") and "{" not in key):
            continue
        if b.d.get("ret") != "bool":
            continue
        th = user_block(facts.thir(key))
        fn = key.split("::")[-1]
        n += may_differ_disjunctive(
            ck, R, "MayInvalidate::" + fn, b.where, th,
            lambda name: name.startswith("aggregate_") or name == "any" or name in mi_methods,
            lambda a: (a.get("k") == "bin" and "%s%s%s" % (var_name(a["l"]) or "?", "!=" if a["op"] == "Ne" else "==", var_name(a["r"]) or "?"))
            or str((a.get("fn") or a.get("res") or a.get("k"))).split("::")[-1])
    ck.floor(R, "component-tests", n, 20)

    # ------------------------------------------------------------------ LEAF-EQUALITY
    R = "C17.LEAF-EQUALITY"
    ck.rule(R, "K1: inside AntiUnifier and MayInvalidate an identity test that decides whether a non-term component (name, placeholder "
               "index, scalar, mutability, lifetime, const) is *kept* / *unchanged* compares the two whole components: both operands of "
               "every `==` / `!=` are the bound components themselves, never a projection of them (a field, a method result) - equal "
               "projections of different values would keep one side's value although the other answer is not an instance of it")
    n = 0
    for key, b in sorted(facts.bodies("chalk_engine").items()):
        if not (("slg::aggregate::AntiUnifier::" in key or "slg::MayInvalidate::" in key) and "{" not in key):
            continue
        th = facts.thir(key)
        for x in walk(th):
            ops = None
            if x.get("k") == "bin" and x.get("op") in ("Eq", "Ne"):
                ops = [x["l"], x["r"]]
            elif x.get("k") == "call" and callee_matches(x, ("PartialEq::eq", "PartialEq::ne")):
                ops = x["args"][:2]
            if ops is None or "assert" in str(x.get("x", "")):
                continue
            n += 1
            fn = key.split("::")[-1]
            shapes = [peel(o).get("k") for o in ops]
            names = [var_name(peel(o)) or "?" for o in ops]
            inst = "%s:%s:%s%s%s" % (key.split("::")[-2], fn, names[0], "==" , names[1])
            if all(sh == "var" for sh in shapes):
                ck.ok(R, inst, "whole components compared")
            else:
                ck.violation(R, inst, b.where(x.get("ln")), "an identity test compares %s instead of the two whole components" % shapes)
    ck.floor(R, "identity-tests", n, 10)

    # ------------------------------------------------------------------ ALL-PARAMS
    R = "C17.ALL-PARAMS"
    ck.rule(R, "K9 (iterator form): SubstitutionExt::may_invalidate compares *every* parameter of the new answer with the current guidance "
               "- zip(..).any(aggregate_generic_args) with no adaptor that drops or picks elements (filter, skip, take ..); a parameter kind "
               "left out (e.g. lifetimes) lets make_solution declare guidance final that a later answer contradicts")
    mi = [k for k in facts.bodies("chalk_engine") if k.endswith("SubstitutionExt>::may_invalidate") and "{" not in k]
    if not mi:
        ck.violation(R, "missing-anchor:may_invalidate", "", "SubstitutionExt::may_invalidate not found")
    else:
        b = facts.body(mi[0])
        th = facts.thir(mi[0])
        DROPPERS = {"filter", "filter_map", "take", "skip", "take_while", "skip_while", "step_by", "find", "find_map", "nth", "last", "flat_map", "position"}
        ads = [str(c.get("fn", "")).split("::")[-1] for c in calls(th) if str(c.get("fn", "")).split("::")[-1] in DROPPERS]
        ok = has_call(th, "Iterator::zip") and has_call(th, "Iterator::any") and has_call(th, "aggregate_generic_args") and not ads
        if ok:
            ck.ok(R, "may_invalidate:zip-any-over-all-parameters")
        else:
            ck.violation(R, "may_invalidate:zip-any-over-all-parameters", b.where(),
                         "parameters are dropped before the comparison (adaptors: %s)" % ads)

    # ------------------------------------------------------------------ SYMMETRY
    R = "C17.SYMMETRY"
    ck.rule(R, "K1: Solution::combine returns the common value when equal, has mirrored trivially-true shortcuts for self and other, "
               "combines guidance through a symmetric pattern matrix with equality guards, and otherwise only builds Solution::Ambig")
    cb = need_body(ck, facts, R, "chalk_solve::solve::Solution::combine")
    if cb:
        th = cb.thir
        ifs = [x for x in walk(th) if x.get("k") == "if"]
        eq_short = any(expr_vars(x["cond"]) >= {"self", "other"} and any(r.get("k") == "return" and var_name(r["e"]) == "self" for r in walk(x["then"]))
                       for x in ifs)
        triv = {}
        for x in ifs:
            cs = [c for c in calls(x["cond"], "is_trivial_and_always_true")]
            if cs:
                who = var_name(cs[0]["args"][0])
                rets = [var_name(r["e"]) for r in walk(x["then"]) if r.get("k") == "return"]
                triv[who] = rets
        if eq_short and triv == {"self": ["self"], "other": ["other"]}:
            ck.ok(R, "combine:shortcuts", "equal -> self; trivially-true side wins, for both sides")
        else:
            ck.violation(R, "combine:shortcuts", cb.where(), "the shortcuts must be mirrored for self and other (found %s, eq=%s)" % (triv, eq_short))
        gm = pair_match(th, "chalk_solve::solve::Guidance")
        if len(gm) != 1:
            ck.violation(R, "combine:guidance-match", cb.where(), "expected one (Guidance, Guidance) match")
        else:
            gv = facts.variants("chalk_solve::solve::Guidance")
            okm = True
            for a in gv:
                for b in gv:
                    ab = select_arms(gm[0], T(V(a), V(b)))
                    ba = select_arms(gm[0], T(V(b), V(a)))
                    def cls(arms):
                        out = []
                        for i, r in arms:
                            e = peel(result_expr(gm[0]["arms"][i]["body"]))
                            out.append((e.get("v") if e.get("k") == "adt" else e.get("k"), r))
                        return out
                    if cls(ab) != cls(ba):
                        okm = False
                        ck.violation(R, "combine:(%s,%s)" % (a, b), cb.where(), "guidance combination is not symmetric: %s vs %s" % (cls(ab), cls(ba)))
                    # a guarded arm must not strengthen: (X,X) guarded -> X ; everything else Unknown
                    for i, r in ab:
                        e = peel(result_expr(gm[0]["arms"][i]["body"]))
                        v = e.get("v") if e.get("k") == "adt" else None
                        if v not in ("Unknown",) and not (a == b == v and gm[0]["arms"][i].get("guard") is not None):
                            okm = False
                            ck.violation(R, "combine:(%s,%s)->%s" % (a, b, v), cb.where(gm[0]["arms"][i]["ln"]), "combining %s with %s must not yield %s" % (a, b, v))
            for arm in gm[0]["arms"]:
                g = arm.get("guard")
                if g is not None:
                    e = peel(g)
                    iseq = (e.get("k") == "bin" and e["op"] == "Eq") or (e.get("k") == "call" and callee_matches(e, "PartialEq::eq"))
                    if not iseq or len(expr_vars(e)) != 2:
                        okm = False
                        ck.violation(R, "combine:guard", cb.where(arm["ln"]), "guards must be plain equalities between the two sides")
            if okm:
                ck.ok(R, "combine:guidance-matrix", "symmetric; keeps X only for equal (X,X)")
        sol = [x["v"] for x in walk(th) if x.get("k") == "adt" and x["adt"] == "chalk_solve::solve::Solution"]
        if sol and set(sol) == {"Ambig"}:
            ck.ok(R, "combine:only-downgrades", "constructs only Solution::Ambig")
        else:
            ck.violation(R, "combine:only-downgrades", cb.where(), "combine constructs %s; it may only downgrade to Ambig" % sol)
