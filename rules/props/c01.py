"""C01 - a definite answer from either solver matches the program's logical meaning.

Not decided: soundness / completeness of SLG resolution or of the recursive fixed point.
Decided - four contracts every sound implementation must keep:
  UNIQUE-GUARD    `Solution::Unique` is only built when there is exactly one, unconditional answer / a complete, provable outcome
  AMBIG-PROP      ambiguity is monotone: wherever an ambiguous bit is read on a path that lets the consumer continue, the
                  consumer's own bit is set before it returns normally
  NEG-GROUND      negative literals are only ever solved through InferenceTable::invert (which refuses free existentials),
                  and a negative goal fails only on a *unique* answer to the inverted goal
  CLAUSE-COMPLETE Implemented-From-Impl uses both the impl's trait ref and all of its where clauses, for positive impls only
"""
from core import (enum_matches, select_arms, V, T, walk, calls, peel, callee_matches, var_name, expr_vars, trace_is_call,
                  trace_is_field, CallGraph, place_fields)
from kit import need_body, has_call, short, guard_sites, result_expr, mentions_field, reachable_nodes

ENG = "chalk_engine::logic::SolveState::"
MAKE = "<chalk_engine::slg::SlgContextOps as chalk_engine::slg::aggregate::AggregateOps>::make_solution"
FUL = "chalk_recursive::fulfill::Fulfill::"
AMB = "chalk_engine::ExClause.ambiguous"
CANNOT = "chalk_recursive::fulfill::Fulfill.cannot_prove"


def write_blocks(cfg, field, const=None):
    out = []
    for b, j, st in cfg.field_writes(field):
        if j == "term":
            continue
        r = st["r"]
        if const is None or (r.get("k") == "use" and r["o"].get("k") == const):
            out.append(b)
    return out


def all_paths_pass(cfg, start, through, also_ok=()):
    """every path from `start` to a normal return passes one of `through` (or ends in one of also_ok)"""
    stop = set(through) | set(also_ok)
    reach = cfg.reachable(start, (), False, stop=stop)
    return not (set(cfg.return_blocks()) & (reach - stop))


def factor_step(ck, facts, R):
    """SLG FACTOR: a positive literal resolved with an answer inherits that answer's `ambiguous` bit - in every answer mode."""
    ck.rule(R, "K3 must-pass-through: in SolveState::merge_answer_into_strand every path from the Ok edge of apply_answer_subst to the "
               "return passes a test of the merged answer's `ambiguous` bit (on whose true edge the strand becomes ambiguous - "
               "AMBIG-PROP).  The early return that flounders ambiguous answers exists only for tables in AnswerMode::Complete; a "
               "cyclic strand parked before its table switched to Ambiguous mode merges an ambiguous answer directly, and without "
               "the test it publishes an unconditional answer resting on an unproven premise: SLG says Unique where the recursive "
               "solver says No possible solution")
    ma = need_body(ck, facts, R, ENG + "merge_answer_into_strand")
    if not ma:
        return
    cfg = ma.cfg
    is_res = lambda tr: tr.get("of", {}).get("kind") == "call" and callee_matches(tr["of"]["call"], "apply_answer_subst")
    ok_edges = cfg.variant_edges(is_res, ["Ok"])
    reads = sorted({e[0] for w in (True, False) for e in cfg.bool_edges(trace_is_field("chalk_engine::Answer.ambiguous"), w)})
    ck.floor(R, "merge.apply_answer_subst-Ok-edges", len(ok_edges), 1)
    for i, e in enumerate(ok_edges):
        key = "merge_answer_into_strand:resolved-literal-inherits-ambiguity#%d" % i
        if reads and all_paths_pass(cfg, e[1], reads):
            ck.ok(R, key, "every path to the return tests answer.ambiguous")
        else:
            ck.violation(R, key, ma.where(cfg.blocks[e[0]]["t"].get("ln")),
                         "after the answer substitution was applied the strand can return without looking at the answer's ambiguous bit")


def run(ck, facts, tier):
    factor_step(ck, facts, "C01.FACTOR")
    from shared import identity as _idn
    _idn.identity_predicates(ck, facts, "C01.TRIVIAL-IS-IDENTITY")
    from props.c03 import cycle_minimums
    cycle_minimums(ck, facts, "C01.CYCLE-MINIMUMS")
    from shared import fixedpoint as _fpx
    _fpx.loop_exits(ck, facts, "C01.FIXPOINT-EXITS")
    from shared import clauses as _cl
    _cl.every_clause(ck, facts, "C01.EVERY-CLAUSE")
    from shared import fixedpoint
    fixedpoint.table(ck, facts, "C01.FIXED-POINT-TABLE", which=("stale",))
    from shared import zippers
    zippers.answer_subst(ck, facts, "C01.ANSWER-SUBST")
    # ------------------------------------------------------------------ UNIQUE-GUARD
    R = "C01.UNIQUE-GUARD"
    ck.rule(R, "K3: in make_solution every `Solution::Unique` is reachable only through the true edge of next_answer.is_no_more_solutions() "
               "and the false edge of the first answer's `ambiguous`; in Fulfill::solve only through outcome.is_complete() == true and "
               "self.cannot_prove == false")
    mk = need_body(ck, facts, R, MAKE)
    if mk:
        cfg = mk.cfg
        sites = [b for b, j, st in cfg.agg_sites("chalk_solve::solve::Solution", "Unique")]
        n1 = guard_sites(ck, R, mk, sites, cfg.bool_edges(trace_is_call("AnswerResult::is_no_more_solutions"), True), "Solution::Unique", "is_no_more_solutions()")
        n2 = guard_sites(ck, R, mk, sites, cfg.bool_edges(trace_is_field("chalk_engine::CompleteAnswer.ambiguous"), False), "Solution::Unique", "!ambiguous")
        ck.floor(R, "make_solution.Unique-sites", min(n1, n2), 1)
    fs = need_body(ck, facts, R, FUL + "solve")
    if fs:
        cfg = fs.cfg
        sites = [b for b, j, st in cfg.agg_sites("chalk_solve::solve::Solution", "Unique")]
        n1 = guard_sites(ck, R, fs, sites, cfg.bool_edges(trace_is_call("Outcome::is_complete"), True), "Solution::Unique", "outcome.is_complete()")
        n2 = guard_sites(ck, R, fs, sites, cfg.bool_edges(trace_is_field(CANNOT), False), "Solution::Unique", "!self.cannot_prove")
        ck.floor(R, "Fulfill::solve.Unique-sites", min(n1, n2), 1)
        # the complete outcome comes from `obligations.is_empty()`
        fu = facts.body(FUL + "fulfill")
        if fu:
            c2 = fu.cfg
            comp = [b for b, j, st in c2.agg_sites("chalk_recursive::fulfill::Outcome", "Complete")]
            guard_sites(ck, R, fu, comp, c2.bool_edges(trace_is_call("Vec::is_empty"), True), "Outcome::Complete", "self.obligations.is_empty()")
    # who else constructs Unique?
    cg = CallGraph(facts, ["chalk_solve", "chalk_engine", "chalk_recursive"])
    allowed = {MAKE: "exactly one unconditional answer", FUL + "solve": "complete outcome",
               "<&dyn chalk_solve::RustIrDatabase<I> as chalk_recursive::fixed_point::SolverStuff>::initial_value": "coinductive start value (C05.INIT)"}
    n = 0
    for k, b in cg.bodies.items():
        if b.d.get("x") and "derive" in b.d["x"]:
            continue
        for blk, j, st in b.cfg.agg_sites("chalk_solve::solve::Solution", "Unique"):
            n += 1
            base = k.split("::{")[0]
            if any(base == a or base.endswith(a.split("::")[-1]) and a.split("::")[-2] in base for a in allowed):
                ck.ok(R, "constructs-Unique:%s" % short(k), "audited")
            else:
                ck.violation(R, "constructs-Unique:%s" % short(k), b.where(st.get("ln")), "new construction site of Solution::Unique outside the audited producers")
    ck.floor(R, "Unique-constructions", n, 2)

    # ------------------------------------------------------------------ AMBIG-PROP
    R = "C01.AMBIG-PROP"
    ck.rule(R, "K3/dataflow: (a) merge_answer_into_strand: on every `answer.ambiguous == true` edge all paths to the return set "
               "ex_clause.ambiguous or flounder the subgoal; an unambiguous answer to a negative literal ends in Err; (b) select_subgoal sets "
               "ambiguous when only floundered subgoals remain; (c) simplify_goal / push_goal turn CannotProve and refused subtype goals into "
               "ambiguity; (d) answers inherit the strand's bit (pursue_answer, root_answer, create_refinement_strand); (e) an ambiguous "
               "sub-solution keeps its obligation (Fulfill::fulfill), truncation sets cannot_prove")
    ma = need_body(ck, facts, R, ENG + "merge_answer_into_strand")
    if ma:
        cfg = ma.cfg
        writes = write_blocks(cfg, AMB, "true")
        fl = cfg.call_blocks(ENG + "flounder_subgoal")
        amb_true = cfg.bool_edges(trace_is_field("chalk_engine::Answer.ambiguous"), True)
        amb_false = cfg.bool_edges(trace_is_field("chalk_engine::Answer.ambiguous"), False)
        ck.floor(R, "merge.ambiguous-reads", len(amb_true), 2)
        ck.floor(R, "merge.ambiguous-writes", len(writes), 1)
        for e in amb_true:
            inst = "merge_answer_into_strand:ambiguous-answer@bb%s" % ("pos" if False else "")
            errs = [b for b, j, st in cfg.agg_sites("core::result::Result", "Err")]
            ok = all_paths_pass(cfg, e[1], writes + fl)
            key = "merge_answer_into_strand:ambiguous-answer-edge#%d" % amb_true.index(e)
            if ok:
                ck.ok(R, key, "all paths to return set ex_clause.ambiguous or flounder the subgoal")
            else:
                ck.violation(R, key, ma.where(cfg.blocks[e[0]]["t"].get("ln")),
                             "after reading an ambiguous answer the strand can return normally without becoming ambiguous: a conditional "
                             "answer would be reported as definite")
        # negative literal: unambiguous answer => Err
        full = {i for i, t_ in cfg.switches() if len(t_["v"]) >= 2}   # the `match subgoal { Positive.. Negative.. }` itself
        neg_edges = [e for e in cfg.variant_edges(lambda tr: tr.get("adt") == "chalk_engine::Literal", ["Negative"]) if e[0] in full]
        pos_edges = [e for e in cfg.variant_edges(lambda tr: tr.get("adt") == "chalk_engine::Literal", ["Positive"]) if e[0] in full]
        neg_region = set()
        for e in neg_edges:
            neg_region |= cfg.reachable(e[1])
        pos_region = set()
        for e in pos_edges:
            pos_region |= cfg.reachable(e[1])
        only_neg = neg_region - pos_region
        neg_false = [e for e in amb_false if e[0] in only_neg]
        if neg_false:
            bad = [e for e in neg_false if set(cfg.return_blocks()) & cfg.reachable(e[1], (), False, stop=set(
                b for b, j, st in cfg.agg_sites("core::result::Result", "Err"))) - set(b for b, j, st in cfg.agg_sites("core::result::Result", "Err"))]
            if not bad:
                ck.ok(R, "merge_answer_into_strand:negative-literal:definite-answer->Err")
            else:
                ck.violation(R, "merge_answer_into_strand:negative-literal:definite-answer->Err", ma.where(),
                             "an unconditional answer to a negated subgoal must fail the strand")
        else:
            ck.violation(R, "merge_answer_into_strand:negative-literal:definite-answer->Err", ma.where(), "negative arm's ambiguity test not found")
    ss = need_body(ck, facts, R, ENG + "select_subgoal")
    if ss:
        cfg = ss.cfg
        writes = write_blocks(cfg, AMB, "true")
        rec = cfg.call_blocks(ENG + "reconsider_floundered_subgoals")
        ns = [b for b, j, st in cfg.agg_sites("chalk_engine::logic::SubGoalSelection", "NotSelected")]
        after = [b for b in ns if rec and cfg.must_pass_blocks(b, rec)]
        ok = bool(writes) and bool(after) and all(cfg.must_pass_blocks(b, writes) or b in writes for b in after)
        if ok:
            ck.ok(R, "select_subgoal:only-floundered-subgoals->ambiguous")
        else:
            ck.violation(R, "select_subgoal:only-floundered-subgoals->ambiguous", ss.where(),
                         "a strand whose remaining subgoals all floundered must be marked ambiguous before it is treated as an answer")
    for key, adt, what in (("chalk_engine::forest::Forest::simplify_goal", "chalk_ir::GoalData", "ex_clause.ambiguous"),
                           (FUL + "push_goal", "chalk_ir::GoalData", "cannot_prove")):
        b = need_body(ck, facts, R, key)
        if not b:
            continue
        ms = enum_matches(facts.thir(b.key), adt)
        if len(ms) != 1:
            ck.violation(R, "%s:match" % short(key), b.where(), "expected one match on GoalData")
            continue
        arm = ms[0]["arms"][select_arms(ms[0], V("CannotProve"))[0][0]]
        fld = what.split(".")[-1]
        sets = any(n.get("k") == "assign" and mentions_field(n["l"], fld) and "true" in str(peel(n["r"]).get("v")) for n in walk(arm["body"]))
        if sets:
            ck.ok(R, "%s:CannotProve->%s" % (short(key), what))
        else:
            ck.violation(R, "%s:CannotProve->%s" % (short(key), what), b.where(arm["ln"]), "a CannotProve goal must make the result ambiguous")
    po = need_body(ck, facts, R, FUL + "push_obligation")
    if po:
        cfg = po.cfg
        trunc = cfg.bool_edges(trace_is_call("needs_truncation"), True)
        w = write_blocks(cfg, CANNOT, "true")
        ok = bool(trunc) and bool(w) and all(all_paths_pass(cfg, e[1], w) for e in trunc)
        if ok:
            ck.ok(R, "push_obligation:truncated->cannot_prove", "%d truncation edge(s)" % len(trunc))
        else:
            ck.violation(R, "push_obligation:truncated->cannot_prove", po.where(), "dropping an oversized obligation must set cannot_prove")
        ck.floor(R, "push_obligation.truncation-edges", len(trunc), 1)
    pa = need_body(ck, facts, R, ENG + "pursue_answer")
    if pa:
        ans = [n for n in walk(pa.thir) if n.get("k") == "adt" and n["adt"] == "chalk_engine::Answer"]
        exc = [n for n in walk(pa.thir) if n.get("k") == "let" and n["pat"].get("k") == "leaf" and n["pat"].get("adt") == "chalk_engine::ExClause"]
        src = None
        if exc:
            for idx, name, sp in exc[0]["pat"]["sub"]:
                if name == "ambiguous" and sp.get("k") == "bind":
                    src = sp["n"]
        f = dict((a, b) for a, b in ans[0]["fields"]) if len(ans) == 1 else {}
        if src and var_name(f.get("ambiguous")) == src:
            ck.ok(R, "pursue_answer:Answer.ambiguous=strand.ambiguous")
        else:
            ck.violation(R, "pursue_answer:Answer.ambiguous=strand.ambiguous", pa.where(), "the tabled answer must carry the strand's ambiguity bit")
    ra = need_body(ck, facts, R, "chalk_engine::forest::Forest::root_answer")
    if ra:
        ca = [n for n in walk(ra.thir) if n.get("k") == "adt" and n["adt"] == "chalk_engine::CompleteAnswer"]
        f = dict((a, b) for a, b in ca[0]["fields"]) if len(ca) == 1 else {}
        e = peel(f.get("ambiguous")) if f else {}
        if isinstance(e, dict) and e.get("k") == "field" and e["n"] == "ambiguous" and e.get("adt") == "chalk_engine::Answer":
            ck.ok(R, "root_answer:CompleteAnswer.ambiguous=answer.ambiguous")
        else:
            ck.violation(R, "root_answer:CompleteAnswer.ambiguous=answer.ambiguous", ra.where(), "the root answer must carry the table answer's bit")
    cr = need_body(ck, facts, R, ENG + "create_refinement_strand")
    if cr:
        ex = [n for n in walk(cr.thir) if n.get("k") == "adt" and n["adt"] == "chalk_engine::ExClause"]
        f = dict((a, b) for a, b in ex[0]["fields"]) if len(ex) == 1 else {}
        e = peel(f.get("ambiguous")) if f else {}
        if isinstance(e, dict) and e.get("k") == "field" and e["n"] == "ambiguous":
            ck.ok(R, "create_refinement_strand:inherits-ambiguous")
        else:
            ck.violation(R, "create_refinement_strand:inherits-ambiguous", cr.where(), "a refinement strand must inherit the answer's ambiguity")
    fu = need_body(ck, facts, R, FUL + "fulfill")
    if fu:
        from kit import FlagFlow
        th = facts.thir(FUL + "fulfill")             # closures and single-use helpers spliced in
        flow = FlagFlow(th)
        # some `if <flag> { obligations.push(obligation) }` whose flag derives from Solution::is_ambig (through lets, match values,
        # tuples returned by a spliced helper) - no variable name is assumed
        keeps = [n for n in walk(th) if n.get("k") == "if" and has_call(n["then"], "Vec::push") and flow.depends_on_call(n["cond"], "Solution::is_ambig")]
        src_ok = bool(keeps)
        if keeps and src_ok:
            ck.ok(R, "fulfill:ambiguous-solution-keeps-obligation")
        else:
            ck.violation(R, "fulfill:ambiguous-solution-keeps-obligation", fu.where(), "an obligation whose solution is ambiguous must stay pending")

    from props.c10 import scc_links
    scc_links(ck, facts, "C01.PROVISIONAL")
    from shared import state as _st
    _st.any_future_answer(ck, facts, "C01.ANY-FUTURE")

    # ------------------------------------------------------------------ NEG-GROUND
    R = "C01.NEG-GROUND"
    ck.rule(R, "K3/K4: InferenceTable::invert is called only by abstract_negative_literal and invert_then_canonicalize; negative literals "
               "reach a table only through abstract_negative_literal; Fulfill::refute fails (Err) only on the is_unique() edge and is "
               "ambiguous when inversion is refused")
    callers = cg.callers_of(lambda k: k == "chalk_solve::infer::InferenceTable::invert")
    ok_callers = {"chalk_engine::forest::Forest::abstract_negative_literal", "chalk_solve::infer::InferenceTable::invert_then_canonicalize"}
    ck.floor(R, "invert-callers", len(callers), 2)
    for k, blk, t in callers:
        if k in ok_callers:
            ck.ok(R, "invert-caller:%s" % short(k))
        else:
            ck.violation(R, "invert-caller:%s" % short(k), cg.bodies[k].where(t.get("ln")), "new caller of invert; is its None result treated as ambiguity?")
    gs = need_body(ck, facts, R, "chalk_engine::forest::Forest::get_or_create_table_for_subgoal")
    if gs:
        ms = enum_matches(facts.thir(gs.key), "chalk_engine::Literal")
        if len(ms) == 1:
            arm = ms[0]["arms"][select_arms(ms[0], V("Negative"))[0][0]]
            if has_call(arm["body"], "abstract_negative_literal") and not has_call(arm["body"], "abstract_positive_literal"):
                ck.ok(R, "get_or_create_table_for_subgoal:Negative->abstract_negative_literal")
            else:
                ck.violation(R, "get_or_create_table_for_subgoal:Negative->abstract_negative_literal", gs.where(arm["ln"]),
                             "negative literals must be inverted before tabling")
        else:
            ck.violation(R, "get_or_create_table_for_subgoal:match", gs.where(), "expected a match on Literal")
    rf = need_body(ck, facts, R, FUL + "refute")
    if rf:
        cfg = rf.cfg
        errs = [b for b, j, st in cfg.agg_sites("core::result::Result", "Err")]
        n = guard_sites(ck, R, rf, errs, cfg.bool_edges(trace_is_call("Solution::is_unique"), True), "Err(NoSolution)", "solution.is_unique()")
        ck.floor(R, "refute.Err-sites", n, 1)
        ms = [m for m in walk(rf.thir) if m.get("k") == "match" and has_call(m["scrut"], "invert_then_canonicalize")]
        okn = False
        if ms:
            a = select_arms(ms[0], V("None"))
            okn = any(n_.get("k") == "adt" and n_.get("v") == "Ambiguous" for n_ in walk(ms[0]["arms"][a[0][0]]["body"]))
        if okn:
            ck.ok(R, "refute:inversion-refused->Ambiguous")
        else:
            ck.violation(R, "refute:inversion-refused->Ambiguous", rf.where(), "a negative goal with free existentials must be ambiguous, not decided")

    # ------------------------------------------------------------------ CLAUSE-COMPLETE
    R = "C01.CLAUSE-COMPLETE"
    ck.rule(R, "K2: ImplDatum::to_program_clauses pushes `trait_ref :- where_clauses` using both fields of ImplDatumBound, only for "
               "positive impls; TraitDatum pushes `Implemented(trait_ref) :- FromEnv(trait_ref)`")
    key = "<chalk_solve::rust_ir::ImplDatum as chalk_solve::clauses::program_clauses::ToProgramClauses>::to_program_clauses"
    ib = need_body(ck, facts, R, key)
    if ib:
        th = facts.thir(key)
        pos = [(n, l) for n, l in reachable_nodes(th, {"is_positive": True}) if n.get("k") == "call" and (n.get("fn") or "").endswith("push_clause")]
        neg = [(n, l) for n, l in reachable_nodes(th, {"is_positive": False}) if n.get("k") == "call" and (n.get("fn") or "").endswith(("push_clause", "push_fact"))]
        fields = {f["n"] for f in facts.adt("chalk_solve::rust_ir::ImplDatumBound")["variants"][0]["fields"]}
        okc = False
        if len(pos) == 1:
            args = pos[0][0]["args"]
            clo = [c for c in walk(th) if c.get("k") == "closure" and c.get("params")]
            bound = {}
            for c in clo:
                for p in c["params"] or []:
                    if isinstance(p, dict) and p.get("k") == "leaf":
                        for idx, name, sp in p.get("sub", []):
                            if sp.get("k") == "bind":
                                bound[sp["n"]] = name
            okc = bound.get(var_name(args[1])) == "trait_ref" and bound.get(var_name(args[2])) == "where_clauses" and set(bound.values()) >= fields
        if okc and not neg:
            ck.ok(R, "ImplDatum:trait_ref:-where_clauses (positive impls only)")
        else:
            ck.violation(R, "ImplDatum:trait_ref:-where_clauses (positive impls only)", ib.where(),
                         "the impl clause must have consequence = trait_ref and conditions = all where_clauses, and negative impls must push nothing")
    tkey = "<chalk_solve::rust_ir::TraitDatum as chalk_solve::clauses::program_clauses::ToProgramClauses>::to_program_clauses"
    tb = need_body(ck, facts, R, tkey)
    if tb:
        th = facts.thir(tkey)
        okc = False
        for c in calls(th, "push_clause"):
            a = c["args"]
            if len(a) == 3 and var_name(peel(a[1]).get("args", [a[1]])[0] if peel(a[1]).get("k") == "call" else a[1]) == "trait_ref" \
                    and has_call(a[2], "from_env") and "trait_ref" in expr_vars(a[2]):
                okc = True
        if okc:
            ck.ok(R, "TraitDatum:Implemented:-FromEnv")
        else:
            ck.violation(R, "TraitDatum:Implemented:-FromEnv", tb.where(), "missing `Implemented(trait_ref) :- FromEnv(trait_ref)`")
