"""C21 - well-formedness checking guarantees the bounds it lets code assume.

Not decided: that the WF goals are the right goals.
Decided:
  PIPELINE   checked_program runs coherence, then verify_adt_decl / verify_opaque_ty_decl / verify_trait_impl for *every* id of the
             program, propagating every error; each verify_* answers Ok only on the true edge of has_unique_solution on a closed goal
             solved by a fresh solver
  ENV        impl_wf_environment = FromEnv(where clauses) ++ FromEnv(input types of the trait ref); impl_header_wf_goal proves WF of the
             input types of the where clauses and WF(trait_ref) under it; negative impls are skipped
  COLLECTOR  InputTypeCollector pushes every rigid type it descends into and descends into every component; all four WhereClause
             variants are handled
"""
import re
from core import enum_matches, select_arms, V, walk, calls, peel, callee_matches, var_name, expr_vars, trace_is_call
from kit import collector_never_breaks, need_body, has_call, short, guard_sites, result_expr, mentions_field, thir_all

WF = "chalk_solve::wf::"
TERM = re.compile(r"chalk_ir::(Ty|Substitution|Lifetime|Const|DynTy|ProjectionTy|OpaqueTy|AliasTy)<")


def run(ck, facts, tier):
    from shared import clauses as _clx
    _clx.clauses_no_drop(ck, facts, "C21.CLAUSES-NO-DROP")
    R = "C21.PIPELINE"
    ck.rule(R, "K3/K4: checked_program calls coherence()? first, then loops over adt_data.keys(), opaque_ty_data.keys() and impl_data.keys() "
               "calling the matching verify_* with `?`; every verify_* builds Ok only on has_unique_solution == true and its WfError only on "
               "false, for a goal closed with into_closed_goal and a solver freshly built from solver_builder")
    cp = need_body(ck, facts, R, "chalk_integration::query::checked_program")
    if cp:
        th = facts.thir("chalk_integration::query::checked_program")

        def tried(node, fn):
            for m in walk(node):
                if m.get("k") == "match" and m.get("src", "").startswith("TryDesugar") and has_call(m["scrut"], fn):
                    return True
            return False
        if tried(th, "coherence"):
            ck.ok(R, "checked_program:coherence()?")
        else:
            ck.violation(R, "checked_program:coherence()?", cp.where(), "coherence errors must be propagated before WF checking")
        loops = [n for n in walk(th) if n.get("k") == "match" and n.get("src", "").startswith("ForLoopDesugar") and has_call(n["scrut"], "into_iter")]
        want = {"verify_adt_decl": "adt_data", "verify_opaque_ty_decl": "opaque_ty_data", "verify_trait_impl": "impl_data"}
        for fn, fld in want.items():
            hit = False
            for lp in loops:
                if mentions_field(lp["scrut"], fld) and has_call(lp["scrut"], "keys") and not has_call(lp["scrut"], ("filter", "take", "skip")) \
                        and tried(lp, WF + "WfSolver::" + fn):
                    hit = True
            if hit:
                ck.ok(R, "checked_program:for id in %s.keys() { %s(id)? }" % (fld, fn))
            else:
                ck.violation(R, "checked_program:for id in %s.keys() { %s(id)? }" % (fld, fn), cp.where(),
                             "every %s entry must be verified and its error propagated" % fld)
    for fn, err in (("verify_adt_decl", "IllFormedTypeDecl"), ("verify_trait_impl", "IllFormedTraitImpl"), ("verify_opaque_ty_decl", "IllFormedOpaqueTypeDecl")):
        b = need_body(ck, facts, R, WF + "WfSolver::" + fn)
        if not b:
            continue
        cfg = b.cfg
        t_edges = cfg.bool_edges(trace_is_call("has_unique_solution"), True)
        f_edges = cfg.bool_edges(trace_is_call("has_unique_solution"), False)
        oks = [blk for blk, j, st in cfg.agg_sites("core::result::Result", "Ok")]
        errs = [blk for blk, j, st in cfg.agg_sites("chalk_solve::wf::WfError", err)]
        n1 = guard_sites(ck, R, b, oks, t_edges, "%s:Ok(())" % fn, "has_unique_solution(..)")
        n2 = guard_sites(ck, R, b, errs, f_edges, "%s:Err(%s)" % (fn, err), "!has_unique_solution(..)")
        ck.floor(R, fn + ".result-sites", min(n1, n2), 1)
        th = facts.thir(WF + "WfSolver::" + fn)
        hs = [c for c in calls(th, "has_unique_solution")]
        closed = hs and (has_call(hs[0]["args"][2], "into_closed_goal") or any(
            st.get("k") == "let" and st["pat"].get("n") == var_name(hs[0]["args"][2]) and has_call(st["init"], "into_closed_goal") for st in walk(th)))
        fresh = any(c.get("k") == "call" and (c.get("fn") or "").endswith("Fn::call") and mentions_field(c, "solver_builder") for c in walk(th))
        if closed and fresh:
            ck.ok(R, "%s:closed-goal+fresh-solver" % fn)
        else:
            ck.violation(R, "%s:closed-goal+fresh-solver" % fn, b.where(), "the WF goal must be closed (into_closed_goal) and solved by a solver built for this check (closed=%s fresh=%s)" % (bool(closed), fresh))

    R = "C21.ENV"
    ck.rule(R, "K2: impl_wf_environment chains FromEnv of every where clause with FromEnv of every input type of the *trait ref*; "
               "impl_header_wf_goal returns None for negative impls and otherwise proves, under that environment, WF of every input type of the "
               "*where clauses* chained with WF(trait_ref)")
    ie = need_body(ck, facts, R, WF + "impl_wf_environment")
    if ie:
        th = facts.thir(WF + "impl_wf_environment")
        ch = [c for c in calls(th, "Iterator::chain")]
        ti = [c for c in calls(th, "InputTypeCollector::types_in")]
        ok = len(ch) == 1 and len(ti) == 1 and var_name(ti[0]["args"][1]) == "trait_ref" and len([c for c in calls(th, "into_from_env_goal")]) >= 2 \
            and any(st.get("k") == "let" and st["pat"].get("n") == "wc" and "where_clauses" in expr_vars(st["init"]) for st in walk(th)) \
            and {var_name(a) for a in ch[0]["args"]} == {"wc", "types_wf"}
        if ok:
            ck.ok(R, "impl_wf_environment", "FromEnv(where_clauses) ++ FromEnv(types_in(trait_ref))")
        else:
            ck.violation(R, "impl_wf_environment", ie.where(), "the impl environment must contain both the where clauses and the trait ref's input types")
    ih = need_body(ck, facts, R, WF + "impl_header_wf_goal")
    if ih:
        th = facts.thir(WF + "impl_header_wf_goal")
        neg = any(n.get("k") == "if" and has_call(n["cond"], "is_positive") and peel(n["cond"]).get("k") == "un" and
                  any(x.get("k") == "return" for x in walk(n["then"])) for n in walk(th))
        ti = [c for c in calls(th, "InputTypeCollector::types_in")]
        env = [c for c in calls(th, WF + "impl_wf_environment")]
        ch = [c for c in calls(th, "Iterator::chain")]
        wf = [c for c in calls(th, "well_formed")]
        ok = neg and len(ti) == 1 and "where_clauses" in expr_vars(ti[0]["args"][1]) and len(env) == 1 and \
            ["where_clauses" in expr_vars(env[0]["args"][1]), "trait_ref" in expr_vars(env[0]["args"][2])] == [True, True] and len(ch) == 1 and "trait_ref" in expr_vars(ch[0]["args"][1]) \
            and len(wf) >= 2 and has_call(th, "GoalBuilder::implies") and has_call(th, "GoalBuilder::forall")
        if ok:
            ck.ok(R, "impl_header_wf_goal", "negative -> None; forall { env => WF(types_in(where_clauses)) ++ WF(trait_ref) }")
        else:
            ck.violation(R, "impl_header_wf_goal", ih.where(), "header WF goal changed shape (negative-skip=%s types_in=%d env=%d chain=%d)" % (neg, len(ti), len(env), len(ch)))
    vt = need_body(ck, facts, R, WF + "WfSolver::verify_trait_impl")
    if vt:
        th = facts.thir(WF + "WfSolver::verify_trait_impl")
        if has_call(th, WF + "impl_header_wf_goal") and has_call(th, WF + "compute_assoc_ty_goal") and has_call(th, "Iterator::chain") and has_call(th, "Goal::all"):
            ck.ok(R, "verify_trait_impl:header-and-assoc-type-goals")
        else:
            ck.violation(R, "verify_trait_impl:header-and-assoc-type-goals", vt.where(), "the impl goal must conjoin the header goal with every associated type value's goal")

    R = "C21.COLLECTOR"
    ck.rule(R, "K1: InputTypeCollector::visit_ty calls push_ty in every arm for a rigid TyKind (all but BoundVar, Function, InferenceVar) and "
               "visits every term-carrying component; visit_where_clause descends into Implemented, AliasEq (alias) and TypeOutlives (type)")
    base = "<chalk_solve::wf::InputTypeCollector as chalk_ir::visit::TypeVisitor>::"
    vt = need_body(ck, facts, R, base + "visit_ty")
    if vt:
        ms = enum_matches(facts.thir(vt.key), "chalk_ir::TyKind")
        if len(ms) != 1:
            ck.violation(R, "visit_ty:match", vt.where(), "expected one match on TyKind")
        else:
            m = ms[0]
            n = 0
            tyk = facts.adt("chalk_ir::TyKind")
            for v in tyk["variants"]:
                k = v["n"]
                arms = select_arms(m, V(k))
                for i, r in arms:
                    arm = m["arms"][i]
                    n += 1
                    pushes = any(c.get("k") == "call" and (var_name(c.get("fun")) == "push_ty" or "push_ty" in expr_vars(c)) for c in walk(arm["body"]))
                    inst = "visit_ty:TyKind::%s" % k
                    if k in ("BoundVar", "Function", "InferenceVar"):
                        if not pushes:
                            ck.ok(R, inst, "not an input type")
                        else:
                            ck.violation(R, inst, vt.where(arm["ln"]), "unexpected push for %s" % k)
                        continue
                    # term components bound and visited
                    binds = {}
                    def collect(p, prefix=""):
                        if p.get("k") == "variant":
                            for idx, _n, sp in p.get("sub", []):
                                if sp.get("k") == "bind":
                                    binds[sp["n"]] = sp.get("ty", "")
                                else:
                                    collect(sp)
                        if p.get("k") == "or":
                            collect(p["pats"][0])
                    collect(arm["pat"])
                    visited = set()
                    for c in calls(arm["body"], "visit_with"):
                        visited |= expr_vars(c["args"][0])
                    nterm = [f for f in v["fields"] if TERM.search(f["ty"])]
                    missing = [b for b, ty in binds.items() if TERM.search(ty) and b not in visited]
                    unbound_terms = len(nterm) - len([b for b, ty in binds.items() if TERM.search(ty)])
                    if pushes and not missing and unbound_terms <= 0:
                        ck.ok(R, inst, "pushed; %d component(s) visited" % len(nterm))
                    else:
                        ck.violation(R, inst, vt.where(arm["ln"]), "type of this kind %s%s" % (
                            "is not recorded as an input type" if not pushes else "",
                            "; component(s) %s not visited" % (missing or "<wildcard>") if (missing or unbound_terms > 0) else ""))
            ck.floor(R, "visit_ty.arms", n, 24)
    vw = need_body(ck, facts, R, base + "visit_where_clause")
    if vw:
        ms = enum_matches(facts.thir(vw.key), "chalk_ir::WhereClause")
        if len(ms) != 1:
            ck.violation(R, "visit_where_clause:match", vw.where(), "expected one match on WhereClause")
        else:
            want = {"Implemented": True, "AliasEq": True, "TypeOutlives": True, "LifetimeOutlives": False}
            for v in facts.variants("chalk_ir::WhereClause"):
                arm = ms[0]["arms"][select_arms(ms[0], V(v))[0][0]]
                visits = has_call(arm["body"], "visit_with")
                if v not in want:
                    ck.violation(R, "visit_where_clause:%s" % v, vw.where(arm["ln"]), "new WhereClause variant; extend the rule deliberately")
                elif visits == want[v]:
                    ck.ok(R, "visit_where_clause:%s" % v, "descends" if visits else "no types inside")
                else:
                    ck.violation(R, "visit_where_clause:%s" % v, vw.where(arm["ln"]), "input types of `%s` clauses are %scollected" % (v, "" if visits else "not "))

    R = "C21.COLLECT-ALL"
    ck.rule(R, "K1: InputTypeCollector (the visitor that gathers the types whose well-formedness is demanded / assumed) never aborts its "
               "traversal: no visit method returns ControlFlow::Break, so a type parameter, fn pointer or other leaf met early cannot hide "
               "the types visited after it")
    collector_never_breaks(ck, R, facts, "chalk_solve", "<chalk_solve::wf::InputTypeCollector as chalk_ir::visit::TypeVisitor>::", "InputTypeCollector", 2)

    R = "C21.ADT-ENV"
    ck.rule(R, "K2: verify_adt_decl proves the field types (and where-clause types) well-formed under *exactly* the declaration's where clauses as "
               "hypotheses: the first argument of `gb.implies(..)` is where_clauses mapped through into_from_env_goal - nothing is chained "
               "to it and no type is assumed (`FromEnv(Ty)` of a where-clause type would make its own WF goal circular and, through implied "
               "bounds, let the declaration rely on bounds no user of the struct has to prove); the goals are WellFormed of every input type "
               "of (fields, where_clauses)")
    vk = "chalk_solve::wf::WfSolver::verify_adt_decl"
    vb = need_body(ck, facts, R, vk)
    if vb:
        th = facts.thir(vk)
        imps = [c for c in calls(th, ("GoalBuilder::implies", "implies"))]
        ck.floor(R, "verify_adt_decl.implies", len(imps), 1)
        lets = {st["pat"].get("n"): st["init"] for st in walk(th) if st.get("k") == "let" and st.get("init") is not None and st["pat"].get("k") == "bind"}
        for c in imps[:1]:
            hyp = c["args"][1] if len(c["args"]) > 1 else {}
            exprs = [hyp] + [lets[v] for v in expr_vars(hyp) if v in lets and v not in ("interner", "gb")]
            bad = []
            for e in exprs:
                if has_call(e, ("Iterator::chain", "chain")):
                    bad.append("something is chained to the where clauses")
                if has_call(e, ("types_in", "InputTypeCollector::types_in")):
                    bad.append("types are collected into the hypotheses")
            froms = [x for e in exprs for x in calls(e, "into_from_env_goal")]
            src_ok = "where_clauses" in expr_vars(hyp) or any("where_clauses" in expr_vars(e) for e in exprs)
            if bad or len(froms) != 1 or not src_ok:
                ck.violation(R, "verify_adt_decl:hypotheses=where-clauses-only", vb.where(c.get("ln")),
                             "; ".join(bad) or "hypotheses are not exactly where_clauses.map(into_from_env_goal)")
            else:
                ck.ok(R, "verify_adt_decl:hypotheses=where-clauses-only")
        ti = [c for c in calls(th, ("types_in", "InputTypeCollector::types_in"))]
        if ti and any({"fields", "where_clauses"} <= expr_vars(c) for c in ti) and has_call(th, "well_formed"):
            ck.ok(R, "verify_adt_decl:goals=WF(input types of fields and where clauses)")
        else:
            ck.violation(R, "verify_adt_decl:goals=WF(input types of fields and where clauses)", vb.where(),
                         "every input type of the fields and of the where clauses must be proven well-formed")
