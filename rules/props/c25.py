"""C25 - binder operations obey the substitution laws.

Decided (the shape the algebraic laws rest on):
  REBUILD   every arm of Ty/Lifetime/Const::try_super_fold_with rebuilds the same variant, folding each term-carrying field
            exactly once with the *unchanged* outer_binder; bound variables are routed through shifted_out_to(outer_binder)
  DERIVE    every derived TypeFoldable impl rebuilds the same variant from every field folded with the unchanged outer_binder
  BINDERS   outer_binder.shifted_in() is applied in the TypeFoldable impls of exactly the binder-introducing types
  ARITH     DebruijnIndex::shifted_in_from adds depths, shifted_out_to subtracts unless `within`, within is `<`
  SUBST     Subst / Shifter / DownShifter re-shift what they produce by outer_binder
Not decided: the laws on values."""
import re
from core import enum_matches, select_arms, V, walk, calls, peel, callee_matches, var_name, expr_vars, pat_bindings
from kit import need_body, has_call, short, result_expr, mentions_field

TERM = re.compile(r"chalk_ir::(Ty|Substitution|Lifetime|Const|AliasTy|DynTy|FnPointer|FnSubst|GenericArg|ProjectionTy|OpaqueTy|Binders|Goal|Goals|"
                  r"QuantifiedWhereClauses|ProgramClause|TraitRef|WhereClause|DomainGoal|InEnvironment|Environment|Constraints|AliasEq|Normalize)<")
CRATES = ["chalk_ir", "chalk_solve", "chalk_engine", "chalk_recursive", "chalk_integration"]


def pattern_binds(pat):
    """{binding name: field key} for a variant / struct pattern (field key = name or index string)."""
    out = {}
    if pat.get("k") in ("variant", "leaf"):
        for idx, name, sp in pat.get("sub", []):
            if sp.get("k") == "bind":
                out[sp["n"]] = name
    return out


def check_rebuild(arm_pat, arm_body, adt_key, variant, field_types, require_all_folded):
    """-> list of problems for one rebuilding arm."""
    probs = []
    binds = pattern_binds(arm_pat)
    ctors = [n for n in walk(arm_body) if n.get("k") == "adt" and n["adt"] == adt_key]
    if len(ctors) != 1:
        return ["expected exactly one `%s::%s` constructor, found %d" % (adt_key.split("::")[-1], variant, len(ctors))]
    c = ctors[0]
    if c["v"] != variant:
        return ["rebuilds variant `%s` from variant `%s`" % (c["v"], variant)]
    if c.get("base") is not None:
        probs.append("uses functional record update")
    fields = dict((a, b) for a, b in c["fields"])
    if len(fields) != len(field_types):
        probs.append("constructor has %d field(s), the variant has %d" % (len(fields), len(field_types)))
    used = {}
    for fname, expr in fields.items():
        src = [v for v in expr_vars(expr) if v in binds]
        if len(set(src)) != 1:
            probs.append("field `%s` is built from %s" % (fname, sorted(set(src)) or "no bound component"))
            continue
        b = src[0]
        if binds[b] != fname:
            probs.append("field `%s` is built from component `%s`" % (fname, binds[b]))
        used[b] = used.get(b, 0) + 1
        folds = [x for x in calls(expr) if (x.get("fn") or "").endswith(("try_fold_with", "fold_with"))]
        fty = field_types.get(fname, "")
        if folds:
            for x in folds:
                if var_name(x["args"][2]) != "outer_binder":
                    probs.append("field `%s` is folded with a binder depth other than the incoming outer_binder" % fname)
            if len(folds) != 1:
                probs.append("field `%s` is folded %d times" % (fname, len(folds)))
        elif require_all_folded or TERM.search(fty):
            probs.append("field `%s` (%s) is not folded" % (fname, fty))
    for b in binds:
        if used.get(b, 0) != 1:
            probs.append("component `%s` is used %d times" % (binds[b], used.get(b, 0)))
    return probs


def variant_field_types(facts, adt_key, variant):
    a = facts.adt(adt_key)
    if a is None:
        return None
    for v in a["variants"]:
        if v["n"] == variant:
            return {f["n"]: f["ty"] for f in v["fields"]}
    return None


def run(ck, facts, tier):
    # ------------------------------------------------------------------ DEFAULT-CALLBACKS
    R = "C25.DEFAULT-CALLBACKS"
    ck.rule(R, "K5 (siblings): the six default free-variable callbacks of TypeFolder / FallibleTypeFolder (fold_free_var_{ty,lifetime,const} "
               "and try_fold_free_var_*) - what a folder that overrides nothing does with a free variable met under `outer_binder` "
               "binders - all rebuild the variable shifted back in by `outer_binder` (BoundVar::shifted_in_from(outer_binder)); one "
               "sibling that forgets the shift makes the identity fold capture free variables of that kind under inner binders")
    from kit import params_of_type as _pot
    n_cb = 0
    for tr, pre in (("TypeFolder", "fold_free_var_"), ("FallibleTypeFolder", "try_fold_free_var_")):
        for kind in ("ty", "lifetime", "const"):
            key = "chalk_ir::fold::%s::%s%s" % (tr, pre, kind)
            cb = facts.body(key)
            if cb is None or cb.thir is None:
                ck.violation(R, "missing-anchor:%s::%s%s" % (tr, pre, kind), "", "default callback not found")
                continue
            n_cb += 1
            ob = _pot(cb, "DebruijnIndex") or {"outer_binder"}
            th = facts.thir(key)
            shifts = [c for c in calls(th, "shifted_in_from") if var_name(c["args"][-1]) in ob]
            inst = "%s::%s%s" % (tr, pre, kind)
            if shifts:
                ck.ok(R, inst, "shifted_in_from(outer_binder)")
            else:
                ck.violation(R, inst, cb.where(), "the default callback rebuilds the variable without shifting it in by outer_binder")
    ck.floor(R, "default-callbacks", n_cb, 6)
    # ------------------------------------------------------------------ REBUILD
    R = "C25.REBUILD"
    ck.rule(R, "K1/K2: each arm of Ty / Lifetime / Const::try_super_fold_with rebuilds the same variant and folds every term-carrying "
               "field exactly once with the unchanged outer_binder; leaves go to their folder callback; BoundVar goes through "
               "shifted_out_to(outer_binder) -> try_fold_free_var_* else identity")
    SF = "<chalk_ir::%s as chalk_ir::fold::TypeSuperFoldable>::try_super_fold_with"
    n_arms = 0
    for self_ty, data, leaves in (
            ("Ty", "chalk_ir::TyKind", {"InferenceVar": "try_fold_inference_ty", "Placeholder": "try_fold_free_placeholder_ty"}),
            ("Lifetime", "chalk_ir::LifetimeData", {"InferenceVar": "try_fold_inference_lifetime", "Placeholder": "try_fold_free_placeholder_lifetime"}),
            ("Const", "chalk_ir::ConstValue", {"InferenceVar": "try_fold_inference_const", "Placeholder": "try_fold_free_placeholder_const"})):
        b = need_body(ck, facts, R, SF % self_ty)
        if not b:
            continue
        th = facts.thir(SF % self_ty)
        ms = enum_matches(th, data)
        if len(ms) != 1:
            ck.violation(R, "%s:match" % self_ty, b.where(), "expected one match on %s" % data)
            continue
        m = ms[0]
        free_cb = "try_fold_free_var_" + self_ty.lower()
        for v in facts.variants(data):
            arms = select_arms(m, V(v))
            inst = "%s::%s" % (data.split("::")[-1], v)
            if len(arms) != 1 or arms[0][1] != "yes":
                ck.violation(R, inst, b.where(), "no unique arm")
                continue
            arm = m["arms"][arms[0][0]]
            n_arms += 1
            body_ = arm["body"]
            if v == "BoundVar":
                ifs = [n for n in walk(body_) if n.get("k") == "if" and n["cond"].get("k") == "letexpr"]
                ok = False
                if len(ifs) == 1:
                    cond = ifs[0]["cond"]
                    so = [c for c in calls(cond["e"], "shifted_out_to")]
                    ok = cond["pat"].get("v") == "Some" and len(so) == 1 and var_name(so[0]["args"][1]) == "outer_binder" and \
                        any(var_name(c["args"][-1]) == "outer_binder" for c in calls(ifs[0]["then"], free_cb)) and \
                        ifs[0].get("else") is not None and "self" in expr_vars(ifs[0]["else"]) and not [c for c in calls(ifs[0]["else"])]
                if ok:
                    ck.ok(R, inst, "shifted_out_to(outer_binder) -> %s | identity" % free_cb)
                else:
                    ck.violation(R, inst, b.where(arm["ln"]), "bound variables must be routed through shifted_out_to(outer_binder): free ones "
                                 "to %s(.., outer_binder), bound ones returned unchanged" % free_cb)
                continue
            if v in leaves:
                cs = [c for c in calls(body_, leaves[v])]
                if len(cs) == 1 and var_name(cs[0]["args"][-1]) == "outer_binder":
                    ck.ok(R, inst, leaves[v])
                else:
                    ck.violation(R, inst, b.where(arm["ln"]), "must delegate to %s(.., outer_binder)" % leaves[v])
                continue
            ftypes = variant_field_types(facts, data, v) or {}
            if v == "Phantom":
                ck.ok(R, inst, "uninhabited")
                continue
            if self_ty == "Const" and v == "Concrete":
                # ConstData { ty: fold(ty), value: Concrete(..) }
                folds = [c for c in calls(th, "try_fold_with") if var_name(c["args"][2]) == "outer_binder"]
                cd = [n for n in walk(body_) if n.get("k") == "adt" and n["adt"] == "chalk_ir::ConstData"]
                if cd and folds and any(n.get("k") == "adt" and n["adt"] == data and n["v"] == "Concrete" for n in walk(cd[0])):
                    ck.ok(R, inst, "type folded, value rebuilt as Concrete")
                else:
                    ck.violation(R, inst, b.where(arm["ln"]), "a concrete const must fold its type and keep its value")
                continue
            probs = check_rebuild(arm["pat"], body_, data, v, ftypes, False)
            if not ftypes and not probs:
                ck.ok(R, inst, "nullary, rebuilt")
            elif probs:
                ck.violation(R, inst, b.where(arm["ln"]), "; ".join(probs))
            else:
                ck.ok(R, inst, "same variant, %d field(s) folded once with outer_binder" % len(ftypes))
    ck.floor(R, "arms", n_arms, 23 + 7 + 4)

    # ------------------------------------------------------------------ DERIVE
    R = "C25.DERIVE"
    ck.rule(R, "K2 on expansions: every #[derive(TypeFoldable)] impl rebuilds, for each variant, the same variant from every field folded "
               "once with the unchanged outer_binder")
    n_impl = 0
    for crate in CRATES:
        if not facts.has_crate(crate):
            continue
        for im in facts.crate(crate)["impls"]:
            if im.get("trait") != "chalk_ir::fold::TypeFoldable" or not (im.get("x") and "derive" in im["x"]):
                continue
            key = [i["key"] for i in im["items"] if i["n"] == "try_fold_with"]
            b = facts.body(key[0]) if key else None
            adt = facts.adt(im["self_key"])
            if b is None or adt is None:
                ck.violation(R, "missing-anchor:%s" % short(im["self_key"]), "", "derived impl body or ADT not found")
                continue
            n_impl += 1
            ms = [m for m in walk(b.thir, skip_tracing=False) if m.get("k") == "match" and m.get("src", "").startswith("Normal")]
            if len(ms) != 1:
                ck.violation(R, short(im["self_key"]) + ":match", b.where(), "expected the derive's single match on self")
                continue
            allp = []
            for v in adt["variants"]:
                val = V(v["n"]) if adt["kind"] == "Enum" else None
                arms = select_arms(ms[0], val) if val is not None else [(0, "yes")]
                if len(arms) != 1:
                    allp.append("variant %s: no unique arm" % v["n"])
                    continue
                arm = ms[0]["arms"][arms[0][0]]
                ftypes = {f["n"]: f["ty"] for f in v["fields"]}
                for p in check_rebuild(arm["pat"], arm["body"], im["self_key"], v["n"], ftypes, True):
                    allp.append("variant %s: %s" % (v["n"], p))
            if allp:
                ck.violation(R, short(im["self_key"]), "%s:%s" % (im["file"], im["ln"]), "; ".join(allp[:4]))
            else:
                ck.ok(R, short(im["self_key"]), "%d variant(s)" % len(adt["variants"]))
    ck.floor(R, "derived-impls", n_impl, 40)

    # ------------------------------------------------------------------ BINDERS
    R = "C25.BINDERS"
    ck.rule(R, "K4: among all TypeFoldable::try_fold_with impls, outer_binder.shifted_in() is applied exactly by the binder-introducing "
               "types Binders<T>, Canonical<T> and FnPointer, and there the bound value is folded with the shifted depth")
    WANT = {"chalk_ir::Binders", "chalk_ir::Canonical", "chalk_ir::FnPointer"}
    shifting = set()
    for crate in CRATES:
        if not facts.has_crate(crate):
            continue
        for im in facts.crate(crate)["impls"]:
            if im.get("trait") != "chalk_ir::fold::TypeFoldable":
                continue
            for it in im["items"]:
                b = facts.body(it["key"])
                if b is None or b.thir is None:
                    continue
                sh = [c for c in calls(b.thir, "chalk_ir::DebruijnIndex::shifted_in")]
                sh += [c for c in calls(b.thir, "chalk_ir::DebruijnIndex::shifted_in_from")]
                if sh:
                    shifting.add(im["self_key"])
                    folds = [c for c in calls(b.thir, "try_fold_with")]
                    good = [c for c in folds if has_call(c["args"][2], "shifted_in") and "outer_binder" in expr_vars(c["args"][2])]
                    if im["self_key"] in WANT and len(good) == 1:
                        ck.ok(R, short(im["self_key"]), "value folded at outer_binder.shifted_in()")
                    elif im["self_key"] in WANT:
                        ck.violation(R, short(im["self_key"]), b.where(), "the bound value must be folded exactly once at outer_binder.shifted_in()")
    for k in WANT - shifting:
        ck.violation(R, short(k) + ":does-not-shift", "", "binder-introducing type folds its contents without entering the binder")
    for k in shifting - WANT:
        ck.violation(R, short(k) + ":unexpected-shift", "", "a non-binder type shifts outer_binder while folding")
    ck.floor(R, "shifting-impls", len(shifting), 3)

    # ------------------------------------------------------------------ ARITH
    R = "C25.ARITH"
    ck.rule(R, "K1: DebruijnIndex::shifted_in_from = new(self.depth + outer.depth); shifted_out_to = None if within(outer) else "
               "new(self.depth - outer.depth); within = self < outer")
    D = "chalk_ir::DebruijnIndex::"
    b = need_body(ck, facts, R, D + "shifted_in_from")
    if b:
        bins = [n for n in walk(b.thir) if n.get("k") == "bin"]
        if len(bins) == 1 and bins[0]["op"] == "Add" and len([c for c in calls(b.thir, "depth")]) == 2:
            ck.ok(R, "shifted_in_from", "depth + depth")
        else:
            ck.violation(R, "shifted_in_from", b.where(), "must add the two depths (found %s)" % [x["op"] for x in bins])
    b = need_body(ck, facts, R, D + "shifted_out_to")
    if b:
        ifs = [n for n in walk(b.thir) if n.get("k") == "if"]
        ok = False
        if len(ifs) == 1 and has_call(ifs[0]["cond"], D + "within") and peel(ifs[0]["cond"]).get("k") == "call":
            then_none = any(n.get("k") == "adt" and n.get("v") == "None" for n in walk(ifs[0]["then"]))
            els = ifs[0].get("else")
            bins = [n for n in walk(els) if n.get("k") == "bin"] if els else []
            ok = then_none and len(bins) == 1 and bins[0]["op"] == "Sub" and \
                "self" in expr_vars(bins[0]["l"]) and "outer_binder" in expr_vars(bins[0]["r"])
        if ok:
            ck.ok(R, "shifted_out_to", "within -> None else self.depth - outer.depth")
        else:
            ck.violation(R, "shifted_out_to", b.where(), "must be `if self.within(outer) { None } else { Some(new(self.depth() - outer.depth())) }`")
    b = need_body(ck, facts, R, D + "within")
    if b:
        e = peel(result_expr(b.thir))
        ok = (e.get("k") == "bin" and e["op"] == "Lt" and var_name(e["l"]) == "self") or \
             (e.get("k") == "call" and callee_matches(e, "PartialOrd::lt") and var_name(e["args"][0]) == "self")
        if ok:
            ck.ok(R, "within", "self < outer_binder")
        else:
            ck.violation(R, "within", b.where(), "within must be the strict comparison self < outer_binder")

    # ------------------------------------------------------------------ SUBST
    R = "C25.SUBST"
    ck.rule(R, "K1: Subst substitutes innermost variables by the parameter shifted in by outer_binder and shifts every other free variable "
               "out by one then in by outer_binder; Shifter adds source_binder then outer_binder; DownShifter subtracts target_binder "
               "(Err if impossible) then adds outer_binder")
    for kind in ("ty", "lifetime", "const"):
        key = "<chalk_ir::fold::subst::Subst as chalk_ir::fold::TypeFolder>::fold_free_var_%s" % kind
        b = need_body(ck, facts, R, key)
        if not b:
            continue
        # `if let Some(i) = bv.index_if_innermost() {..} else {..}` or the equivalent `match` (core.iflet_as_match)
        from core import iflet_as_match, select_arms as _sel, V as _V
        from kit import params_of_type
        ob = params_of_type(b, "DebruijnIndex") or {"outer_binder"}
        ms = []
        for n in walk(b.thir):
            m_ = iflet_as_match(n) if n.get("k") == "if" else (n if n.get("k") == "match" and str(n.get("src", "")).startswith("Normal") else None)
            if m_ is not None and has_call(m_.get("scrut"), "index_if_innermost"):
                ms.append(m_)
        ok = False
        if len(ms) == 1:
            sa, na = _sel(ms[0], _V("Some")), _sel(ms[0], _V("None"))
            t = ms[0]["arms"][sa[0][0]]["body"] if sa else None
            e = ms[0]["arms"][na[0][0]]["body"] if na else None
            t_ok = t is not None and any(var_name(c["args"][-1]) in ob for c in calls(t, "shifted_in_from")) and mentions_field(t, "parameters")
            e_ok = e is not None and has_call(e, "shifted_out") and any(var_name(c["args"][-1]) in ob for c in calls(e, "shifted_in_from"))
            ok = t_ok and e_ok
        if ok:
            ck.ok(R, "Subst::fold_free_var_%s" % kind)
        else:
            ck.violation(R, "Subst::fold_free_var_%s" % kind, b.where(), "substitution must shift the parameter in by outer_binder and other "
                         "variables out by one and in by outer_binder")
    b = need_body(ck, facts, R, "chalk_ir::fold::shift::Shifter::adjust")
    if b:
        cs = [c for c in calls(b.thir, "shifted_in_from")]
        args = []
        for c in cs:
            a = peel(c["args"][1])
            args.append(a["n"] if a.get("k") == "field" else var_name(a))
        if sorted(map(str, args)) == ["outer_binder", "source_binder"]:
            ck.ok(R, "Shifter::adjust", "shifted_in_from(source_binder).shifted_in_from(outer_binder)")
        else:
            ck.violation(R, "Shifter::adjust", b.where(), "must shift in by source_binder and by outer_binder (found %s)" % args)
    b = need_body(ck, facts, R, "chalk_ir::fold::shift::DownShifter::adjust")
    if b:
        dth = facts.thir("chalk_ir::fold::shift::DownShifter::adjust")          # closures spliced in (`.map(|v| v.shifted_in_from(..))`)
        so = [c for c in calls(dth, "shifted_out_to")]
        si = [c for c in calls(dth, "shifted_in_from")]
        from kit import params_of_type as _pot
        ob = _pot(b, "DebruijnIndex") or {"outer_binder"}
        fails = any(n.get("k") == "adt" and n.get("v") == "Err" for n in walk(dth)) or has_call(dth, "ok_or") or \
            has_call(dth, "ok_or_else") or has_call(dth, "Try::branch")
        ok = len(so) == 1 and peel(so[0]["args"][1]).get("n") == "target_binder" and len(si) == 1 and var_name(si[0]["args"][1]) in ob and fails
        if ok:
            # order: the capture test (shifted_out_to fails when the variable belongs to a binder being removed) is made on the variable
            # as the caller sees it - BEFORE the term's internal binders are added back; the other way round a variable under an
            # internal binder passes the test and is captured by that binder
            from kit import let_inits as _li, resolve_var as _rv
            recv = _rv(so[0]["args"][0], _li(dth))
            if has_call(recv, "shifted_in_from") or has_call(so[0]["args"][0], "shifted_in_from"):
                ok = False
        if ok:
            ck.ok(R, "DownShifter::adjust", "shifted_out_to(target_binder)? then shifted_in_from(outer_binder)")
        else:
            ck.violation(R, "DownShifter::adjust", b.where(), "must shift out by target_binder (failing if impossible) then in by outer_binder")
    for name, cb in (("Shifter", "fold_free_var_"), ("DownShifter", "try_fold_free_var_")):
        tr = "TypeFolder" if name == "Shifter" else "FallibleTypeFolder"
        for kind in ("ty", "lifetime", "const"):
            key = "<chalk_ir::fold::shift::%s as chalk_ir::fold::%s>::%s%s" % (name, tr, cb, kind)
            b = need_body(ck, facts, R, key)
            if b:
                cs = [c for c in calls(b.thir, "adjust")]
                from kit import params_of_type as _pot2
                want_args = [_pot2(b, "BoundVar") or {"bound_var"}, _pot2(b, "DebruijnIndex") or {"outer_binder"}]
                got_args = [var_name(a) for a in cs[0]["args"][1:]] if len(cs) == 1 else []
                if len(cs) == 1 and len(got_args) == 2 and got_args[0] in want_args[0] and got_args[1] in want_args[1]:
                    ck.ok(R, "%s::%s%s" % (name, cb, kind))
                else:
                    ck.violation(R, "%s::%s%s" % (name, cb, kind), b.where(), "must return adjust(bound_var, outer_binder)")
