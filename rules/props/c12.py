"""C12 - a panic in a database callback leaves the solver usable.

Effect `may-call-db`: the callee (transitively, over the workspace call graph; dyn calls over-approximated) reaches a method of
`dyn RustIrDatabase` / `dyn UnificationDatabase`.  Every such call has an unwind edge.
Decided:
  SLG-OWNERSHIP  at no may-call-db call site in chalk_engine::logic is a (Canonical)Strand owned only by the stack frame
                 (= dropped by the MIR cleanup path of that call): a strand held by a table or by StackEntry.active_strand is
                 returned by `Drop for SolveState`, a frame-owned one is lost
  SLG-GUARD      `Drop for SolveState` re-enqueues the active strand and unwinds the stack
  REC-PAIRING    in RecursiveContext::solve_goal every exit from the region between stack.push / search_graph.insert and
                 stack.pop - *including the unwind edge of solve_new_subgoal* - restores the stack
"""
import re
from core import walk, calls, peel, callee_matches, var_name, expr_vars, CallGraph
from kit import need_body, has_call, short, mentions_field

DB_TRAITS = ("chalk_solve::RustIrDatabase::", "chalk_ir::UnificationDatabase::")
STRAND_TY = re.compile(r"(chalk_engine::strand::Strand<|chalk_ir::Canonical<chalk_engine::strand::Strand<)")
RC = "chalk_recursive::fixed_point::RecursiveContext::"


def cleanup_drops(cfg, start):
    """(type, base local) of places dropped on the cleanup path starting at block `start`"""
    out = []
    seen = set()
    stack = [start]
    while stack:
        b = stack.pop()
        if b in seen or not isinstance(b, int):
            continue
        seen.add(b)
        t = cfg.blocks[b]["t"]
        if t["k"] == "drop":
            out.append((t.get("ty", ""), t["p"]["l"]))
        for e in cfg.succ[b]:
            stack.append(e[1])
    return out


# where a frame-owned strand may have come from
TAKEN_FROM_SHARED = ("Option::take", "Option::or_else", "dequeue_next_strand_that", "pop_and_take_caller_strand", "mem::take", "mem::replace")
FRESH_COPY = ("from_canonical", "Clone::clone", "clone", "canonicalize_strand_from", "create_refinement_strand")


def origin(cfg, local, argc, depth=8, seen=None, locals_ty=None):
    """'shared' if the value was moved out of solver state (a by-value parameter, active_strand.take(), a dequeue ..),
    'copy' if it is a freshly built / instantiated copy, else 'unknown'."""
    seen = seen or set()
    if local in seen or depth == 0:
        return "unknown"
    seen.add(local)
    locals_ty = locals_ty or cfg.locals
    if 1 <= local <= argc:
        return "copy" if locals_ty[local].startswith("&") else "shared"
    kinds = set()
    for kind, blk, idx, r in cfg.defs.get(local, []):
        if kind == "call":
            fn = (r.get("fn") or "")
            if fn.endswith(TAKEN_FROM_SHARED):
                kinds.add("shared")
            elif fn.endswith(FRESH_COPY):
                kinds.add("copy")
            else:
                kinds.add("unknown")
        else:
            rk = r.get("k")
            if rk == "use":
                o = r["o"]
                pl = o.get("m") or o.get("c")
                if pl is not None and "*" in (pl.get("pj") or []):
                    kinds.add("copy")      # read through a reference: the owner keeps the original
                elif pl is not None:
                    kinds.add(origin(cfg, pl["l"], argc, depth - 1, seen))
                else:
                    kinds.add("copy")
            elif rk == "agg":
                srcs = {origin(cfg, (o.get("m") or o.get("c"))["l"], argc, depth - 1, seen) for o in r.get("o", []) if (o.get("m") or o.get("c"))}
                kinds.add("shared" if "shared" in srcs else "copy")
            else:
                kinds.add("unknown")
    if "shared" in kinds:
        return "shared"
    if kinds and kinds <= {"copy"}:
        return "copy"
    return "unknown"


def root_entry_reset(ck, facts, cg, R):
    """-> (description, None) when RecursiveContext::solve_root_goal clears the stack and rolls the search graph back to its first node
    before it calls solve_goal, on every path, and solve_root_goal is the only way into solve_goal from outside a running solve."""
    root = facts.body(RC + "solve_root_goal")
    if root is None:
        return None, "solve_root_goal not found"
    cfg = root.cfg
    sgc = cfg.call_blocks(RC + "solve_goal")
    clear = cfg.call_blocks("Stack::clear")
    rb = cfg.call_blocks("SearchGraph::<K, V>::rollback_to") or cfg.call_blocks("rollback_to")
    if not sgc:
        return None, "solve_root_goal does not call solve_goal"
    if not clear or not all(cfg.must_pass_blocks(b, clear) for b in sgc):
        return None, "no Stack::clear on every path to solve_goal in solve_root_goal"
    if not rb or not all(cfg.must_pass_blocks(b, rb) for b in sgc):
        return None, "no SearchGraph::rollback_to on every path to solve_goal in solve_root_goal"
    # the rollback target must be the first depth-first number (constant MIN / index 0), i.e. the whole graph
    whole = False
    for b in rb:
        t = cfg.blocks[b]["t"]
        args = t.get("a") or []
        if len(args) >= 2:
            tr = cfg.trace(args[1])
            txt = repr(tr)
            if "MIN" in txt or "index: 0" in txt:
                whole = True
    if not whole:
        return None, "rollback_to in solve_root_goal is not to DepthFirstNumber::MIN"
    # Stack::clear must empty the vector
    sc = facts.body("chalk_recursive::fixed_point::stack::Stack::clear")
    if sc is None or not has_call(sc.thir, "Vec::<T, A>::clear") and not has_call(sc.thir, "clear"):
        return None, "Stack::clear does not clear the entries"
    # who may enter solve_goal: the root entry, or a solve already running - the subgoal callback `<Solver as SolveDatabase>::solve_goal`,
    # whose receiver (`recursive::Solver`) is constructed only inside SolverStuff::solve_iteration (i.e. below solve_new_subgoal)
    CB = "<chalk_recursive::recursive::Solver as chalk_recursive::solve::SolveDatabase>::solve_goal"
    outside = sorted({c[0] for c in cg.callers_of(lambda k: k == RC + "solve_goal") if c[0] not in (RC + "solve_root_goal", CB)})
    if outside:
        return None, "solve_goal is also entered from %s" % outside[:3]
    nctor = 0
    for k, b in cg.bodies.items():
        for blk, j, st in b.cfg.agg_sites("chalk_recursive::recursive::Solver"):
            nctor += 1
            if "solve_iteration" not in k and not k.endswith("recursive::Solver::new"):
                return None, "recursive::Solver is constructed in %s, outside a running iteration" % k
    new_callers = sorted({c[0] for c in cg.callers_of(lambda k: k.endswith("chalk_recursive::recursive::Solver::new")) if "solve_iteration" not in c[0]})
    if new_callers:
        return None, "recursive::Solver::new is called from %s, outside a running iteration" % new_callers[:3]
    if nctor == 0:
        return None, "no construction site of recursive::Solver found"
    ck.ok(R, "solve_root_goal:reset-at-entry", "Stack::clear + SearchGraph::rollback_to(MIN) dominate solve_goal; solve_goal has no other outside caller")
    return "solve_root_goal: stack.clear(); search_graph.rollback_to(MIN)", None


def run(ck, facts, tier):
    crates = ["chalk_ir", "chalk_solve", "chalk_engine", "chalk_recursive"]
    cg = CallGraph(facts, crates)
    may_db = cg.fixpoint(lambda k: k.startswith(DB_TRAITS))
    ck.count("functions-that-may-call-the-database", len([k for k in may_db if k in cg.bodies]))
    from props.c10 import table_insert
    table_insert(ck, facts, cg, "C12.TABLE-AFTER-BUILD")

    R = "C12.NO-CALLBACK-UNDER-LOCK"
    ck.rule(R, "K7 (effect x lock region): inside the solver crates, while a MutexGuard / RwLock guard / RefMut over shared solver state is "
               "alive (from the lock call to the drop of the guard), no closure parameter is invoked and no function that may reach a "
               "database callback is called: a panic in the callback unwinds through the guard, poisons the lock (or leaves the RefCell "
               "borrowed) and every later solve on this - and every other - solver sharing the state panics at `lock().unwrap()`")
    from core import is_tracing as _is_tr
    n_locks = 0
    for crate in ("chalk_recursive", "chalk_engine"):
        for key, lb in sorted(facts.bodies(crate).items()):
            if lb.d.get("mir") is None:
                continue
            cfg = lb.cfg
            locks = cfg.call_blocks(("Mutex::lock", "RwLock::write", "RwLock::read", "RefCell::borrow_mut", "RefCell::borrow"))
            if not locks:
                continue
            drops = {i for i, blk in enumerate(cfg.blocks) if blk["t"].get("k") == "drop" and
                     any(g in str(blk["t"].get("ty", "")) for g in ("MutexGuard", "RwLockWriteGuard", "RwLockReadGuard", "RefMut<", "cell::Ref<"))}
            for L in locks:
                n_locks += 1
                region = set()
                for e in cfg.succ[L]:
                    if e[2] != ("unwind",):
                        region |= cfg.reachable(e[1], (), False, stop=drops)
                bad = None
                for i in sorted(region - drops):
                    t = cfg.blocks[i]["t"]
                    if t.get("k") != "call" or _is_tr(t):
                        continue
                    if callee_matches(t, ("FnOnce::call_once", "Fn::call", "FnMut::call_mut")) or any(c in may_db for c in cg.callees_of_site(t)):
                        bad = t
                        break
                inst = "%s:lock-region" % short(key.split("::{")[0])
                if bad is not None:
                    ck.violation(R, inst, lb.where(bad.get("ln")), "`%s` is called while the guard is held" % str(bad.get("res") or bad.get("fn")))
                else:
                    ck.ok(R, inst, "only plain data-structure operations under the lock")
    ck.floor(R, "lock-sites-in-solver-crates", n_locks, 2)

    R = "C12.RESET-COVERS-STATE"
    ck.rule(R, "K2 (field coverage of the reset): what solve_root_goal uses to discard the frames an unwound solve left behind must reset "
               "every piece of state the push/pop discipline maintains: each field of the recursive solver's Stack that push or pop may "
               "change is also reset by Stack::clear (a derived counter or flag kept beside `entries` and forgotten in clear survives a "
               "panic and falsifies later cycle checks); likewise SearchGraph::rollback_to covers every field insert changes")
    from kit import mutated_self_fields
    for adt, mutators, reset in (("chalk_recursive::fixed_point::stack::Stack", ("push", "pop"), "clear"),
                                 ("chalk_recursive::fixed_point::search_graph::SearchGraph", ("insert",), "rollback_to")):
        rb = need_body(ck, facts, R, adt + "::" + reset)
        if not rb:
            continue
        short_adt = adt.split("::")[-1]
        reset_fields = mutated_self_fields(facts.thir(adt + "::" + reset), short_adt)
        for mname in mutators:
            mb = need_body(ck, facts, R, adt + "::" + mname)
            if not mb:
                continue
            for f_ in sorted(mutated_self_fields(facts.thir(adt + "::" + mname), short_adt)):
                inst = "%s.%s:changed-by-%s:reset-by-%s" % (short_adt, f_, mname, reset)
                if f_ in reset_fields:
                    ck.ok(R, inst)
                else:
                    ck.violation(R, inst, rb.where(), "`%s` changes %s.%s but `%s` leaves it as the unwound solve left it" % (mname, short_adt, f_, reset))

    R = "C12.SLG-OWNERSHIP"
    ck.rule(R, "K7: for every function of chalk_engine::logic, at each call site whose callee may reach a database callback, the cleanup "
               "(unwind) path of that call drops no local of type Strand / Canonical<Strand>. Violations are keyed per function.")
    per_fn = {}
    n_sites = 0
    for k, b in facts.bodies("chalk_engine").items():
        # Forest::build_table is excluded on purpose: its strands belong to a table that is not yet published
        # (C10.TABLE-INSERT), so unwinding drops the whole unpublished table and loses nothing.
        if not k.startswith("chalk_engine::logic::SolveState::"):
            continue
        cfg = b.cfg
        for i, blk in enumerate(cfg.blocks):
            t = blk["t"]
            if t["k"] != "call" or blk.get("c"):
                continue
            callees = cg.callees_of_site(t)
            if not any(c in may_db for c in callees):
                continue
            n_sites += 1
            u = t.get("u")
            if not isinstance(u, int):
                continue
            argc = b.mir["argc"]
            dropped = [(ty, l) for ty, l in cleanup_drops(cfg, u) if STRAND_TY.search(ty)]
            lost = [(ty, l) for ty, l in dropped if origin(cfg, l, argc) != "copy"]
            if lost:
                per_fn.setdefault(k, []).append(((t.get("fn") or "?").split("::")[-1], t.get("ln"), lost[0][0]))
    ck.floor(R, "may-call-db-sites-in-logic", n_sites, 12)
    for k, b in facts.bodies("chalk_engine").items():
        if k.startswith("chalk_engine::logic::SolveState::") and "{" not in k:
            if k in per_fn:
                sites = per_fn[k]
                ck.violation(R, short(k), b.where(sites[0][1]),
                             "a strand is owned only by this frame across %d call(s) that can reach a database callback (e.g. `%s`): if the "
                             "callback panics the strand is dropped by unwinding and the table silently loses that derivation, so a retry on "
                             "the same solver can answer differently from a fresh solver" % (len(sites), sites[0][0]))
            else:
                ck.ok(R, short(k), "no frame-owned strand across a may-call-db call")
    for k in per_fn:
        if not k.startswith("chalk_engine::logic::SolveState::") or "{" in k:
            ck.violation(R, short(k), facts.body(k).where(per_fn[k][0][1]), "frame-owned strand across a may-call-db call (`%s`)" % per_fn[k][0][0])

    R = "C12.SLG-GUARD"
    ck.rule(R, "K3: `Drop for SolveState` puts StackEntry.active_strand back into its table and calls unwind_stack whenever the stack is non-empty")
    d = need_body(ck, facts, R, "<chalk_engine::logic::SolveState as core::ops::drop::Drop>::drop")
    if d:
        ok = has_call(d.thir, "Table::enqueue_strand") and has_call(d.thir, "SolveState::unwind_stack") and mentions_field(d.thir, "active_strand") \
            and has_call(d.thir, "Option::take")
        if ok:
            ck.ok(R, "Drop-for-SolveState", "active_strand.take() -> enqueue_strand; unwind_stack()")
        else:
            ck.violation(R, "Drop-for-SolveState", d.where(), "the drop guard must re-enqueue the active strand and unwind the stack")
    us = need_body(ck, facts, R, "chalk_engine::logic::SolveState::unwind_stack")
    if us:
        if has_call(us.thir, "pop_and_take_caller_strand") and has_call(us.thir, "Table::enqueue_strand"):
            ck.ok(R, "unwind_stack", "every popped caller strand is re-enqueued")
        else:
            ck.violation(R, "unwind_stack", us.where(), "unwind_stack must re-enqueue each caller strand it pops")

    R = "C12.REC-PAIRING"
    ck.rule(R, "K3 incl. unwind edges: in RecursiveContext::solve_goal, from stack.push every exit passes stack.pop - on the normal path and on "
               "the unwind path of solve_new_subgoal (whose callees reach the database)")
    sg = need_body(ck, facts, R, RC + "solve_goal")
    if sg:
        cfg = sg.cfg
        push = cfg.call_blocks("Stack::push")
        pop = cfg.call_blocks("Stack::pop")
        sn = cfg.call_blocks(RC + "solve_new_subgoal")
        ck.floor(R, "solve_goal.push/pop/solve_new_subgoal", min(len(push), len(pop), len(sn)), 1)
        if push and pop and sn:
            # normal exits
            t = cfg.blocks[push[0]]["t"].get("t")
            reach = cfg.reachable(t, (), False, stop=set(pop))
            if set(cfg.return_blocks()) & (reach - set(pop)):
                ck.violation(R, "solve_goal:normal-exit", sg.where(), "a normal return leaves the goal on the stack")
            else:
                ck.ok(R, "solve_goal:normal-exit", "every return passes stack.pop")
            callee_may = any(c in may_db for c in cg.callees_of_site(cfg.blocks[sn[0]]["t"]))
            if not callee_may:
                ck.violation(R, "missing-anchor:solve_new_subgoal-may-call-db", sg.where(), "effect analysis no longer reaches the database from solve_new_subgoal")
            u = cfg.blocks[sn[0]]["t"].get("u")
            restored = False
            if isinstance(u, int):
                region = cfg.reachable(u, (), True)
                restored = any(b in region for b in pop) or any(
                    cfg.blocks[b]["t"]["k"] == "drop" and re.search(r"(Guard|Restore|Unwind)", cfg.blocks[b]["t"].get("ty", "")) for b in region)
            # the other accepted discipline: every root entry discards whatever an unwound solve left behind
            reset, why_not = root_entry_reset(ck, facts, cg, R)
            if restored:
                ck.ok(R, "solve_goal:unwind-of-solve_new_subgoal", "the unwind path restores the stack")
            elif reset:
                ck.ok(R, "solve_goal:unwind-of-solve_new_subgoal", "not restored on unwind, but every root entry resets stack and search graph: " + reset)
            else:
                ck.violation(R, "solve_goal:unwind-of-solve_new_subgoal", sg.where(cfg.blocks[sn[0]]["t"].get("ln")),
                             "when a database callback panics inside solve_new_subgoal the unwind path neither pops the stack nor rolls the search "
                             "graph back (no drop guard), and the root entry does not discard the leftovers (%s): the next solve on this solver "
                             "starts from a stack / search graph that still holds the unfinished goals" % why_not)
