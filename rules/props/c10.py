"""C10 - answers do not depend on what the same solver solved before.

Not decided: equality of answers.
Decided:
  CACHE-WRITER  Cache::insert is called only from SearchGraph::move_to_cache, which is called only from RecursiveContext::solve_goal
  CACHE-GUARD   that call happens only on the `subgoal_minimums.positive >= dfn` edge (the goal heads its SCC), after the goal was
                popped from the stack and its stack_depth cleared; with caching disabled the same node set is rolled back instead
  KEY           tables / cache / search graph are keyed by the full u-canonical goal *including its environment*; equality and
                hashing of the key types are derived (no hand-written impl that could skip a field)
  TABLE-INSERT  a table becomes visible (Tables::insert) only after build_table returned, and only through
                get_or_create_table_for_ucanonical_goal
"""
from core import walk, calls, peel, callee_matches, var_name, expr_vars, trace_is_call, CallGraph
from kit import need_body, has_call, short, guard_sites, dominated_by_calls, mentions_field

RC = "chalk_recursive::fixed_point::RecursiveContext::"
SG = "chalk_recursive::fixed_point::search_graph::SearchGraph::"


def run(ck, facts, tier):
    cg = CallGraph(facts, ["chalk_solve", "chalk_engine", "chalk_recursive", "chalk_integration", "chalk"])
    R = "C10.CACHE-WRITER"
    ck.rule(R, "K4: Cache::insert <- only SearchGraph::move_to_cache <- only RecursiveContext::solve_goal")
    for callee, allowed in (("chalk_recursive::fixed_point::cache::Cache::insert", {SG + "move_to_cache"}),
                            (SG + "move_to_cache", {RC + "solve_goal"})):
        cs = cg.callers_of(lambda k, c=callee: k == c)
        ck.floor(R, "callers-of-" + callee.split("::")[-1], len(cs), 1)
        for k, blk, t in cs:
            if k in allowed:
                ck.ok(R, "%s<-%s" % (callee.split("::")[-1], short(k)))
            else:
                ck.violation(R, "%s<-%s" % (callee.split("::")[-1], short(k)), cg.bodies[k].where(t.get("ln")),
                             "a result reaches the persistent cache outside the audited path")

    R = "C10.CACHE-GUARD"
    ck.rule(R, "K3: in solve_goal, move_to_cache (cache on) and rollback_to(dfn) (cache off) are reachable only through the true edge of "
               "`subgoal_minimums.positive >= dfn`, after stack.pop and after stack_depth was cleared")
    sg = need_body(ck, facts, R, RC + "solve_goal")
    if sg:
        cfg = sg.cfg

        def is_ge(tr):
            return (tr.get("kind") == "bin" and tr["op"] == "Ge") or (tr.get("kind") == "call" and callee_matches(tr["call"], "PartialOrd::ge"))
        ge = cfg.bool_edges(is_ge, True)
        mv = cfg.call_blocks(SG + "move_to_cache")
        rb = cfg.call_blocks(SG + "rollback_to")
        n = guard_sites(ck, R, sg, mv, ge, "move_to_cache", "subgoal_minimums.positive >= dfn")
        n2 = guard_sites(ck, R, sg, rb, ge, "rollback_to(dfn)", "subgoal_minimums.positive >= dfn")
        ck.floor(R, "solve_goal.promotion-sites", min(n, n2), 1)
        dominated_by_calls(ck, R, sg, SG + "move_to_cache", "Stack::pop", "move_to_cache", "stack.pop(depth)")
        dominated_by_calls(ck, R, sg, SG + "move_to_cache", RC + "solve_new_subgoal", "move_to_cache", "solve_new_subgoal")
        # comparison is really between the minimums' positive link and dfn
        cmp_ok = any(n_.get("k") in ("bin", "call") and (n_.get("op") == "Ge" or callee_matches(n_, "PartialOrd::ge")) and
                     mentions_field(n_, "positive") and "dfn" in expr_vars(n_) for n_ in walk(sg.thir))
        cleared = any(n_.get("k") == "assign" and mentions_field(n_["l"], "stack_depth") and
                      any(x.get("k") == "adt" and x.get("v") == "None" for x in walk(n_["r"])) for n_ in walk(sg.thir))
        if cmp_ok and cleared:
            ck.ok(R, "solve_goal:guard-compares-positive-with-dfn;stack_depth-cleared")
        else:
            ck.violation(R, "solve_goal:guard-compares-positive-with-dfn;stack_depth-cleared", sg.where(),
                         "SCC-head test must be `subgoal_minimums.positive >= dfn` and the node's stack_depth must be cleared first")
        # rollback_to and move_to_cache get the same dfn
        args = set()
        for c in list(calls(sg.thir, SG + "move_to_cache")) + list(calls(sg.thir, SG + "rollback_to")):
            args.add(var_name(c["args"][1]))
        if args == {"dfn"}:
            ck.ok(R, "solve_goal:both-configurations-discard-from-dfn")
        else:
            ck.violation(R, "solve_goal:both-configurations-discard-from-dfn", sg.where(), "cache-on and cache-off paths must drop the same node set (from dfn): %s" % args)
    mc = need_body(ck, facts, R, SG + "move_to_cache")
    rbk = need_body(ck, facts, R, SG + "rollback_to")
    if mc and rbk:
        same = has_call(mc.thir, "HashMap::retain") and has_call(rbk.thir, "HashMap::retain") and \
            (has_call(mc.thir, "Vec::drain") and has_call(rbk.thir, "Vec::truncate"))
        if same:
            ck.ok(R, "move_to_cache~rollback_to:same-node-set", "indices.retain(< dfn); nodes[dfn..] drained / truncated")
        else:
            ck.violation(R, "move_to_cache~rollback_to:same-node-set", mc.where(), "both must drop indices >= dfn and nodes[dfn..]")

    R = "C10.KEY"
    ck.rule(R, "types+K5: Tables.table_indices, the recursive cache and the search graph are keyed by UCanonical<InEnvironment<Goal>>; "
               "PartialEq/Eq/Hash of UCanonical, Canonical, InEnvironment, Environment are derived over all fields")
    tb = facts.adt("chalk_engine::tables::Tables")
    if tb:
        ft = {f["n"]: f["ty"] for f in tb["variants"][0]["fields"]}
        if "chalk_ir::UCanonical<chalk_ir::InEnvironment<chalk_ir::Goal<I>>>" in ft.get("table_indices", ""):
            ck.ok(R, "Tables.table_indices:key", ft["table_indices"][:100])
        else:
            ck.violation(R, "Tables.table_indices:key", "", "tables are no longer keyed by the full u-canonical goal in its environment: %s" % ft.get("table_indices"))
    else:
        ck.violation(R, "missing-anchor:Tables", "", "type not found")
    rs = facts.adt("chalk_recursive::recursive::RecursiveSolver")
    if rs:
        ty = rs["variants"][0]["fields"][0]["ty"]
        if "RecursiveContext<chalk_ir::UCanonical<chalk_ir::InEnvironment<chalk_ir::Goal<I>>>" in ty:
            ck.ok(R, "RecursiveSolver.ctx:key")
        else:
            ck.violation(R, "RecursiveSolver.ctx:key", "", "recursive context key type changed: %s" % ty)
    n = 0
    for ty in ("UCanonical", "Canonical", "InEnvironment", "Environment"):
        for tr in ("core::cmp::PartialEq", "core::hash::Hash"):
            ims = [im for im in facts.crate("chalk_ir")["impls"] if im.get("self_key") == "chalk_ir::" + ty and im.get("trait") == tr]
            n += 1
            if len(ims) == 1 and (ims[0].get("derived") or (ims[0].get("x") and "derive" in ims[0]["x"])):
                ck.ok(R, "%s:%s-derived" % (ty, tr.split("::")[-1]))
            else:
                ck.violation(R, "%s:%s-derived" % (ty, tr.split("::")[-1]), ims[0]["file"] if ims else "",
                             "key type has a hand-written (or missing) %s impl; it could ignore the environment" % tr)
    ck.floor(R, "key-impls", n, 8)

    R = "C10.TABLE-INSERT"
    ck.rule(R, "K3/K4: Tables::insert is called only from get_or_create_table_for_ucanonical_goal, after build_table returned, and only "
               "when index_of found no table for the goal")
    cs = cg.callers_of(lambda k: k == "chalk_engine::tables::Tables::insert")
    ck.floor(R, "callers-of-Tables::insert", len(cs), 1)
    G = "chalk_engine::forest::Forest::get_or_create_table_for_ucanonical_goal"
    for k, blk, t in cs:
        if k == G:
            ck.ok(R, "Tables::insert<-%s" % short(k))
        else:
            ck.violation(R, "Tables::insert<-%s" % short(k), cg.bodies[k].where(t.get("ln")), "a table is published outside the audited function")
    g = need_body(ck, facts, R, G)
    if g:
        dominated_by_calls(ck, R, g, "Tables::insert", "Forest::build_table", "Tables::insert", "build_table returned")
        cfg = g.cfg
        # insert only on the `index_of == None` path
        e = cfg.variant_edges(lambda tr: tr.get("of", {}).get("kind") == "call" and callee_matches(tr["of"]["call"], "Tables::index_of"), ["None"])
        guard_sites(ck, R, g, cfg.call_blocks("Tables::insert"), e, "Tables::insert", "index_of(goal) == None")
