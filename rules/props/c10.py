"""C10 - answers do not depend on what the same solver solved before.

Not decided: equality of answers.
Decided:
  CACHE-WRITER  Cache::insert is called only from SearchGraph::move_to_cache, which is called only from RecursiveContext::solve_goal
  CACHE-GUARD   that call happens only on the `subgoal_minimums.positive >= dfn` edge (the goal heads its SCC), after the goal was
                popped from the stack and its stack_depth cleared; with caching disabled the same node set is rolled back instead
  KEY           tables / cache / search graph are keyed by the full u-canonical goal *including its environment*; equality and
                hashing of the key types are derived (no hand-written impl that could skip a field)
  TABLE-INSERT  a table becomes visible (Tables::insert) only after build_table returned, and only through
                get_or_create_table_for_ucanonical_goal
"""
from core import walk, calls, peel, callee_matches, var_name, expr_vars, trace_is_call, CallGraph
from kit import need_body, has_call, short, guard_sites, dominated_by_calls, mentions_field

RC = "chalk_recursive::fixed_point::RecursiveContext::"
SG = "chalk_recursive::fixed_point::search_graph::SearchGraph::"


def scc_links(ck, facts, R):
    """Shared by C10 / C05 / C01: the SCC-head test of the recursive solver is only meaningful if every solution that is taken
    from, or computed through, the search graph reports the lowest node it depends on (its `links`) to its caller."""
    ck.rule(R, "K3 (SCC bookkeeping): in RecursiveContext::solve_goal every path that returns a solution found in the search graph passes "
               "`minimums.update_from(search_graph[dfn].links)` - whether or not the node is still on the stack (a popped node may still be "
               "provisional) - or returns the mixed-cycle error value; the new-subgoal path stores subgoal_minimums into the node's links and "
               "reports them with update_from; update_from takes the minimum; solve_new_subgoal returns the minimums its last iteration filled")
    sg = need_body(ck, facts, R, RC + "solve_goal")
    if not sg:
        return
    cfg = sg.cfg
    upd = cfg.call_blocks("Minimums::update_from")
    errv = cfg.call_blocks("error_value")
    rets = set(cfg.return_blocks())
    is_lookup = lambda tr: tr.get("of", {}).get("kind") == "call" and callee_matches(tr["of"]["call"], SG + "lookup")
    some = cfg.variant_edges(is_lookup, ["Some"])
    none = cfg.variant_edges(is_lookup, ["None"])
    ck.floor(R, "solve_goal.lookup-edges", min(len(some), len(none)), 1)
    for name, edges, through in (("graph-hit", some, upd + errv), ("new-subgoal", none, upd)):
        bad = False
        for e in edges:
            reach = cfg.reachable(e[1], (), False, stop=set(through))
            if rets & (reach - set(through)):
                bad = True
        inst = "solve_goal:%s:reports-links" % name
        if edges and not bad:
            ck.ok(R, inst, "every path to the return passes minimums.update_from%s" % (" or error_value()" if name == "graph-hit" else ""))
        else:
            ck.violation(R, inst, sg.where(),
                         "a solution obtained on the %s path can be returned without reporting the links of the node it came from: the caller then "
                         "looks like the head of its own SCC and its provisional result is promoted to the cache / kept across iterations" % name)
    th = sg.thir
    from kit import let_bound, params_of_type
    args = [c["args"][1] for c in calls(th, "Minimums::update_from")]
    sub = let_bound(th, lambda i: has_call(i, "solve_new_subgoal"))        # the minimums the new subgoal's iterations collected
    hit_ok = any(mentions_field(a, "links") for a in args)
    new_ok = any(var_name(a) in sub for a in args)
    st_ok = any(n.get("k") == "assign" and mentions_field(n["l"], "links") and var_name(n["r"]) in sub for n in walk(th))
    if hit_ok and new_ok and st_ok:
        ck.ok(R, "solve_goal:links-sources", "update_from(node.links) / node.links = subgoal_minimums / update_from(subgoal_minimums)")
    else:
        ck.violation(R, "solve_goal:links-sources", sg.where(), "links bookkeeping changed (hit=%s new=%s stored=%s)" % (hit_ok, new_ok, st_ok))
    uf = need_body(ck, facts, R, "chalk_recursive::fixed_point::Minimums::update_from")
    if uf:
        if has_call(uf.thir, "min") and not has_call(uf.thir, "max") and any(n.get("k") == "assign" and mentions_field(n["l"], "positive") for n in walk(uf.thir)):
            ck.ok(R, "Minimums::update_from", "positive = min(positive, other.positive)")
        else:
            ck.violation(R, "Minimums::update_from", uf.where(), "update_from must keep the minimum")
    sn = need_body(ck, facts, R, RC + "solve_new_subgoal")
    if sn:
        th = sn.thir
        it = [c for c in calls(th, "solve_iteration")]
        mins = let_bound(th, lambda i: has_call(i, "Minimums::new"))          # whatever the per-iteration minimums are called
        passes = bool(it) and any(var_name(a) in mins for a in it[0]["args"])
        from kit import user_block
        rets = [n for n in walk(user_block(th)) if n.get("k") == "return" and n.get("e") is not None]
        rets_m = [n for n in rets if expr_vars(n["e"]) & mins]
        if passes and rets and len(rets_m) == len(rets) and len(mins) == 1:
            ck.ok(R, "solve_new_subgoal:returns-iteration-minimums")
        else:
            ck.violation(R, "solve_new_subgoal:returns-iteration-minimums", sn.where(), "each iteration must collect minimums and every exit must return them")
    pr = need_body(ck, facts, R, "chalk_recursive::fulfill::Fulfill::prove")
    if pr:
        c = [x for x in calls(pr.thir, "solve_goal")]
        mp = params_of_type(pr, "Minimums")
        if c and mp and any(var_name(a) in mp for a in c[0]["args"]):
            ck.ok(R, "Fulfill::prove:threads-minimums")
        else:
            ck.violation(R, "Fulfill::prove:threads-minimums", pr.where(), "sub-goal minimums must flow into the caller's minimums")


def table_insert(ck, facts, cg, R):
    """Shared with C12: a table is published (Tables::insert) only after build_table returned - a panic in a database callback while the
    table is being built leaves nothing half-built behind for later queries to find."""
    ck.rule(R, "K3/K4: Tables::insert is called only from get_or_create_table_for_ucanonical_goal, after build_table returned, and only "
               "when index_of found no table for the goal")
    cs = cg.callers_of(lambda k: k == "chalk_engine::tables::Tables::insert")
    ck.floor(R, "callers-of-Tables::insert", len(cs), 1)
    G = "chalk_engine::forest::Forest::get_or_create_table_for_ucanonical_goal"
    for k, blk, t in cs:
        if k == G:
            ck.ok(R, "Tables::insert<-%s" % short(k))
        else:
            ck.violation(R, "Tables::insert<-%s" % short(k), cg.bodies[k].where(t.get("ln")), "a table is published outside the audited function")
    g = need_body(ck, facts, R, G)
    if g:
        dominated_by_calls(ck, R, g, "Tables::insert", "Forest::build_table", "Tables::insert", "build_table returned")
        cfg = g.cfg
        # insert only on the `index_of == None` path
        e = cfg.variant_edges(lambda tr: tr.get("of", {}).get("kind") == "call" and callee_matches(tr["of"]["call"], "Tables::index_of"), ["None"])
        guard_sites(ck, R, g, cfg.call_blocks("Tables::insert"), e, "Tables::insert", "index_of(goal) == None")


def refinement_guard(ck, facts, R):
    """Shared by C05 / C10: an answer that still carries delayed (coinductive-cycle) subgoals is only a promise; it becomes a real
    answer through its refinement strand.  create_refinement_strand may decline (None) only for an answer with no delayed subgoals -
    whatever table published it - and the strand it builds must carry every delayed subgoal."""
    from kit import adaptor_sites
    ck.rule(R, "K3: in SolveState::create_refinement_strand every `None` is behind the true edge of `delayed_subgoals.is_empty()` (no other "
               "condition - the kind of the table, the position on the stack - may decline a refinement), and the delayed subgoals become "
               "the new strand's subgoals without an element-dropping adaptor")
    key = "chalk_engine::logic::SolveState::create_refinement_strand"
    b = need_body(ck, facts, R, key)
    if not b:
        return
    cfg = b.cfg
    # `None` written to the return place (a `None` stored in a field of the new strand is something else)
    nones = sorted({blk for blk, j, st in cfg.agg_sites("core::option::Option", "None") if (st.get("p") or {}).get("l") == 0 and not (st["p"].get("pj"))})
    empt = cfg.bool_edges(trace_is_call("is_empty"), True)
    ck.floor(R, "create_refinement_strand.None-sites/is_empty-edges", min(len(nones), len(empt)), 1)
    guard_sites(ck, R, b, nones, empt, "None", "answer.delayed_subgoals.is_empty()")
    drops = adaptor_sites(facts, "chalk_engine", lambda k: k == key)
    if drops:
        ck.violation(R, "create_refinement_strand:all-delayed-subgoals", b.where(), "delayed subgoals are dropped on the way into the refinement strand (%s)" % sorted(a for _k, a in drops))
    else:
        ck.ok(R, "create_refinement_strand:all-delayed-subgoals", "no element-dropping adaptor")


def solver_per_revision(ck, facts, R):
    """Shared by C08 / C10: the tables and caches of a solver are only valid for the program they were computed for.  The built-in
    rules read struct fields and #[lang] markers straight from the database - data that is in no program clause - so no digest of the
    clauses can stand for `the program`: the salsa query that creates the solver must be volatile."""
    from kit import all_returns_pass
    ck.rule(R, "K3: chalk_integration::query::solver reports an untracked read (salsa: volatile, recomputed in every revision) on every "
               "path to its return; a solver memoised on a tracked input (the environment, the clauses) survives program edits those "
               "inputs do not reflect - a changed last field, a removed #[lang] marker - and keeps answering from stale tables")
    b = need_body(ck, facts, R, "chalk_integration::query::solver")
    if not b:
        return
    vol = b.cfg.call_blocks(("Runtime::report_untracked_read", "report_untracked_read"))
    if not vol:
        ck.violation(R, "query::solver:volatile", b.where(), "the solver query is not volatile (no report_untracked_read)")
    else:
        all_returns_pass(ck, R, b, [0], vol, "query::solver:volatile-on-every-path")


def run(ck, facts, tier):
    solver_per_revision(ck, facts, "C10.SOLVER-PER-REVISION")
    from shared import fixedpoint as _fpx
    _fpx.loop_exits(ck, facts, "C10.FIXPOINT-EXITS")
    from shared import state
    state.any_future_answer(ck, facts, "C10.ANY-FUTURE")
    state.result_stores(ck, facts, "C10.RESULT-STORES")
    scc_links(ck, facts, "C10.SCC-LINKS")
    refinement_guard(ck, facts, "C10.REFINE-GUARD")

    R = "C10.CLOCK-MONOTONE"
    ck.rule(R, "K4 (who-may-write a field): the SLG forest's clock orders strands *across* queries - a strand left pending in a table "
               "keeps its last_pursued_time, and ensure_root_answer only pursues strands stamped before the current stack entry - so "
               "Forest.clock is only ever advanced (Forest::increment_clock -> TimeStamp::increment); no function assigns or resets it")
    from kit import mutated_self_fields
    n_w = 0
    for key, fb_ in sorted(facts.bodies("chalk_engine").items()):
        if "{" in key or fb_.thir is None:
            continue
        th_ = facts.thir(key)
        assigned = [x for x in walk(th_) if x.get("k") in ("assign", "assignop") and peel(x.get("l")).get("k") == "field"
                    and peel(x["l"]).get("n") == "clock" and "Forest" in str(peel(x["l"]).get("adt", ""))]
        borrowed = "clock" in mutated_self_fields(th_, "Forest") and not assigned
        fn_ = key.split("::")[-1]
        if assigned:
            n_w += 1
            ck.violation(R, "Forest.clock:assigned-in:%s" % fn_, fb_.where(assigned[0].get("ln")), "the clock is set to a value instead of being "
                         "advanced: time stamps of strands left pending by earlier queries are now in the future")
        elif borrowed:
            n_w += 1
            if fn_ == "increment_clock" and has_call(th_, "TimeStamp::increment"):
                ck.ok(R, "Forest.clock:advanced-in:increment_clock")
            else:
                ck.violation(R, "Forest.clock:mutated-in:%s" % fn_, fb_.where(), "Forest.clock is changed outside increment_clock")
    ck.floor(R, "Forest.clock-writers", n_w, 1)
    from shared import fixedpoint
    fixedpoint.table(ck, facts, "C10.FIXED-POINT-TABLE", which=("stale",))
    cg = CallGraph(facts, ["chalk_solve", "chalk_engine", "chalk_recursive", "chalk_integration", "chalk"])
    R = "C10.CACHE-WRITER"
    ck.rule(R, "K4: Cache::insert <- only SearchGraph::move_to_cache <- only RecursiveContext::solve_goal")
    for callee, allowed in (("chalk_recursive::fixed_point::cache::Cache::insert", {SG + "move_to_cache"}),
                            (SG + "move_to_cache", {RC + "solve_goal"})):
        cs = cg.callers_of(lambda k, c=callee: k == c)
        ck.floor(R, "callers-of-" + callee.split("::")[-1], len(cs), 1)
        for k, blk, t in cs:
            if k in allowed:
                ck.ok(R, "%s<-%s" % (callee.split("::")[-1], short(k)))
            else:
                ck.violation(R, "%s<-%s" % (callee.split("::")[-1], short(k)), cg.bodies[k].where(t.get("ln")),
                             "a result reaches the persistent cache outside the audited path")

    R = "C10.CACHE-GUARD"
    ck.rule(R, "K3: in solve_goal, move_to_cache (cache on) and rollback_to(dfn) (cache off) are reachable only through the true edge of "
               "`subgoal_minimums.positive >= dfn`, after stack.pop and after stack_depth was cleared")
    sg = need_body(ck, facts, R, RC + "solve_goal")
    if sg:
        cfg = sg.cfg

        def is_ge(tr):
            return (tr.get("kind") == "bin" and tr["op"] == "Ge") or (tr.get("kind") == "call" and callee_matches(tr["call"], "PartialOrd::ge"))
        ge = cfg.bool_edges(is_ge, True)
        mv = cfg.call_blocks(SG + "move_to_cache")
        rb = cfg.call_blocks(SG + "rollback_to")
        n = guard_sites(ck, R, sg, mv, ge, "move_to_cache", "subgoal_minimums.positive >= dfn")
        n2 = guard_sites(ck, R, sg, rb, ge, "rollback_to(dfn)", "subgoal_minimums.positive >= dfn")
        ck.floor(R, "solve_goal.promotion-sites", min(n, n2), 1)
        dominated_by_calls(ck, R, sg, SG + "move_to_cache", "Stack::pop", "move_to_cache", "stack.pop(depth)")
        dominated_by_calls(ck, R, sg, SG + "move_to_cache", RC + "solve_new_subgoal", "move_to_cache", "solve_new_subgoal")
        # comparison is really between the minimums' positive link and dfn
        # ... and on that edge the completed SCC always leaves the search graph: every path to the return passes move_to_cache or
        # rollback_to - whatever the cache configuration and whether or not the solve was interrupted.  Nodes that stay behind are
        # found by a later solve and taken for finished members of an SCC still in progress
        mcb = cfg.call_blocks(SG + "move_to_cache") + cfg.call_blocks(SG + "rollback_to")
        rets_ = set(cfg.return_blocks())
        stays = [e for e in ge if rets_ & (cfg.reachable(e[1], (), False, stop=set(mcb)) - set(mcb))]
        if ge and mcb and not stays:
            ck.ok(R, "solve_goal:completed-scc-leaves-the-graph", "move_to_cache or rollback_to on every path behind the SCC-head test")
        else:
            ck.violation(R, "solve_goal:completed-scc-leaves-the-graph", sg.where(), "a completed SCC head can return without promoting or rolling back "
                         "its nodes: provisional / interrupted results stay in the search graph for later solves")
        cmp_ok = any(n_.get("k") in ("bin", "call") and (n_.get("op") == "Ge" or callee_matches(n_, "PartialOrd::ge")) and
                     mentions_field(n_, "positive") and "dfn" in expr_vars(n_) for n_ in walk(sg.thir))
        cleared = any(n_.get("k") == "assign" and mentions_field(n_["l"], "stack_depth") and
                      any(x.get("k") == "adt" and x.get("v") == "None" for x in walk(n_["r"])) for n_ in walk(sg.thir))
        if cmp_ok and cleared:
            ck.ok(R, "solve_goal:guard-compares-positive-with-dfn;stack_depth-cleared")
        else:
            ck.violation(R, "solve_goal:guard-compares-positive-with-dfn;stack_depth-cleared", sg.where(),
                         "SCC-head test must be `subgoal_minimums.positive >= dfn` and the node's stack_depth must be cleared first")
        # rollback_to and move_to_cache get the same dfn
        args = set()
        sgt = facts.thir(RC + "solve_goal")          # helpers spliced in
        for c in list(calls(sgt, SG + "move_to_cache")) + list(calls(sgt, SG + "rollback_to")):
            args.add(var_name(c["args"][1]))
        if len(args) == 1 and None not in args:
            ck.ok(R, "solve_goal:both-configurations-discard-from-dfn")
        else:
            ck.violation(R, "solve_goal:both-configurations-discard-from-dfn", sg.where(), "cache-on and cache-off paths must drop the same node set (from dfn): %s" % args)
    mc = need_body(ck, facts, R, SG + "move_to_cache")
    rbk = need_body(ck, facts, R, SG + "rollback_to")
    if mc and rbk:
        same = has_call(mc.thir, "HashMap::retain") and has_call(rbk.thir, "HashMap::retain") and \
            (has_call(mc.thir, "Vec::drain") and has_call(rbk.thir, "Vec::truncate"))
        if same:
            ck.ok(R, "move_to_cache~rollback_to:same-node-set", "indices.retain(< dfn); nodes[dfn..] drained / truncated")
        else:
            ck.violation(R, "move_to_cache~rollback_to:same-node-set", mc.where(), "both must drop indices >= dfn and nodes[dfn..]")

    R = "C10.KEY"
    ck.rule(R, "types+K5: Tables.table_indices, the recursive cache and the search graph are keyed by UCanonical<InEnvironment<Goal>>; "
               "PartialEq/Eq/Hash of UCanonical, Canonical, InEnvironment, Environment are derived over all fields")
    tb = facts.adt("chalk_engine::tables::Tables")
    if tb:
        ft = {f["n"]: f["ty"] for f in tb["variants"][0]["fields"]}
        if "chalk_ir::UCanonical<chalk_ir::InEnvironment<chalk_ir::Goal<I>>>" in ft.get("table_indices", ""):
            ck.ok(R, "Tables.table_indices:key", ft["table_indices"][:100])
        else:
            ck.violation(R, "Tables.table_indices:key", "", "tables are no longer keyed by the full u-canonical goal in its environment: %s" % ft.get("table_indices"))
    else:
        ck.violation(R, "missing-anchor:Tables", "", "type not found")
    rs = facts.adt("chalk_recursive::recursive::RecursiveSolver")
    if rs:
        ty = rs["variants"][0]["fields"][0]["ty"]
        if "RecursiveContext<chalk_ir::UCanonical<chalk_ir::InEnvironment<chalk_ir::Goal<I>>>" in ty:
            ck.ok(R, "RecursiveSolver.ctx:key")
        else:
            ck.violation(R, "RecursiveSolver.ctx:key", "", "recursive context key type changed: %s" % ty)
    n = 0
    for ty in ("UCanonical", "Canonical", "InEnvironment", "Environment"):
        for tr in ("core::cmp::PartialEq", "core::hash::Hash"):
            ims = [im for im in facts.crate("chalk_ir")["impls"] if im.get("self_key") == "chalk_ir::" + ty and im.get("trait") == tr]
            n += 1
            if len(ims) == 1 and (ims[0].get("derived") or (ims[0].get("x") and "derive" in ims[0]["x"])):
                ck.ok(R, "%s:%s-derived" % (ty, tr.split("::")[-1]))
            else:
                ck.violation(R, "%s:%s-derived" % (ty, tr.split("::")[-1]), ims[0]["file"] if ims else "",
                             "key type has a hand-written (or missing) %s impl; it could ignore the environment" % tr)
    ck.floor(R, "key-impls", n, 8)

    table_insert(ck, facts, cg, "C10.TABLE-INSERT")

    R = "C10.DELAYED-ANSWERS"
    ck.rule(R, "K3: an SLG answer published with delayed (coinductive) subgoals is provisional until a refinement strand has discharged "
               "them; root_answer refuses such answers (InvalidAnswer).  Tables persist across queries, so every table that publishes such "
               "an answer must get its refinement strand - in on_no_remaining_subgoals every path from `pursue_answer(..) == Some(index)` to "
               "the return must pass create_refinement_strand.  Today only the root table (empty caller stack) gets one: a table that "
               "answered as a *subgoal* keeps the unrefined answer, and a later query for that goal on the same solver finds only an "
               "invalid answer and reports `No possible solution`")
    from core import trace_is_call as _tic
    ob = need_body(ck, facts, R, "chalk_engine::logic::SolveState::on_no_remaining_subgoals")
    if ob:
        cfg = ob.cfg
        some = cfg.variant_edges(lambda tr: _tic("pursue_answer")(tr.get("of") or {}), ["Some"])
        crs = cfg.call_blocks("create_refinement_strand")
        ck.floor(R, "on_no_remaining_subgoals.pursue_answer-Some-edge/create_refinement_strand", min(len(some), len(crs)), 1)
        if some and crs:
            esc = []
            for e in some:
                reach = cfg.reachable(e[1], (), False, stop=set(crs))
                esc += [r for r in cfg.return_blocks() if r in reach]
            if esc:
                ck.violation(R, "on_no_remaining_subgoals:non-root-answer-never-refined", ob.where(),
                             "an answer published by a table that has a caller on the stack reaches the return without "
                             "create_refinement_strand: its delayed subgoals are never discharged in this table")
            else:
                ck.ok(R, "on_no_remaining_subgoals:every-answer-refined")
