"""C20 - the orphan check implements the orphan rules.

Decided: the clause tables that *are* the orphan rules:
  TRAIT-CLAUSES    LocalImplAllowed clauses of TraitDatum (local trait: fact; upstream: IsFullyVisible prefix + IsLocal)
  ADT-CLAUSES      IsLocal / IsUpstream / DownstreamType / IsFullyVisible clauses of AdtDatum by (upstream, fundamental)
  BUILTIN-COVERAGE built-in types are upstream and (with tuples of them) fully visible
  GOAL             perform_orphan_check proves forall<impl binders> LocalImplAllowed(trait_ref) and fails iff unprovable
"""
from core import enum_matches, select_arms, V, walk, calls, peel, callee_matches, var_name, trace_is_call, expr_vars
from kit import need_body, has_call, short, reachable_nodes, ctor_names, guard_sites, mentions_field

PC = "chalk_solve::clauses::program_clauses::ToProgramClauses"
TRAIT_TPC = "<chalk_solve::rust_ir::TraitDatum as %s>::to_program_clauses" % PC
ADT_TPC = "<chalk_solve::rust_ir::AdtDatum as %s>::to_program_clauses" % PC


def pushes(th, flags):
    out = []
    for n, in_loop in reachable_nodes(th, flags):
        if n.get("k") == "call" and n.get("fn", "").endswith(("ClauseBuilder::push_fact", "ClauseBuilder::push_clause")):
            kind = n["fn"].split("::")[-1]
            args = n["args"][1:]
            head = ctor_names(args[0], "chalk_ir::DomainGoal") if args else []
            conds = ctor_names(args[1], "chalk_ir::DomainGoal") if len(args) > 1 else []
            out.append({"kind": kind, "loop": in_loop, "head": head[:1], "conds": conds, "node": n})
    return out


def index_var(node, base):
    """For `base[i]` (possibly cloned) under node return the index variable names used."""
    out = set()
    for n in walk(node):
        if n.get("k") == "index" and var_name(n["e"]) == base:
            out.add(var_name(n["i"]))
        if n.get("k") == "call" and callee_matches(n, "Index::index") and var_name(n["args"][0]) == base:
            out.add(var_name(n["args"][1]))
    return out


def run(ck, facts, tier):
    from shared import clauses as _clx
    _clx.clauses_no_drop(ck, facts, "C20.CLAUSES-NO-DROP")
    # ------------------------------------------------------------------ TRAIT-CLAUSES
    R = "C20.TRAIT-CLAUSES"
    ck.rule(R, "K1/K2: TraitDatum emits `LocalImplAllowed(T)` as a fact for a local trait, and for an upstream trait one clause per "
               "type parameter i with conditions IsFullyVisible(p_j) for exactly j < i followed by IsLocal(p_i)")
    th = facts.thir(TRAIT_TPC)
    tb = need_body(ck, facts, R, TRAIT_TPC)
    if th and tb:
        loc = [p for p in pushes(th, {"upstream": False}) if p["head"] == ["LocalImplAllowed"]]
        ups = [p for p in pushes(th, {"upstream": True}) if p["head"] == ["LocalImplAllowed"]]
        if len(loc) == 1 and loc[0]["kind"] == "push_fact" and not loc[0]["loop"]:
            ck.ok(R, "local-trait:fact")
        else:
            ck.violation(R, "local-trait:fact", tb.where(), "a local trait must get the unconditional fact LocalImplAllowed(trait_ref) (found %s)"
                         % [(p["kind"], p["conds"]) for p in loc])
        if len(ups) == 1 and ups[0]["kind"] == "push_clause" and ups[0]["loop"]:
            # Which parameters feed IsFullyVisible / IsLocal, relative to the loop index?  (shared/indexsets.py: a small abstract
            # interpretation over the idioms `v[j] for j in 0..i`, `v[..i]`, `v.iter().take(i)`, `enumerate()`, `let` aliases)
            from shared import indexsets as ix
            from kit import for_loops
            node = ups[0]["node"]
            verdict = None
            for _l, it, pat, body_ in for_loops(th):
                if not any(x is node for x in walk(body_)):
                    continue
                le = ix.loop_env(it, pat)
                if le is None:
                    verdict = "the loop over the type parameters is not `0..v.len()` / `v.iter().enumerate()`"
                    break
                base, env, total = le
                got = []
                ix.collect(body_, env, base, ("IsFullyVisible", "IsLocal"), got)
                got = [(v, a) for v, a, n_ in got if any(x is n_ for x in walk(node))]
                seen_ = sorted(set(got), key=str)
                want_ = sorted({("IsFullyVisible", ix.PRE_M), ("IsLocal", ix.ELEM)}, key=str)
                if seen_ == want_ and total and ups[0]["conds"][-1:] == ["IsLocal"]:
                    verdict = "ok"
                else:
                    verdict = "conditions are %s (expected IsFullyVisible of exactly the parameters before i, then IsLocal of parameter i)" % seen_
                break
            if verdict == "ok":
                ck.ok(R, "upstream-trait:prefix-fully-visible-then-local", "for every i: IsFullyVisible(p_j) for exactly j < i, then IsLocal(p_i)")
            else:
                ck.violation(R, "upstream-trait:prefix-fully-visible-then-local", tb.where(node.get("ln")),
                             "orphan clause shape: %s" % (verdict or "the clause is not built inside a loop over the type parameters"))
        else:
            ck.violation(R, "upstream-trait:prefix-fully-visible-then-local", tb.where(),
                         "expected exactly one looped push_clause(LocalImplAllowed, ..) for upstream traits (found %d)" % len(ups))

    # ------------------------------------------------------------------ ADT-CLAUSES
    R = "C20.ADT-CLAUSES"
    ck.rule(R, "K1 vs spec: AdtDatum's locality clauses by (upstream, fundamental): local -> IsLocal fact; upstream non-fundamental -> "
               "IsUpstream fact; upstream fundamental -> IsLocal :- IsLocal(p) per param and IsUpstream :- IsUpstream(all params); "
               "fundamental -> DownstreamType :- DownstreamType(p) per param; always IsFullyVisible :- IsFullyVisible(params)")
    th = facts.thir(ADT_TPC)
    ab = need_body(ck, facts, R, ADT_TPC)
    SPEC = {
        (False, False): {("push_fact", "IsLocal", (), False)},
        (False, True): {("push_fact", "IsLocal", (), False), ("push_clause", "DownstreamType", ("DownstreamType",), True)},
        (True, False): {("push_fact", "IsUpstream", (), False)},
        (True, True): {("push_clause", "IsLocal", ("IsLocal",), True), ("push_clause", "IsUpstream", ("IsUpstream",), False),
                       ("push_clause", "DownstreamType", ("DownstreamType",), True)},
    }
    if th and ab:
        for (up, fu), want in SPEC.items():
            got = set()
            for p in pushes(th, {"upstream": up, "fundamental": fu}):
                if p["head"] and p["head"][0] in ("IsLocal", "IsUpstream", "DownstreamType"):
                    got.add((p["kind"], p["head"][0], tuple(p["conds"]), p["loop"]))
            inst = "AdtDatum:(upstream=%s,fundamental=%s)" % (up, fu)
            if got == want:
                ck.ok(R, inst, str(sorted(got)))
            else:
                ck.violation(R, inst, ab.where(), "locality clauses are %s, the orphan rules require %s" % (sorted(got), sorted(want)))
        if has_call(th, "fully_visible_program_clauses"):
            ck.ok(R, "AdtDatum:calls-fully_visible_program_clauses")
        else:
            ck.violation(R, "AdtDatum:calls-fully_visible_program_clauses", ab.where(), "IsFullyVisible clause not generated")
    fvk = "chalk_solve::clauses::program_clauses::fully_visible_program_clauses"
    fv = need_body(ck, facts, R, fvk)
    if fv:
        t = facts.thir(fvk)
        ps = pushes(t, {})
        if len(ps) == 1 and ps[0]["kind"] == "push_clause" and ps[0]["head"] == ["IsFullyVisible"] and ps[0]["conds"] == ["IsFullyVisible"] \
                and has_call(t, "type_parameters") and has_call(t, "Iterator::map"):
            ck.ok(R, "fully_visible_program_clauses", "IsFullyVisible(ty) :- IsFullyVisible(p) for all type parameters")
        else:
            ck.violation(R, "fully_visible_program_clauses", fv.where(), "must push IsFullyVisible(ty) :- IsFullyVisible(every type parameter)")

    # ------------------------------------------------------------------ BUILTIN-COVERAGE
    R = "C20.BUILTIN-COVERAGE"
    ck.rule(R, "K1 vs spec: match_ty serves IsUpstream / IsFullyVisible / IsLocal / DownstreamType goals; for the built-in types the "
               "property names (scalars, str, never: upstream and fully visible; tuples: fully visible when their elements are) the arm "
               "must push a clause with that consequence")
    mk = "chalk_solve::clauses::match_ty"
    mb = need_body(ck, facts, R, mk)
    # which goal kinds are routed to match_ty at all
    pk = "chalk_solve::clauses::program_clauses_that_could_match"
    pb = need_body(ck, facts, R, pk)
    if pb:
        ms = [m for m in enum_matches(facts.thir(pb.key), "chalk_ir::DomainGoal")]
        routed = set()
        for m in ms:
            for v in ("IsUpstream", "IsFullyVisible", "IsLocal", "DownstreamType"):
                for i, r in select_arms(m, V(v)):
                    if has_call(m["arms"][i]["body"], mk):
                        routed.add(v)
        ck.count("goal-kinds-routed-to-match_ty", sorted(routed))
        if not {"IsUpstream", "IsFullyVisible"} <= routed:
            ck.violation(R, "routing", pb.where(), "IsUpstream / IsFullyVisible goals are no longer answered by match_ty; re-anchor this rule")
    if mb:
        t = facts.thir(mk)
        ms = enum_matches(t, "chalk_ir::TyKind")
        if len(ms) != 1:
            ck.violation(R, "match_ty:match", mb.where(), "expected one match on TyKind")
        else:
            need = {"Scalar": ("IsUpstream", "IsFullyVisible"), "Str": ("IsUpstream", "IsFullyVisible"),
                    "Never": ("IsUpstream", "IsFullyVisible"), "Tuple": ("IsFullyVisible",)}
            n = 0
            for kind, goals in need.items():
                val = V(kind) if kind != "Tuple" else V("Tuple", **{"0": ("const", "2")})
                arms = select_arms(ms[0], val)
                heads = set()
                for i, r in arms:
                    for c in calls(ms[0]["arms"][i]["body"]):
                        if c.get("fn", "").endswith(("push_fact", "push_clause")):
                            heads |= set(ctor_names(c["args"][1], "chalk_ir::DomainGoal")[:1])
                            heads |= {"WellFormed"} if ctor_names(c["args"][1], "chalk_ir::WellFormed") else set()
                for g in goals:
                    n += 1
                    inst = "match_ty:TyKind::%s:%s" % (kind, g)
                    if g in heads:
                        ck.ok(R, inst, "consequence present")
                    else:
                        ck.violation(R, inst, mb.where(), "a `%s(%s)` goal reaches this arm but the arm only pushes %s clauses, so the goal is "
                                     "unprovable: e.g. `impl ForeignTrait<Local> for u32` fails the orphan check" % (g, kind, sorted(heads)))
            ck.floor(R, "cells", n, 7)
            # if a tuple (any arity) is given an IsFullyVisible / IsUpstream / IsLocal rule, its conditions range over ALL elements:
            # the WF rule right beside it deliberately leaves out the last element (it may be unsized) - visibility must not
            from kit import DROP_ADAPTORS
            # (a non-empty tuple: the arity-0 arm may state facts - the unit type has no elements)
            for i_, r_ in select_arms(ms[0], V("Tuple", **{"0": ("const", "2")})):
                for c in calls(ms[0]["arms"][i_]["body"]):
                    if not c.get("fn", "").endswith(("push_fact", "push_clause")) or len(c.get("args", [])) < 2:
                        continue
                    head = ctor_names(c["args"][1], "chalk_ir::DomainGoal")[:1]
                    if not head or head[0] not in ("IsFullyVisible", "IsUpstream", "IsLocal", "DownstreamType"):
                        continue
                    inst = "match_ty:TyKind::Tuple:%s:over-all-elements" % head[0]
                    conds = c["args"][2] if len(c["args"]) > 2 else None
                    sliced = conds is not None and any(
                        (x.get("k") == "index" or (x.get("k") == "call" and callee_matches(x, "Index::index"))) and
                        any(y.get("k") == "adt" and "ops::range::" in str(y.get("adt", "")) for y in walk(x)) for x in walk(conds))
                    dropped = conds is not None and any(str(x.get("fn", "")).split("::")[-1] in DROP_ADAPTORS and
                                                        ("Iterator" in str(x.get("fn", "")) or "slice" in str(x.get("fn", ""))) for x in calls(conds))
                    if c.get("fn", "").endswith("push_fact") or conds is None:
                        ck.violation(R, inst, mb.where(c.get("ln")), "a tuple is declared %s unconditionally: its elements are not examined" % head[0])
                    elif sliced or dropped:
                        ck.violation(R, inst, mb.where(c.get("ln")), "the conditions of the tuple's %s rule leave out elements (a slice / "
                                     "element-dropping adaptor): `(u32, T)` would count as %s although it mentions T" % (head[0], head[0]))
                    else:
                        ck.ok(R, inst, "conditions over the whole substitution")

    # ------------------------------------------------------------------ GOAL
    R = "C20.EVERY-LOCAL-IMPL-CHECKED"
    ck.rule(R, "K3/K9: whichever function drives the orphan check (calls perform_orphan_check inside a loop over impl ids) reaches that "
               "loop on every path to a successful return - no early `return Ok(())` in front of it that depends on a flag of the trait "
               "(marker, auto ..) or of the impl; error propagation with `?` is the only other way out.  And the loop has no "
               "element-dropping adaptor and is never left early (K9)")
    from core import CallGraph as _CG
    cg_o = _CG(facts, ["chalk_solve", "chalk_integration", "chalk"])
    drivers = sorted({k for k, _b, _t in cg_o.callers_of(lambda k_: k_ == "chalk_solve::coherence::orphan::perform_orphan_check", through_helpers=False)})
    ck.floor(R, "callers-of-perform_orphan_check", len(drivers), 1)
    for dk in drivers:
        db_ = cg_o.bodies[dk]
        cfg = db_.cfg
        perf = cfg.call_blocks("perform_orphan_check")
        heads = [nb for nb in cfg.call_blocks("Iterator::next") if any(p_ in cfg.reachable(nb, (), False) for p_ in perf)]
        inst = "%s:loop-reached-on-every-ok-path" % short(dk.split("::{")[0])
        if not heads:
            ck.violation(R, inst, db_.where(), "perform_orphan_check is not called from a loop over the impls")
            continue
        excused = set(cfg.call_blocks("FromResidual::from_residual"))
        reach = cfg.reachable(0, (), False, stop=set(heads) | excused)
        esc = [r for r in cfg.return_blocks() if r in reach]
        if esc:
            ck.violation(R, inst, db_.where(cfg.blocks[esc[0]]["t"].get("ln")), "the function can return successfully without entering the loop that "
                         "orphan-checks the impls (an early return on some flag): those impls are never checked")
        else:
            ck.ok(R, inst, "every non-error return is behind the loop over the impls")
        from kit import adaptor_sites as _ads
        drops = _ads(facts, db_.crate, lambda k_, dk_=dk: k_ == dk_.split("::{")[0])
        if drops:
            ck.violation(R, "%s:all-impls" % short(dk.split("::{")[0]), db_.where(), "impl ids are narrowed before the orphan check: %s" % sorted(a for _k, a in drops))
        else:
            ck.ok(R, "%s:all-impls" % short(dk.split("::{")[0]))

    R = "C20.GOAL"
    ck.rule(R, "K3: perform_orphan_check builds LocalImplAllowed(impl trait_ref) under the impl's own binders, closes it, and returns "
               "FailedOrphanCheck exactly on the `solve(..).is_some() == false` edge")
    ok_ = "chalk_solve::coherence::orphan::perform_orphan_check"
    ob = need_body(ck, facts, R, ok_)
    if ob:
        t = facts.thir(ok_)
        lia = [n for n in walk(t) if n.get("k") == "adt" and n.get("v") == "LocalImplAllowed"]
        shape = len(lia) == 1 and mentions_field(lia[0], "trait_ref") and has_call(t, "Binders::map_ref") and has_call(t, "into_closed_goal") \
            and has_call(t, "Solver::solve")
        if shape:
            ck.ok(R, "goal-shape", "binders.map_ref(LocalImplAllowed(trait_ref)).into_closed_goal -> solve")
        else:
            ck.violation(R, "goal-shape", ob.where(), "the orphan goal must be the closed `forall<..> LocalImplAllowed(trait_ref)`")
        cfg = ob.cfg
        errs = [b for b, j, st in cfg.agg_sites("chalk_solve::coherence::CoherenceError", "FailedOrphanCheck")]
        # the solver's verdict: `solve(..).is_some()` tested, or the Option matched directly
        is_solve = lambda tr: tr.get("of", {}).get("kind") == "call" and callee_matches(tr["of"]["call"], "Solver::solve")
        edges = cfg.bool_edges(trace_is_call("Option::is_some"), want=False) + cfg.variant_edges(is_solve, ["None"])
        n = guard_sites(ck, R, ob, errs, edges, "Err(FailedOrphanCheck)", "!solve(..).is_some()")
        ck.floor(R, "error-sites", n, 1)
        # and no other path returns Err / the true edge does not reach the error
        t_edges = cfg.bool_edges(trace_is_call("Option::is_some"), want=True) + cfg.variant_edges(is_solve, ["Some"])
        if errs and t_edges and all(e not in cfg.reachable(t_edges[0][1]) for e in errs):
            ck.ok(R, "allowed-path-returns-ok")
        else:
            ck.violation(R, "allowed-path-returns-ok", ob.where(), "an allowed impl can still reach the error return")
        # ... and Ok(()) is returned only behind the solver's yes: no impl (negative, marker, ..) is accepted without being asked about
        oks = [b_ for b_, j_, st_ in cfg.agg_sites("core::result::Result", "Ok")]
        n_ok = guard_sites(ck, R, ob, oks, t_edges, "Ok(())", "solve(..).is_some()")
        ck.floor(R, "ok-sites", n_ok, 1)
