"""C19 - coherence checking is total and its accepted priorities are consistent.

Not decided: that accepted priorities are semantically consistent (that is the solver's answer to the overlap goals).
Decided:
  PANIC-FREE  every panic-capable site in chalk-solve/src/coherence*.rs reachable from specialization_priorities has a structural
              justification: an audit entry, or - for the `assigned once` assertion - a construction that makes the specialization graph a
              forest or a visited-set in the walk
  ALL-PAIRS   every unordered pair of impls is examined (tuple_combinations of the full impl list), only negative/negative pairs are
              skipped, and an overlap that is not a strict specialization is an error
  ERRORS      coherence() propagates both the specialization and the orphan errors
"""
from core import enum_matches, select_arms, V, T, walk, calls, peel, callee_matches, var_name, expr_vars, CallGraph
from kit import need_body, has_call, short, result_expr, mentions_field, thir_all, for_loops, loop_total, loop_flow
from panics import panic_sites

CS = "chalk_solve::coherence::CoherenceSolver::"
SP = "chalk_solve::coherence::SpecializationPriorities::"

AUDIT = {
    (CS + "set_priorities", "expect:of-node_weight"): "the index comes from `forest.externals()` / `forest.neighbors()` of the same graph",
}


def run(ck, facts, tier):
    R = "C19.PANIC-FREE"
    ck.rule(R, "K6: panic sites in the coherence module reachable from CoherenceSolver::specialization_priorities are each audited; "
               "`assert!(old_value.is_none())` in SpecializationPriorities::insert is justified only if no impl can be visited twice, i.e. "
               "the walk keeps a visited set or edges are only added to impls that have no parent yet (forest by construction)")
    cg = CallGraph(facts, ["chalk_solve"])
    reach = cg.reachable_from([CS + "specialization_priorities"])
    region = [k for k in reach if k in cg.bodies and (cg.bodies[k].file or "").startswith("chalk-solve/src/coherence")]
    ck.floor(R, "functions-in-region", len(region), 6)
    n = 0
    for k in sorted(region):
        b = cg.bodies[k]
        for s in panic_sites(b):
            n += 1
            inst = "%s:%s" % (short(k), s["key"])
            if (k, s["key"]) in AUDIT:
                ck.ok(R, inst, "audited: " + AUDIT[(k, s["key"])])
            elif k == SP + "insert" and s["key"] == "macro:assert!":
                # structural justification
                sp = facts.body(CS + "set_priorities")
                bf = facts.body(CS + "build_specialization_forest")
                visited = False
                if sp:
                    for t in thir_all(facts, sp):
                        if has_call(t, ("HashSet::insert", "HashSet::contains", "HashMap::contains_key", "IndexMap::contains_key", "contains_key",
                                        "FixedBitSet::put", "visit_map", "Entry")):
                            visited = True
                        if any(x.get("k") == "if" and has_call(x["cond"], ("contains", "contains_key", "is_some", "get")) and
                               mentions_field(x["cond"], "map") for x in walk(t)):
                            visited = True
                forest_by_construction = False
                if bf:
                    for t in thir_all(facts, bf):
                        if has_call(t, ("neighbors_directed", "edges_directed", "externals", "find_edge")):
                            forest_by_construction = True
                if visited or forest_by_construction:
                    ck.ok(R, inst, "each impl is assigned once (%s)" % ("visited set" if visited else "forest by construction"))
                else:
                    ck.violation(R, inst, b.where(s["ln"]),
                                 "build_specialization_forest adds an edge for *every* specializing pair, so a chain A > B > C has edges A->B, B->C "
                                 "and A->C; set_priorities then reaches C twice and this assertion panics (e.g. `impl<T> Foo for T`, "
                                 "`impl<T> Foo for Vec<T>`, `impl Foo for Vec<Bar>`)")
            else:
                ck.violation(R, inst, b.where(s["ln"]), "panic-capable site without an audit entry in the coherence check")
    ck.floor(R, "panic-sites", n, 1)

    R = "C19.ALL-PAIRS"
    ck.rule(R, "K3/K1: visit_specializations_of_trait walks tuple_combinations() of local_impls_to_coherence_check(trait), skips only "
               "(negative, negative), and for overlapping pairs records (true,false)/(false,true) specializations and returns "
               "OverlappingImpls for every other outcome; disjoint() is true only for a Unique refutation")
    vs = need_body(ck, facts, R, CS + "visit_specializations_of_trait")
    if vs:
        th = vs.thir
        ok_iter = has_call(th, "tuple_combinations") and has_call(th, "local_impls_to_coherence_check") and \
            not [c for c in calls(th, ("Iterator::take", "Iterator::skip", "Iterator::filter", "Iterator::step_by", "Iterator::zip",
                                       "Iterator::filter_map", "Iterator::take_while", "Iterator::skip_while", "Iterator::nth"))]
        # (`zip` pairs the i-th element of one list with the i-th of another and stops at the shorter one: it enumerates a diagonal,
        # not the pairs)
        if ok_iter:
            ck.ok(R, "all-unordered-pairs")
        else:
            ck.violation(R, "all-unordered-pairs", vs.where(), "every unordered pair of the trait's impls must be examined")
        # stated on MIR paths (no assumption on `if !a && !b { continue }` vs nested ifs vs early continue):
        # a pair leaves the loop body without reaching disjoint() only on a path that saw is_positive() == false for BOTH impls
        from kit import calls_grouped_edges
        cfg0 = vs.cfg
        dj_blocks = cfg0.call_blocks(CS + "disjoint")
        nxt0 = cfg0.call_blocks("Iterator::next")
        exits0 = set(nxt0) | set(cfg0.return_blocks())
        some_edges = cfg0.variant_edges(lambda tr: tr.get("of", {}).get("kind") == "call" and callee_matches(tr["of"]["call"], "Iterator::next"), ["Some"])
        neg_edges = calls_grouped_edges(cfg0, "is_positive", False)
        ok_skip = bool(dj_blocks) and bool(some_edges)
        why = ""
        for e in some_edges:
            bypass = cfg0.reachable(e[1], (), False, stop=set(dj_blocks) | exits0)
            if not (bypass & exits0):
                continue                                    # no pair is skipped at all
            if len(neg_edges) < 2:
                ok_skip, why = False, "pairs are skipped, but not on a test of both impls' polarity"
                break
            for cb, edges in neg_edges.items():
                again = cfg0.reachable(e[1], edges, False, stop=set(dj_blocks) | exits0)
                if again & exits0:
                    ok_skip, why = False, "a pair can be skipped without `!is_positive()` of both impls"
        if ok_skip:
            ck.ok(R, "skip-only-negative-negative")
        else:
            ck.violation(R, "skip-only-negative-negative", vs.where(), "only pairs of two negative impls may be skipped (%s)" % (why or "disjoint() not found"))
        ms = [m for m in walk(th) if m.get("k") == "match" and m.get("sty") == "(bool, bool)"]
        if len(ms) != 1:
            ck.violation(R, "specialization-match", vs.where(), "expected the match on (specializes(l,r), specializes(r,l))")
        else:
            m = ms[0]
            sc = peel(m["scrut"])
            from kit import let_inits, resolve_var, for_loops
            inits = let_inits(th)
            lv = []
            for _l, _it, pat, _b in for_loops(th):
                from core import pat_bindings
                lv = [nm for nm, _p in pat_bindings(pat)] if pat else []
                if len(lv) == 2:
                    break
            L, Rr = (lv + ["l_id", "r_id"])[:2]
            elems = [resolve_var(x, inits) for x in (sc.get("es") or [])] if sc.get("k") == "tuple" else []
            args_ok = len(elems) == 2 and all(e.get("k") == "call" and callee_matches(e, "specializes") for e in elems) and \
                [[var_name(a) for a in e["args"][1:]] for e in elems] == [[L, Rr], [Rr, L]]
            table = {}
            for a in ("true", "false"):
                for bq in ("true", "false"):
                    arms = select_arms(m, T(("const", a), ("const", bq)))
                    body_ = m["arms"][arms[0][0]]["body"]
                    rec = [c for c in walk(body_) if c.get("k") == "call" and var_name(c.get("fun")) == "record_specialization" or
                           (c.get("k") == "call" and "record_specialization" in expr_vars(c) and (c.get("fn") or "").endswith(("FnMut::call_mut", "call_mut")))]
                    # the error must be returned unconditionally: the first thing the arm does is `return Err(OverlappingImpls)`
                    first = body_
                    for _ in range(6):
                        first = peel(first)
                        if isinstance(first, dict) and first.get("k") == "block":
                            first = (first.get("stmts") or [first.get("expr")])[0]
                        else:
                            break
                    err = isinstance(first, dict) and first.get("k") == "return" and \
                        any(x.get("k") == "adt" and x.get("v") == "OverlappingImpls" for x in walk(first))
                    order = None
                    if rec:
                        order = tuple({L: "l_id", Rr: "r_id"}.get(v, v) for v in [var_name(x) for x in (peel(rec[0]["args"][-1]).get("es") or rec[0]["args"][-2:])])
                    table[(a, bq)] = ("record", order) if rec else ("err" if err else "other")
            want = {("true", "false"): ("record", ("l_id", "r_id")), ("false", "true"): ("record", ("r_id", "l_id")),
                    ("true", "true"): "err", ("false", "false"): "err"}
            if table == want and args_ok:
                ck.ok(R, "overlap-outcomes", "strict specialization recorded in the right direction; anything else is OverlappingImpls")
            else:
                ck.violation(R, "overlap-outcomes", vs.where(m.get("ln")), "outcome table is %s (args ok: %s)" % (table, args_ok))
        # specialization is examined exactly for the non-disjoint pairs (MIR paths): specializes() is reached only behind the false
        # edge of disjoint(), and from that edge no path gets to the next pair / the return without the specialization decision
        sp_blocks = cfg0.call_blocks(CS + "specializes")
        dj_false = [e for es in calls_grouped_edges(cfg0, CS + "disjoint", False).values() for e in es]
        ok_dis = bool(sp_blocks) and bool(dj_false) and all(cfg0.must_pass_edges(sb, dj_false) for sb in sp_blocks)
        for e in dj_false:
            r = cfg0.reachable(e[1], (), False, stop=set(sp_blocks))
            if (r - set(sp_blocks)) & exits0:
                ok_dis = False
        if ok_dis:
            ck.ok(R, "overlap-iff-not-disjoint")
        else:
            ck.violation(R, "overlap-iff-not-disjoint", vs.where(), "specialization must be examined exactly for non-disjoint pairs")
    if vs:
        # an overlap error, once produced, is the verdict: from the block that builds CoherenceError::OverlappingImpls the next pair
        # (the loop's Iterator::next) must be unreachable - otherwise a later pair can overwrite / forget the error
        cfg = vs.cfg
        errs = [b for b, j, st in cfg.agg_sites("chalk_solve::coherence::CoherenceError", "OverlappingImpls")]
        nxt = [b for b in cfg.call_blocks("Iterator::next") if "TupleCombinations" in str(cfg.blocks[b]["t"].get("recv", "")) or
               "tuple_combinations" in str(cfg.blocks[b]["t"])] or cfg.call_blocks("Iterator::next")
        ck.floor(R, "visit_specializations_of_trait.OverlappingImpls-sites/loop-head", min(len(errs), len(nxt)), 1)
        if errs and nxt:
            again = [e for e in errs if any(n in cfg.reachable(e, (), False) for n in nxt)]
            if again:
                ck.violation(R, "overlap-error-is-final", vs.where(cfg.blocks[again[0]]["t"].get("ln")),
                             "after an overlapping pair was found the loop goes on to the next pair: the error is only a value that a later "
                             "pair may overwrite, so a program with conflicting impls can be accepted")
            else:
                ck.ok(R, "overlap-error-is-final", "the error is returned from the loop at once")
    dj = need_body(ck, facts, R, CS + "disjoint")
    if dj:
        ms = [m for m in walk(facts.thir(dj.key)) if m.get("k") == "match" and "Option<chalk_solve::solve::Solution" in m.get("sty", "")]
        ok = False
        if len(ms) == 1:
            res = {}
            for label, val in (("Unique", V("Some", **{"0": V("Unique")})), ("Ambig", V("Some", **{"0": V("Ambig")})), ("None", V("None"))):
                a = select_arms(ms[0], val)
                e = peel(result_expr(ms[0]["arms"][a[0][0]]["body"]))
                res[label] = e.get("v") if e.get("k") == "lit" else "?"
            ok = "true" in str(res["Unique"]) and "false" in str(res["Ambig"]) and "false" in str(res["None"])
        neg = has_call(dj.thir, "negate") and has_call(dj.thir, "compatible") and has_call(dj.thir, "into_closed_goal")
        if ok and neg:
            ck.ok(R, "disjoint:only-on-unique-refutation")
        else:
            ck.violation(R, "disjoint:only-on-unique-refutation", dj.where(), "two impls are disjoint only if `not { exists.. overlap }` has a Unique solution")

    R = "C19.EVERY-SPECIALIZATION-AN-EDGE"
    ck.rule(R, "K3: the closure build_specialization_forest hands to visit_specializations_of_trait records EVERY specialization it is told "
               "about as an edge less_special -> more_special (Graph::update_edge / add_edge on every path to its return, never "
               "remove_edge): priorities are longest-chain depths over that graph, and an edge dropped as `implied by transitivity` is only "
               "implied if the other edges are already there - the pairs arrive in declaration order, not in chain order")
    bf = need_body(ck, facts, R, CS + "build_specialization_forest")
    if bf:
        from kit import all_returns_pass as _arp
        cls = [c for c in facts.closures_of(bf) if c.d.get("mir") and (c.cfg.call_blocks(("Graph::update_edge", "Graph::add_edge")) or
                                                                       any("ImplId" in str(p_) for p_ in (c.d.get("thir_params") or [])))]
        cls = [c for c in cls if "Closure#0" in c.key and c.key.count("{") == 1] or cls[:1]
        if not cls:
            ck.violation(R, "missing-anchor:record-closure", bf.where(), "the closure that records specializations was not found")
        for c in cls[:1]:
            edges = c.cfg.call_blocks(("Graph::update_edge", "Graph::add_edge"))
            rem = c.cfg.call_blocks(("Graph::remove_edge", "Graph::retain_edges", "Graph::clear_edges"))
            if not edges:
                ck.violation(R, "build_specialization_forest:edge-for-every-pair", bf.where(), "the recording closure adds no edge")
            else:
                _arp(ck, R, c, [0], edges, "build_specialization_forest:edge-for-every-pair")
            if rem or bf.cfg.call_blocks(("Graph::remove_edge", "Graph::retain_edges", "Graph::clear_edges")):
                ck.violation(R, "build_specialization_forest:no-edge-removed", bf.where(), "recorded specialization edges are removed again")
            else:
                ck.ok(R, "build_specialization_forest:no-edge-removed")

    R = "C19.VERDICT-BY-SOLVER"
    ck.rule(R, "K3 (must-pass-through): CoherenceSolver::disjoint and ::specializes reach their return only through the solver call "
               "(Solver::solve / has_unique_solution) on the goal they built - no shortcut decides overlap or specialization from the "
               "syntactic shape of the impl headers (projections normalize, where clauses matter); and the value returned is computed "
               "from that call's result")
    from kit import all_returns_pass
    for fn in ("disjoint", "specializes"):
        b = need_body(ck, facts, R, CS + fn)
        if not b:
            continue
        cfg = b.cfg
        solve = [x for x in cfg.call_blocks(("Solver::solve", "Solver::has_unique_solution", "Solver::solve_limited"))]
        if not solve:
            ck.violation(R, "%s:no-solver-call" % fn, b.where(), "the verdict is not obtained from a solver")
            continue
        all_returns_pass(ck, R, b, [0], solve, "%s:every-return-after-solve" % fn)
        # literal `true` may only appear where the solver's answer has been examined
        lit_true = [n for n in walk(b.thir) if n.get("k") == "lit" and "true" in str(n.get("v"))]
        under_match = set()
        for m in walk(b.thir):
            if m.get("k") == "match" and "Solution" in str(m.get("sty", "")):
                for arm in m["arms"]:
                    for n in walk(arm["body"]):
                        under_match.add(id(n))
        stray = [n for n in lit_true if id(n) not in under_match]
        if stray:
            ck.violation(R, "%s:literal-true-outside-solution-match" % fn, b.where(stray[0].get("ln")),
                         "`true` is produced without looking at the solver's answer")
        else:
            ck.ok(R, "%s:true-only-from-solution" % fn, "%d literal(s)" % len(lit_true))

    R = "C19.PRIORITIES"
    ck.rule(R, "K3/K9: priorities are the longest-chain depth: set_priorities records the node's priority and then, on *every* visit (a node is "
               "reached once per incoming edge and a later visit may raise its priority), walks *all* forest.neighbors(idx) with p + 1 - no "
               "early return before the loop, no skipped child; SpecializationPriorities::insert never lowers a stored priority; "
               "specialization_priorities starts set_priorities(root, 0) from every root (externals(Incoming))")
    sp = need_body(ck, facts, R, CS + "set_priorities")
    if sp:
        th = facts.thir(CS + "set_priorities")
        ls = [x for x in for_loops(th) if has_call(x[1], "neighbors")]
        ck.floor(R, "set_priorities.for child in neighbors(idx)", len(ls), 1)

        def rec_call(n):
            if n.get("k") != "call" or not callee_matches(n, "set_priorities"):
                return False
            return any(peel(a).get("k") == "bin" and peel(a).get("op") == "Add" and "p" in expr_vars(a) for a in n.get("args", []))
        for l, it, pat, lbody in ls:
            loop_total(ck, R, "set_priorities:every-child-gets-p+1", sp.where(l.get("ln")), lbody, rec_call, what="a more special impl (child)")
            res = loop_flow(th, False, lambda n, l=l: n is l)
            if any(oc in ("return", "next", "errreturn") and not p for oc, p in res):
                ck.violation(R, "set_priorities:children-walked-on-every-visit", sp.where(),
                             "set_priorities can return without walking the node's children: when the node is reached again with a higher "
                             "priority the children keep their stale, lower priority and two impls of one chain end up with equal priority")
            else:
                ck.ok(R, "set_priorities:children-walked-on-every-visit")
        if has_call(th, "SpecializationPriorities::<I>::insert") or has_call(th, "insert"):
            ck.ok(R, "set_priorities:records-own-priority")
        else:
            ck.violation(R, "set_priorities:records-own-priority", sp.where(), "the node's own priority is not recorded")
    ins = need_body(ck, facts, R, "chalk_solve::coherence::SpecializationPriorities::insert")
    if ins:
        th = ins.thir
        asserts = any("assert" in str(x.get("x", "")) for x in walk(th, False) if isinstance(x, dict))
        lt_guard = [x for x in walk(th) if x.get("k") == "if" and any(
            (y.get("k") == "bin" and y.get("op") in ("Lt", "Gt")) or (y.get("k") == "call" and callee_matches(y, ("PartialOrd::lt", "PartialOrd::gt")))
            for y in walk(x["cond"])) and any(y.get("k") == "assign" or (y.get("k") == "call" and callee_matches(y, "insert")) for y in walk(x["then"]))]
        uncond = [x for x in walk(th) if x.get("k") == "call" and callee_matches(x, ("IndexMap::<K, V, S>::insert", "HashMap::<K, V, S>::insert"))]
        if (lt_guard or asserts) and not (uncond and not lt_guard and not asserts):
            ck.ok(R, "insert:never-lowers", "existing priority replaced only under a `<` comparison (or vacancy asserted)")
        else:
            ck.violation(R, "insert:never-lowers", ins.where(), "a stored priority may be overwritten by a lower one (the last visit wins instead of the longest chain)")
    spb = need_body(ck, facts, R, CS + "specialization_priorities")
    if spb:
        th = facts.thir(CS + "specialization_priorities")
        ls = [x for x in for_loops(th) if has_call(x[1], "externals")]
        ck.floor(R, "specialization_priorities.for root in externals", len(ls), 1)
        for l, it, pat, lbody in ls:
            loop_total(ck, R, "specialization_priorities:every-root", spb.where(l.get("ln")), lbody,
                       lambda n: n.get("k") == "call" and callee_matches(n, "set_priorities"), what="a root of the specialization forest")

    R = "C19.ERRORS"
    ck.rule(R, "K3: LoweringDatabase::coherence propagates the error of specialization_priorities (per trait, over all traits) and of orphan_check")
    co = need_body(ck, facts, R, "chalk_integration::query::coherence")
    if co:
        ths = thir_all(facts, co)
        def tried(fn):
            for t in ths:
                for m in walk(t):
                    if m.get("k") == "match" and m.get("src", "").startswith("TryDesugar") and has_call(m["scrut"], fn):
                        return True
            return False
        a = tried("specialization_priorities")
        o = tried("orphan_check")
        keys = any(has_call(t, "keys") and mentions_field(t, "trait_data") for t in ths)
        if a and o and keys:
            ck.ok(R, "coherence:propagates-both-errors-over-all-traits")
        else:
            ck.violation(R, "coherence:propagates-both-errors-over-all-traits", co.where(), "specialization=%s orphan=%s all-traits=%s" % (a, o, keys))
