"""C24 - parsing and lowering never crash.

K6 (panic inventory) over
  * the grammar actions of chalk-parse/src/parser.lalrpop (read from the grammar file and cross-checked against the MIR of the
    generated `__action*` functions) and the hand-written code of chalk-parse,
  * chalk-integration/src/lowering.rs, lowering/*.rs, error.rs and query.rs::program_ir, for every function reachable from
    parse_program / parse_goal / the `Lower` impls / lower_goal / program_ir.
Every panic-capable site (panic!/assert!/unreachable! expansions, unwrap/expect, indexing, bounds Assert terminators) must be in the
audit table below with the argument that establishes its precondition; anything else is a violation.  Calls *into* chalk-ir /
chalk-solve are outside the region (their preconditions are established by the kind/arity checks of the same lowering pass).
Stack exhaustion on deeply nested input is an abort, not a panic, and out of scope."""
import os
import re
import grammar
from core import CallGraph, walk
from kit import need_body, short
from panics import panic_sites

L = "chalk_integration::lowering"
ENV = L + "::env::Env::"
PL = L + "::program_lowerer::ProgramLowerer::lower"

# (function key prefix, site key) -> reason.  One entry per site; a *new* site in the region fails the check.
AUDIT = {
    ("<chalk_parse::ast::TraitRef as %s::LowerWithEnv>::lower" % L, "index:args"):
        "args[0] is the self type: every TraitRef the grammar builds pushes the self type first (Impl, `T: Foo` clauses, `<T as Foo>`)",
    ("<(&chalk_parse::ast::TraitDefn, chalk_ir::TraitId<chalk_integration::interner::ChalkIr>) as %s::LowerWithEnv>::lower" % L, "unwrap:of-lookup_associated_ty"):
        "the associated types of this very trait were inserted into associated_ty_lookups by ProgramLowerer::extract_associated_types in the same pass",
    ("<(&chalk_parse::ast::Impl, chalk_ir::ImplId<chalk_integration::interner::ChalkIr>, &std::collections::BTreeMap<", "index:0"):
        "associated_ty_value_ids (the tuple's third component) has one entry per (impl, associated value name), inserted by extract_ids for the same impl",
    (ENV + "auto_trait", "index:auto_traits"): "id was produced by lookup_trait on the same Env",
    (ENV + "trait_kind", "index:trait_kinds"): "id was produced by lookup_trait / lookup_type on the same Env",
    (ENV + "adt_kind", "index:adt_kinds"): "id was produced by lookup_type on the same Env",
    (ENV + "fn_def_kind", "index:fn_def_kinds"): "id was produced by lookup_type on the same Env",
    (ENV + "closure_kind", "index:closure_kinds"): "id was produced by lookup_type on the same Env",
    (ENV + "opaque_kind", "index:opaque_ty_kinds"): "id was produced by lookup_type on the same Env",
    (ENV + "coroutine_kind", "index:coroutine_kinds"): "id was produced by lookup_type on the same Env",
    (L + "::lower_goal", "index:trait_data"): "trait_data contains the trait of every associated type of a lowered program",
    (L + "::lower_goal", "index:result-of-as_slice"): "an associated type's binders extend its trait's binders (built that way by ProgramLowerer)",
    (PL, "index:associated_ty_lookups"): "trait loop: associated_ty_lookups was filled for every (trait, associated type name) by extract_associated_types",
    (PL, "index:associated_ty_value_ids"): "associated_ty_value_ids was filled for every (impl, value name) by extract_ids",
    (PL, "index:coroutine_ids"): "coroutine_ids was filled for every coroutine item by extract_ids",
    ("chalk_parse::parser::__intern_token::new_builder", "unwrap:of-new"): "lalrpop-generated lexer construction from constant regexes (generated code, trusted)",
}

GRAMMAR_PANICS = re.compile(r"\.\s*unwrap\s*\(\s*\)|\.\s*expect\s*\(|panic\s*!|unreachable\s*!|unimplemented\s*!|todo\s*!|\bassert(_eq|_ne)?\s*!")


def audit_lookup(k, site):
    base = k.split("::{")[0]
    for (fn, sk), why in AUDIT.items():
        if sk == site and (base == fn or base.startswith(fn)):
            return why
    return None


def run(ck, facts, tier):
    R = "C24.PANIC-FREE"
    ck.rule(R, "K6: every panic-capable site in the parse + lower region is in the audit table (one entry per site, with the reason its "
               "precondition holds); grammar actions are read from parser.lalrpop and cross-checked against the MIR of the generated actions")
    repo = ck.extract_info.get("repo", "/repo")
    # ---- grammar actions (source side)
    gpath = os.path.join(repo, "chalk-parse/src/parser.lalrpop")
    rules = grammar.parse(gpath)
    g_sites = []
    n_actions = 0
    for nt, alts in rules.items():
        for alt in alts:
            if alt.action:
                n_actions += 1
                for m in GRAMMAR_PANICS.finditer(alt.action):
                    g_sites.append((nt, m.group(0).replace(" ", "")))
    ck.floor(R, "grammar-actions", n_actions, 150)
    for nt, what in g_sites:
        ck.violation(R, "grammar:%s:%s" % (nt, what.strip(".(")), gpath,
                     "the action of `%s` contains `%s`: user input reaching it panics instead of producing a parse error (use `=>?` and "
                     "ParseError::User)" % (nt, what))
    # ---- grammar actions (MIR side) must agree
    n_act_mir = 0
    mir_sites = []
    for k, b in facts.bodies("chalk_parse").items():
        if re.search(r"::__action\d+$", k):
            n_act_mir += 1
            for s in panic_sites(b):
                mir_sites.append((k, s))
    ck.floor(R, "generated-action-functions", n_act_mir, 250)
    if len(mir_sites) != len(g_sites):
        ck.violation(R, "grammar-vs-generated-actions", gpath, "the grammar text shows %d panicking construct(s) in actions, the compiled actions "
                     "contain %d (%s): the tokenizer and the generated parser disagree" % (len(g_sites), len(mir_sites), [s["key"] for k, s in mir_sites][:4]))
    else:
        ck.ok(R, "grammar-vs-generated-actions", "%d action alternatives, %d compiled action functions, %d panic site(s) on both sides" % (n_actions, n_act_mir, len(g_sites)))
    # ---- hand-written chalk-parse + chalk-integration lowering region
    cg = CallGraph(facts, ["chalk_parse", "chalk_integration"])
    entries = [k for k in cg.bodies if k in ("chalk_parse::parse_program", "chalk_parse::parse_goal", L + "::lower_goal", "chalk_integration::query::program_ir")
               or k.endswith("as %s::Lower>::lower" % L)]
    ck.floor(R, "entry-points", len(entries), 5)
    reach = cg.reachable_from(entries)
    n_fn = 0
    n_sites = 0
    seen_audit = set()
    for k in sorted(reach):
        b = cg.bodies.get(k)
        if b is None:
            continue
        fl = b.file or ""
        in_region = fl.startswith("chalk-parse/src") or fl.startswith("chalk-integration/src/lowering") or fl.startswith("chalk-integration/src/error") \
            or (fl.startswith("chalk-integration/src/query") and k.startswith("chalk_integration::query::program_ir")) \
            or (fl.endswith("parser.rs") and "__intern_token" in k)
        if not in_region:
            continue
        n_fn += 1
        for s in panic_sites(b):
            n_sites += 1
            why = audit_lookup(k, s["key"])
            inst = "%s:%s" % (short(k.split("::{")[0])[:110], s["key"])
            if why:
                seen_audit.add(inst)
                ck.ok(R, inst, "audited: " + why)
            else:
                ck.violation(R, inst, b.where(s["ln"]), "panic-capable site on the path from program / goal text to the lowered program with no audit entry: "
                             "a malformed input reaching it crashes instead of returning an error")
    precondition_calls(ck, facts, cg, reach)
    R = "C24.PANIC-FREE"
    ck.floor(R, "functions-in-region", n_fn, 120)
    ck.floor(R, "audited-sites", len(seen_audit), 12)
    # parse_program / parse_goal map every parser error into Err
    for fn in ("parse_program", "parse_goal"):
        b = need_body(ck, facts, R, "chalk_parse::" + fn)
        if b:
            from kit import has_call
            if has_call(b.thir, "map_err") and not panic_sites(b):
                ck.ok(R, "%s:maps-parser-errors" % fn)
            else:
                ck.violation(R, "%s:maps-parser-errors" % fn, b.where(), "parser errors must be mapped into the returned Err")


PRECOND_AUDIT = {
    "chalk_ir::GenericArg::assert_ty_ref": "TraitRef::lower applies it to args[0]: established structurally by C24.SELF-ARG-IS-TYPE (every ast::TraitRef the "
                                           "parser builds starts its args with GenericArg::Ty, whose lowering kind-checks the name)",
    "chalk_ir::QuantifiedWhereClauses::from_iter": "unwraps an infallible conversion (Result<_, ()> built from Ok items only)",
    "chalk_ir::Substitution::from_iter": "unwraps an infallible conversion (Result<_, ()> built from Ok items only)",
    "chalk_ir::VariableKinds::from_iter": "unwraps an infallible conversion (Result<_, ()> built from Ok items only)",
}


def precondition_calls(ck, facts, cg, reach):
    from core import calls
    R = "C24.PRECONDITION-CALLS"
    ck.rule(R, "K6 + K5: a call from the parse / lower region into a chalk-ir / chalk-solve function that itself contains a panic site "
               "(an assert_*_ref, an unwrap) is in the audit table with the argument that establishes its precondition; the one "
               "precondition that rests on the *parser* is checked structurally (C24.SELF-ARG-IS-TYPE)")
    seen = {}
    for k in sorted(reach):
        b = cg.bodies.get(k)
        if b is None or b.thir is None:
            continue
        fl = b.file or ""
        if not (fl.startswith("chalk-parse/src") or fl.startswith("chalk-integration/src/lowering") or fl.startswith("chalk-integration/src/error")):
            continue
        for c in calls(b.thir):
            for name in (c.get("res"), c.get("fn")):
                if not name:
                    continue
                if name.startswith(("chalk_ir::", "chalk_solve::", "<chalk_ir", "<chalk_solve")):
                    fb = facts.body(name)
                    if fb is not None and panic_sites(fb):
                        seen.setdefault(name, []).append((b, c.get("ln")))
                    break
    for name, sites in sorted(seen.items()):
        inst = "%s" % short(name)
        if name in PRECOND_AUDIT:
            ck.ok(R, inst, "%d call site(s); audited: %s" % (len(sites), PRECOND_AUDIT[name][:100]))
        else:
            b, ln = sites[0]
            ck.violation(R, inst, b.where(ln), "lowering calls `%s`, which panics when its precondition fails, and no audit entry says why user "
                         "input can never violate it" % name)
    ck.floor(R, "precondition-callees", len(seen), 4)

    R = "C24.SELF-ARG-IS-TYPE"
    ck.rule(R, "K5 (parser / lowering contract): TraitRef::lower treats args[0] as the self *type* (assert_ty_ref panics on a lifetime or "
               "const), so every construction of ast::TraitRef in chalk-parse - the compiled grammar actions - starts `args` with a "
               "GenericArg::Ty(..) value (whose lowering reports a wrong-kind name as an error); GenericArg::Id / a conversion helper in that "
               "position lets `impl<const N> Foo for N {}` reach the assertion")
    n = 0
    for k, b in sorted(facts.bodies("chalk_parse").items()):
        if b.thir is None or "{" in k.split("::")[-1] or " as core::clone::Clone>" in k:
            continue        # (a derived Clone copies an existing TraitRef field by field)
        th = facts.thir(k)
        for adt in walk(th, skip_tracing=False):
            if not (adt.get("k") == "adt" and adt.get("adt") == "chalk_parse::ast::TraitRef"):
                continue
            n += 1
            inst = "%s:TraitRef.args[0]" % k.split("::")[-1]
            args = dict((f[0], f[1]) for f in adt.get("fields", [])).get("args")
            first = None
            srcs = [args]
            from core import var_name, peel
            vn = var_name(args) if args is not None else None
            if vn:
                srcs = [st["init"] for st in walk(th, skip_tracing=False) if st.get("k") == "let" and st.get("init") is not None
                        and st["pat"].get("k") == "bind" and st["pat"].get("n") == vn]
            for src in srcs:
                for x in walk(src, skip_tracing=False):
                    if x.get("k") == "array" and x.get("es"):
                        first = peel(x["es"][0])
                        break
                if first is not None:
                    break
            if first is not None and first.get("k") == "adt" and first.get("adt") == "chalk_parse::ast::GenericArg" and first.get("v") == "Ty":
                ck.ok(R, inst, "GenericArg::Ty(..)")
            else:
                what = "nothing the checker can read" if first is None else "%s %s" % (first.get("k"), first.get("v") or first.get("fn") or "")
                ck.violation(R, inst, b.where(adt.get("ln")), "the first argument of this trait reference is built as %s, not GenericArg::Ty(..): "
                             "a const or lifetime name in self position reaches assert_ty_ref in TraitRef::lower" % what)
    ck.floor(R, "TraitRef-constructions", n, 4)
