"""C24 - parsing and lowering never crash.

K6 (panic inventory) over
  * the grammar actions of chalk-parse/src/parser.lalrpop (read from the grammar file and cross-checked against the MIR of the
    generated `__action*` functions) and the hand-written code of chalk-parse,
  * chalk-integration/src/lowering.rs, lowering/*.rs, error.rs and query.rs::program_ir, for every function reachable from
    parse_program / parse_goal / the `Lower` impls / lower_goal / program_ir.
Every panic-capable site (panic!/assert!/unreachable! expansions, unwrap/expect, indexing, bounds Assert terminators) must be in the
audit table below with the argument that establishes its precondition; anything else is a violation.  Calls *into* chalk-ir /
chalk-solve are outside the region (their preconditions are established by the kind/arity checks of the same lowering pass).
Stack exhaustion on deeply nested input is an abort, not a panic, and out of scope."""
import os
import re
import grammar
from core import CallGraph, walk
from kit import need_body, short
from panics import panic_sites

L = "chalk_integration::lowering"
ENV = L + "::env::Env::"
PL = L + "::program_lowerer::ProgramLowerer::lower"

# (function key prefix, site key) -> reason.  One entry per site; a *new* site in the region fails the check.
AUDIT = {
    ("<chalk_parse::ast::TraitRef as %s::LowerWithEnv>::lower" % L, "index:args"):
        "args[0] is the self type: every TraitRef the grammar builds pushes the self type first (Impl, `T: Foo` clauses, `<T as Foo>`)",
    ("<(&chalk_parse::ast::TraitDefn, chalk_ir::TraitId<chalk_integration::interner::ChalkIr>) as %s::LowerWithEnv>::lower" % L, "unwrap:of-lookup_associated_ty"):
        "the associated types of this very trait were inserted into associated_ty_lookups by ProgramLowerer::extract_associated_types in the same pass",
    ("<(&chalk_parse::ast::Impl, chalk_ir::ImplId<chalk_integration::interner::ChalkIr>, &std::collections::BTreeMap<", "index:0"):
        "associated_ty_value_ids (the tuple's third component) has one entry per (impl, associated value name), inserted by extract_ids for the same impl",
    (ENV + "auto_trait", "index:auto_traits"): "id was produced by lookup_trait on the same Env",
    (ENV + "trait_kind", "index:trait_kinds"): "id was produced by lookup_trait / lookup_type on the same Env",
    (ENV + "adt_kind", "index:adt_kinds"): "id was produced by lookup_type on the same Env",
    (ENV + "fn_def_kind", "index:fn_def_kinds"): "id was produced by lookup_type on the same Env",
    (ENV + "closure_kind", "index:closure_kinds"): "id was produced by lookup_type on the same Env",
    (ENV + "opaque_kind", "index:opaque_ty_kinds"): "id was produced by lookup_type on the same Env",
    (ENV + "coroutine_kind", "index:coroutine_kinds"): "id was produced by lookup_type on the same Env",
    (L + "::lower_goal", "index:trait_data"): "trait_data contains the trait of every associated type of a lowered program",
    (L + "::lower_goal", "index:result-of-as_slice"): "an associated type's binders extend its trait's binders (built that way by ProgramLowerer)",
    (PL, "index:associated_ty_lookups"): "trait loop: associated_ty_lookups was filled for every (trait, associated type name) by extract_associated_types",
    (PL, "index:associated_ty_value_ids"): "associated_ty_value_ids was filled for every (impl, value name) by extract_ids",
    (PL, "index:coroutine_ids"): "coroutine_ids was filled for every coroutine item by extract_ids",
    ("chalk_parse::parser::__intern_token::new_builder", "unwrap:of-new"): "lalrpop-generated lexer construction from constant regexes (generated code, trusted)",
}

GRAMMAR_PANICS = re.compile(r"\.\s*unwrap\s*\(\s*\)|\.\s*expect\s*\(|panic\s*!|unreachable\s*!|unimplemented\s*!|todo\s*!|\bassert(_eq|_ne)?\s*!")


def audit_lookup(k, site):
    base = k.split("::{")[0]
    for (fn, sk), why in AUDIT.items():
        if sk == site and (base == fn or base.startswith(fn)):
            return why
    return None


def run(ck, facts, tier):
    R = "C24.PANIC-FREE"
    ck.rule(R, "K6: every panic-capable site in the parse + lower region is in the audit table (one entry per site, with the reason its "
               "precondition holds); grammar actions are read from parser.lalrpop and cross-checked against the MIR of the generated actions")
    repo = ck.extract_info.get("repo", "/repo")
    # ---- grammar actions (source side)
    gpath = os.path.join(repo, "chalk-parse/src/parser.lalrpop")
    rules = grammar.parse(gpath)
    g_sites = []
    n_actions = 0
    for nt, alts in rules.items():
        for alt in alts:
            if alt.action:
                n_actions += 1
                for m in GRAMMAR_PANICS.finditer(alt.action):
                    g_sites.append((nt, m.group(0).replace(" ", "")))
    ck.floor(R, "grammar-actions", n_actions, 170)
    for nt, what in g_sites:
        ck.violation(R, "grammar:%s:%s" % (nt, what.strip(".(")), gpath,
                     "the action of `%s` contains `%s`: user input reaching it panics instead of producing a parse error (use `=>?` and "
                     "ParseError::User)" % (nt, what))
    # ---- grammar actions (MIR side) must agree
    n_act_mir = 0
    mir_sites = []
    for k, b in facts.bodies("chalk_parse").items():
        if re.search(r"::__action\d+$", k):
            n_act_mir += 1
            for s in panic_sites(b):
                mir_sites.append((k, s))
    ck.floor(R, "generated-action-functions", n_act_mir, 300)
    if len(mir_sites) != len(g_sites):
        ck.violation(R, "grammar-vs-generated-actions", gpath, "the grammar text shows %d panicking construct(s) in actions, the compiled actions "
                     "contain %d (%s): the tokenizer and the generated parser disagree" % (len(g_sites), len(mir_sites), [s["key"] for k, s in mir_sites][:4]))
    else:
        ck.ok(R, "grammar-vs-generated-actions", "%d action alternatives, %d compiled action functions, %d panic site(s) on both sides" % (n_actions, n_act_mir, len(g_sites)))
    # ---- hand-written chalk-parse + chalk-integration lowering region
    cg = CallGraph(facts, ["chalk_parse", "chalk_integration"])
    entries = [k for k in cg.bodies if k in ("chalk_parse::parse_program", "chalk_parse::parse_goal", L + "::lower_goal", "chalk_integration::query::program_ir")
               or k.endswith("as %s::Lower>::lower" % L)]
    ck.floor(R, "entry-points", len(entries), 5)
    reach = cg.reachable_from(entries)
    n_fn = 0
    n_sites = 0
    seen_audit = set()
    for k in sorted(reach):
        b = cg.bodies.get(k)
        if b is None:
            continue
        fl = b.file or ""
        in_region = fl.startswith("chalk-parse/src") or fl.startswith("chalk-integration/src/lowering") or fl.startswith("chalk-integration/src/error") \
            or (fl.startswith("chalk-integration/src/query") and k.startswith("chalk_integration::query::program_ir")) \
            or (fl.endswith("parser.rs") and "__intern_token" in k)
        if not in_region:
            continue
        n_fn += 1
        for s in panic_sites(b):
            n_sites += 1
            why = audit_lookup(k, s["key"])
            inst = "%s:%s" % (short(k.split("::{")[0])[:110], s["key"])
            if why:
                seen_audit.add(inst)
                ck.ok(R, inst, "audited: " + why)
            else:
                ck.violation(R, inst, b.where(s["ln"]), "panic-capable site on the path from program / goal text to the lowered program with no audit entry: "
                             "a malformed input reaching it crashes instead of returning an error")
    ck.floor(R, "functions-in-region", n_fn, 150)
    ck.floor(R, "audited-sites", len(seen_audit), 15)
    # parse_program / parse_goal map every parser error into Err
    for fn in ("parse_program", "parse_goal"):
        b = need_body(ck, facts, R, "chalk_parse::" + fn)
        if b:
            from kit import has_call
            if has_call(b.thir, "map_err") and not panic_sites(b):
                ck.ok(R, "%s:maps-parser-errors" % fn)
            else:
                ck.violation(R, "%s:maps-parser-errors" % fn, b.where(), "parser errors must be mapped into the returned Err")
