"""C05 - auto traits and coinductive traits follow coinductive semantics.

Not decided: that delayed-subgoal refinement / fixed-point iteration computes the greatest fixed point.
Decided:
  COIND-TABLE   IsCoinductive for Goal: exactly Implemented(auto | #[coinductive] trait), WellFormed(Trait) and ForAll (recursing)
  CONSTITUENTS  constituent_types per TyKind (fields of all variants after substitution; type parameters; pointee; none)
  IMPL-GUARD    auto-trait clauses are generated only when impl_provided_for(..) is false; impl_provided_for compares constructor identity
  INIT          recursive solver: coinductive goals start from Unique(trivial), inductive ones from Err(NoSolution); solve_goal asks
                is_coinductive_goal of the goal it pushes
  NO-STALE      results that relied on a cyclic assumption are discarded: re-iteration rolls back (C09.FIXPOINT), results leave the search
                graph only at SCC heads (C10.CACHE-GUARD); SLG: coinductive cycles are taken only when the whole cycle is coinductive, and
                an answer with delayed subgoals is never reported
  MIXED         a mixed inductive/coinductive cycle yields the error value
"""
from core import enum_matches, select_arms, V, T, ANY, walk, calls, peel, callee_matches, var_name, expr_vars, trace_is_call
from kit import need_body, has_call, short, guard_sites, result_expr, mentions_field, is_lit_bool
from props.c15 import pair_match

TYKIND = "chalk_ir::TyKind"


def coind_table(ck, facts, R, only=None, floor=24):
    """IsCoinductive for Goal as a table over every GoalData / DomainGoal / WhereClause cell (shared with C06, which owns the rows of
    the hypothesis goals: FromEnv must stay inductive, or an assumption about one type proves goals about another through a cycle of
    implied bounds)."""
    ck.rule(R, "K1 vs spec: IsCoinductive for Goal is true exactly for Implemented(tr) with is_auto_trait() || is_coinductive_trait(), "
               "for WellFormed(Trait), and for ForAll (by recursion); every other GoalData / DomainGoal / WhereClause variant is false")
    key = "<chalk_ir::Goal as chalk_solve::coinductive_goal::IsCoinductive>::is_coinductive"
    b = need_body(ck, facts, R, key)
    if b:
        ms = enum_matches(facts.thir(b.key), "chalk_ir::GoalData")
        if len(ms) != 1:
            ck.violation(R, "is_coinductive:match", b.where(), "expected one match on GoalData")
        else:
            m = ms[0]
            n = 0

            def cls(body_):
                e = peel(result_expr(body_))
                if e.get("k") == "lit":
                    return "true" if "true" in e["v"] else "false"
                if e.get("k") == "logic" and e["op"] == "Or" and has_call(e, "is_auto_trait") and has_call(e, "is_coinductive_trait"):
                    return "auto||coinductive"
                if e.get("k") == "call" and callee_matches(e, "IsCoinductive::is_coinductive"):
                    return "recurse"
                if e.get("k") == "match":
                    return "nested"
                return "other"
            cells = []
            for gv in facts.variants("chalk_ir::GoalData"):
                if gv == "DomainGoal":
                    for dv in facts.variants("chalk_ir::DomainGoal"):
                        if dv == "Holds":
                            for wv in facts.variants("chalk_ir::WhereClause"):
                                cells.append(("DomainGoal(Holds(%s))" % wv, V("DomainGoal", **{"0": V("Holds", **{"0": V(wv)})}), wv))
                        elif dv == "WellFormed":
                            for wf in facts.variants("chalk_ir::WellFormed"):
                                cells.append(("DomainGoal(WellFormed(%s))" % wf, V("DomainGoal", **{"0": V("WellFormed", **{"0": V(wf)})}), None))
                        else:
                            cells.append(("DomainGoal(%s)" % dv, V("DomainGoal", **{"0": V(dv)}), None))
                elif gv == "Quantified":
                    for q in facts.variants("chalk_ir::QuantifierKind"):
                        cells.append(("Quantified(%s)" % q, V("Quantified", **{"0": V(q)}), None))
                else:
                    cells.append((gv, V(gv), None))
            want = {"DomainGoal(Holds(Implemented))": "auto||coinductive", "DomainGoal(WellFormed(Trait))": "true", "Quantified(ForAll)": "recurse"}
            for label, val, wv in cells:
                if only is not None and not only(label):
                    continue
                n += 1
                arms = select_arms(m, val)
                arm = m["arms"][arms[0][0]]
                got = cls(arm["body"])
                if got == "nested":
                    im = [x for x in walk(arm["body"]) if x.get("k") == "match"][0]
                    ia = select_arms(im, V(wv))
                    got = cls(im["arms"][ia[0][0]]["body"])
                w = want.get(label, "false")
                if got == w and arms[0][1] == "yes":
                    ck.ok(R, label, got)
                else:
                    ck.violation(R, label, b.where(arm["ln"]), "classified `%s`, coinductive semantics require `%s`" % (got, w))
            ck.floor(R, "cells", n, floor)



def run(ck, facts, tier):
    from shared import fixedpoint as _fpx
    _fpx.loop_exits(ck, facts, "C05.FIXPOINT-EXITS")
    from shared import fixedpoint
    fixedpoint.table(ck, facts, "C05.FIXED-POINT-TABLE", which=("stale",))
    coind_table(ck, facts, "C05.COIND-TABLE")
    from props.c10 import refinement_guard
    refinement_guard(ck, facts, "C05.REFINE-GUARD")

    # ------------------------------------------------------------------ CONSTITUENTS
    R = "C05.CONSTITUENTS"
    ck.rule(R, "K1 vs spec: constituent_types: non-phantom ADT -> all fields of all variants after substitution; phantom ADT / tuple / FnDef -> "
               "type parameters; Array / Slice / Raw / Ref -> the pointee; Str / Never / Scalar / Error -> none; the kinds that never reach it "
               "are routed elsewhere by push_auto_trait_impls")
    ct = need_body(ck, facts, R, "chalk_solve::clauses::constituent_types")
    pa = need_body(ck, facts, R, "chalk_solve::clauses::push_auto_trait_impls")
    if ct and pa:
        th = facts.thir("chalk_solve::clauses::constituent_types")
        # the table is the outermost match on TyKind (a nested `matches!` on a field's kind is not it)
        ms = enum_matches(th, TYKIND)[:1]
        pm = enum_matches(facts.thir(pa.key), TYKIND)[:1]
        # nothing may be dropped from the constituents: element-dropping adaptors in constituent_types are an audited inventory
        from kit import adaptor_inventory
        adaptor_inventory(ck, R, facts, "chalk_solve", lambda k: k == "chalk_solve::clauses::constituent_types",
                          {("chalk_solve::clauses::constituent_types", "filter_map"): (1, "picks the *type* parameters of a substitution (lifetimes and consts have no auto-trait obligations)")},
                          "a constituent type left out is never required to implement the auto trait", floor=1)
        if len(ms) != 1 or len(pm) != 1:
            ck.violation(R, "matches", ct.where(), "expected one TyKind match in constituent_types and in push_auto_trait_impls")
        else:
            m, p = ms[0], pm[0]

            def ccls(arm):
                body_ = arm["body"]
                if any(c.get("x") and "panic!" in c["x"] for c in walk(body_, skip_tracing=False) if c.get("k") == "call"):
                    return "panic"
                if has_call(body_, "flat_map") and mentions_field(body_, "variants") and mentions_field(body_, "fields") and has_call(body_, "substitute"):
                    return "all-fields"
                if has_call(body_, "filter_map") and has_call(body_, "GenericArg::ty"):
                    return "type-params"
                if has_call(body_, "Vec::new") and not [c for c in calls(body_) if not (c.get("fn") or "").endswith("Vec::new")]:
                    return "none"
                if has_call(body_, "coroutine_datum"):
                    return "coroutine"
                vs = [x for x in walk(body_) if x.get("k") == "call" and (c_is_vec_macro(x))]
                if "ty" in expr_vars(body_) and not has_call(body_, "iter"):
                    return "pointee"
                return "other"
            spec = {"Tuple": "type-params", "FnDef": "type-params", "Array": "pointee", "Slice": "pointee", "Raw": "pointee", "Ref": "pointee",
                    "Str": "none", "Never": "none", "Scalar": "none", "Error": "none", "Coroutine": "coroutine"}
            n = 0
            for k in facts.variants(TYKIND):
                arms = select_arms(m, V(k))
                if k == "Adt":
                    # guarded arm (non phantom) then the type-parameter arm
                    ok = len(arms) == 2 and arms[0][1] == "maybe" and ccls(m["arms"][arms[0][0]]) == "all-fields" and \
                        has_call(m["arms"][arms[0][0]]["guard"], "adt_datum") and mentions_field(m["arms"][arms[0][0]]["guard"], "phantom_data") and \
                        peel(m["arms"][arms[0][0]]["guard"]).get("k") == "un" and ccls(m["arms"][arms[1][0]]) == "type-params"
                    n += 1
                    if ok:
                        ck.ok(R, "Adt", "!phantom_data -> all fields; phantom -> type parameters")
                    else:
                        ck.violation(R, "Adt", ct.where(m["arms"][arms[0][0]]["ln"]), "ADT constituents must be all (substituted) fields unless the ADT is phantom data")
                    continue
                arm = m["arms"][arms[0][0]]
                got = ccls(arm)
                n += 1
                if k in spec:
                    if got == spec[k]:
                        ck.ok(R, k, got)
                    else:
                        ck.violation(R, k, ct.where(arm["ln"]), "constituents are `%s`, the rule requires `%s`" % (got, spec[k]))
                else:
                    # must be unreachable from push_auto_trait_impls: that function's arm for k must not call constituent_types
                    parm = p["arms"][select_arms(p, V(k))[0][0]]
                    calls_ct = has_call(parm["body"], "constituent_types")
                    if got == "panic" and not calls_ct:
                        ck.ok(R, k, "never reaches constituent_types (routed by push_auto_trait_impls)")
                    else:
                        ck.violation(R, k, pa.where(parm["ln"]), "TyKind::%s can reach constituent_types (class %s) although it has no structural constituents" % (k, got))
            ck.floor(R, "kinds", n, 23)

    # ------------------------------------------------------------------ IMPL-GUARD
    R = "C05.IMPL-GUARD"
    ck.rule(R, "K3: in push_auto_trait_impls every clause is pushed only on the false edge of db.impl_provided_for(auto_trait, ty); "
               "Program::impl_provided_for compares type-constructor identity: true only for (K,K) with equal ids, false for different kinds")
    if pa:
        cfg = pa.cfg
        sites = cfg.call_blocks(("ClauseBuilder::push_clause", "ClauseBuilder::push_fact", "needs_impl_for_tys", "push_auto_trait_impls_opaque",
                                 "push_auto_trait_impls_coroutine_witness"))
        n = guard_sites(ck, R, pa, sites, cfg.bool_edges(trace_is_call("impl_provided_for"), False), "push clause", "!impl_provided_for(..)")
        ck.floor(R, "push-sites", n, 5)
    ip = need_body(ck, facts, R, "<chalk_integration::program::Program as chalk_solve::RustIrDatabase>::impl_provided_for")
    if ip:
        th = facts.thir("<chalk_integration::program::Program as chalk_solve::RustIrDatabase>::impl_provided_for")
        ms = pair_match(th, TYKIND)
        if len(ms) != 1:
            ck.violation(R, "impl_provided_for:match", ip.where(), "expected one (TyKind, TyKind) match")
        else:
            bad = 0
            vs = facts.variants(TYKIND)
            for a in vs:
                for bq in vs:
                    if a == bq:
                        continue
                    arms = select_arms(ms[0], T(V(a), V(bq)))
                    if not is_lit_bool(ms[0]["arms"][arms[0][0]]["body"], False):
                        bad += 1
                        ck.violation(R, "impl_provided_for:(%s,%s)" % (a, bq), ip.where(ms[0]["arms"][arms[0][0]]["ln"]),
                                     "an impl for a different type constructor must not suppress the auto impl")
            if not bad:
                ck.ok(R, "impl_provided_for:cross-kind-false", "%d pairs" % (len(vs) * (len(vs) - 1)))
            filt = any(n_.get("k") == "if" and has_call(n_["cond"], "trait_id") and "auto_trait_id" in expr_vars(n_["cond"]) for n_ in walk(th))
            if filt and has_call(th, "Iterator::any"):
                ck.ok(R, "impl_provided_for:same-trait-only")
            else:
                ck.violation(R, "impl_provided_for:same-trait-only", ip.where(), "only impls of the auto trait in question may suppress the auto impl")

    # ------------------------------------------------------------------ INIT / MIXED / NO-STALE
    R = "C05.INIT"
    ck.rule(R, "K1: SolverStuff::initial_value: coinductive -> Ok(Unique(trivial substitution, no constraints)); otherwise Err(NoSolution); "
               "solve_goal computes is_coinductive_goal(goal) for the goal it inserts and passes it to both initial_value and stack.push")
    iv = need_body(ck, facts, R, "<&dyn chalk_solve::RustIrDatabase<I> as chalk_recursive::fixed_point::SolverStuff>::initial_value")
    if iv:
        ifs = [n for n in walk(iv.thir) if n.get("k") == "if" and var_name(n["cond"]) == "coinductive_goal"]
        ok = False
        if len(ifs) == 1:
            t, e = ifs[0]["then"], ifs[0].get("else")
            ok = any(n.get("k") == "adt" and n.get("v") == "Unique" for n in walk(t)) and has_call(t, "trivial_substitution") and \
                has_call(t, "Constraints::empty") and e is not None and any(n.get("k") == "adt" and n.get("v") == "Err" for n in walk(e)) and \
                not any(n.get("k") == "adt" and n.get("v") == "Unique" for n in walk(e))
        if ok:
            ck.ok(R, "initial_value", "coinductive -> Unique(trivial); inductive -> Err")
        else:
            ck.violation(R, "initial_value", iv.where(), "coinductive goals must start from the trivial Unique solution and inductive ones from NoSolution")
    sg = need_body(ck, facts, R, "chalk_recursive::fixed_point::RecursiveContext::solve_goal")
    if sg:
        th = sg.thir
        let_c = [st for st in walk(th) if st.get("k") == "let" and has_call(st.get("init") or {}, "is_coinductive_goal")]
        ok = False
        if len(let_c) == 1:
            nm = let_c[0]["pat"].get("n")
            c = [x for x in calls(let_c[0]["init"], "is_coinductive_goal")][0]
            uses_goal = var_name(c["args"][1]) == "goal"
            ok = uses_goal and any(var_name(x["args"][-1]) == nm for x in calls(th, "initial_value")) and \
                any(var_name(x["args"][-1]) == nm for x in calls(th, "Stack::push")) and \
                any(var_name(x["args"][1]) == "goal" for x in calls(th, "SearchGraph::insert"))
        if ok:
            ck.ok(R, "solve_goal:coinductive-flag-of-the-pushed-goal")
        else:
            ck.violation(R, "solve_goal:coinductive-flag-of-the-pushed-goal", sg.where(), "the coinductive flag must be computed for the goal being inserted and used for both its initial value and its stack entry")

    R = "C05.MIXED"
    ck.rule(R, "K3: in solve_goal the error value is returned exactly on the true edge of mixed_inductive_coinductive_cycle_from(depth); "
               "that function is `any coinductive && any inductive` over the stack suffix")
    if sg:
        cfg = sg.cfg
        sites = cfg.call_blocks("error_value")
        n = guard_sites(ck, R, sg, sites, cfg.bool_edges(trace_is_call("mixed_inductive_coinductive_cycle_from"), True), "error_value()", "mixed cycle")
        ck.floor(R, "error_value-sites", n, 1)
    mx = need_body(ck, facts, R, "chalk_recursive::fixed_point::stack::Stack::mixed_inductive_coinductive_cycle_from")
    if mx:
        e = peel(result_expr(mx.thir))
        if e.get("k") == "logic" and e["op"] == "And" and {var_name(e["l"]), var_name(e["r"])} == {"any_coinductive", "any_inductive"}:
            ck.ok(R, "mixed_inductive_coinductive_cycle_from", "any_coinductive && any_inductive")
        else:
            ck.violation(R, "mixed_inductive_coinductive_cycle_from", mx.where(), "must be `any_coinductive && any_inductive`")

    from props.c10 import scc_links
    scc_links(ck, facts, "C05.NO-STALE-LINKS")

    R = "C05.NO-STALE"
    ck.rule(R, "K3: SLG: on_coinductive_subgoal is reached only under top_of_stack_is_coinductive_from(cyclic_depth) (every table of the cycle is "
               "coinductive); root_answer reports InvalidAnswer while delayed_subgoals is non-empty; pursue_answer drops a delayed subgoal "
               "only when it is the table's own goal. Recursive: see C09.FIXPOINT (rollback) and C10.CACHE-GUARD (SCC heads)")
    os = need_body(ck, facts, R, "chalk_engine::logic::SolveState::on_subgoal_selected")
    if os:
        cfg = os.cfg
        n = guard_sites(ck, R, os, cfg.call_blocks("on_coinductive_subgoal"), cfg.bool_edges(trace_is_call("top_of_stack_is_coinductive_from"), True),
                        "on_coinductive_subgoal", "top_of_stack_is_coinductive_from(cyclic_depth)")
        ck.floor(R, "coinductive-sites", n, 1)
    tc = need_body(ck, facts, R, "chalk_engine::logic::SolveState::top_of_stack_is_coinductive_from")
    if tc:
        th = facts.thir("chalk_engine::logic::SolveState::top_of_stack_is_coinductive_from")
        if has_call(th, "Iterator::all") and not has_call(th, "Iterator::any") and mentions_field(th, "coinductive_goal"):
            ck.ok(R, "top_of_stack_is_coinductive_from", "all tables from depth are coinductive")
        else:
            ck.violation(R, "top_of_stack_is_coinductive_from", tc.where(), "must require *all* tables of the cycle to be coinductive")
    ra = need_body(ck, facts, R, "chalk_engine::forest::Forest::root_answer")
    if ra:
        cfg = ra.cfg
        inv = [b for b, j, st in cfg.agg_sites("chalk_engine::logic::RootSearchFail", "InvalidAnswer")]
        okc = [b for b, j, st in cfg.agg_sites("chalk_engine::CompleteAnswer", None)]
        e_t = cfg.bool_edges(trace_is_call("Vec::is_empty"), True)
        e_f = cfg.bool_edges(trace_is_call("Vec::is_empty"), False)
        n1 = guard_sites(ck, R, ra, okc, e_t, "CompleteAnswer", "delayed_subgoals.is_empty()")
        n2 = guard_sites(ck, R, ra, inv, e_f, "InvalidAnswer", "!delayed_subgoals.is_empty()")
        ck.floor(R, "root_answer.sites", min(n1, n2), 1)
        if mentions_field(ra.thir, "delayed_subgoals"):
            ck.ok(R, "root_answer:tests-delayed_subgoals")
        else:
            ck.violation(R, "root_answer:tests-delayed_subgoals", ra.where(), "the emptiness test must be on the answer's delayed_subgoals")


def c_is_vec_macro(x):
    return False
