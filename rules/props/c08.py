"""C08 - built-in traits follow the language's structural rules.

The property is a table, so the clause-generation half is decided outright: for Sized / Copy / Clone / Tuple / FnPtr the
extracted `TyKind -> outcome class` table is compared with a spec table written from the Rust reference and the
property statement.  Exhaustive over all TyKind variants x inference/bound variable kinds."""
from core import enum_matches, select_arms, V, ANY, walk, calls, peel, callee_matches, var_name
from kit import need_body, has_call, short, result_expr, thir_all, mentions_field

BT = "chalk_solve::clauses::builtin_traits::"
TYKIND = "chalk_ir::TyKind"

FACT, NONE, FLOUNDER = "fact", "none", "flounder"

# --- spec tables (Rust reference: special types and traits; property statement C08) -------------------
SIZED_SPEC = {
    "Adt": "cond:push_adt_sized_conditions",      # struct: last field; non-struct ADTs / no fields: unconditional
    "Tuple": "cond:push_tuple_sized_conditions",  # () fact, else last element
    "Array": FACT, "Never": FACT, "Closure": FACT, "FnDef": FACT, "Scalar": FACT, "Raw": FACT,
    "Coroutine": FACT, "CoroutineWitness": FACT, "Ref": FACT, "Function": FACT,
    "Slice": NONE, "Str": NONE, "Dyn": NONE, "Foreign": NONE,                  # never Sized
    "AssociatedType": NONE, "OpaqueType": NONE, "Error": NONE, "Placeholder": NONE, "Alias": NONE,  # only via program clauses
    "InferenceVar:General": FLOUNDER, "InferenceVar:Integer": FACT, "InferenceVar:Float": FACT,
    "BoundVar": "nested",
}
COPY_SPEC = {
    "Tuple": "cond:push_tuple_copy_conditions",   # () fact, else all elements
    "Array": "cond:needs_impl_for_tys",           # the element type
    "Closure": "cond:needs_impl_for_tys",         # upvars
    "FnDef": FACT, "Function": FACT,
    # scalars, refs, raw pointers, never: only through the program's explicit impls (libstd.chalk)
    "Ref": NONE, "Raw": NONE, "Scalar": NONE, "Never": NONE, "Str": NONE,
    "Adt": NONE, "AssociatedType": NONE, "Slice": NONE, "OpaqueType": NONE, "Foreign": NONE,
    "Coroutine": NONE, "CoroutineWitness": NONE, "Error": NONE, "Alias": NONE, "Dyn": NONE, "Placeholder": NONE,
    "InferenceVar:General": FLOUNDER, "InferenceVar:Integer": FACT, "InferenceVar:Float": FACT,
    "BoundVar": "nested",
}
BOUND_SPEC = {"Ty:Integer": FACT, "Ty:Float": FACT, "Ty:General": FLOUNDER, "Const": NONE, "Lifetime": NONE}
TUPLE_SPEC_FLOUNDER = {"InferenceVar", "BoundVar", "Alias"}


def is_flounder(node):
    for n in walk(node):
        if n.get("k") == "adt" and n.get("v") == "Err" and n["adt"].endswith("Result"):
            if any(m.get("k") == "adt" and m.get("adt") == "chalk_ir::Floundered" for m in walk(n)):
                return True
    return False


IGNORED_CALLEES = ("interner", "CanonicalVarKinds::at", "Clone::clone", "clone")


def classify(body):
    if any(n.get("k") == "match" and n.get("src", "").startswith("Normal") for n in walk(body)):
        return "nested"
    if is_flounder(body):
        return FLOUNDER
    cs = []
    for c in calls(body):
        nm = (c.get("fn") or "")
        if any(nm.endswith(i) for i in IGNORED_CALLEES):
            continue
        cs.append(nm)
    if not cs:
        has_ctor = any(n.get("k") == "adt" for n in walk(body))
        return NONE if not has_ctor else "other"
    names = {c.split("::")[-1] for c in cs}
    if names == {"push_fact"}:
        return FACT
    for h in ("push_adt_sized_conditions", "push_tuple_sized_conditions", "push_tuple_copy_conditions"):
        if h in names:
            return "cond:" + h
    if "needs_impl_for_tys" in names:
        return "cond:needs_impl_for_tys"
    return "other:" + ",".join(sorted(names))


def tykind_values(facts):
    out = []
    for v in facts.variants(TYKIND) or []:
        if v == "InferenceVar":
            for k in ("General", "Integer", "Float"):
                out.append(("InferenceVar:" + k, V("InferenceVar", **{"1": V(k)})))
        else:
            out.append((v, V(v)))
    return out


def check_table(ck, facts, R, body, spec, what):
    ms = enum_matches(facts.thir(body.key), TYKIND)
    if len(ms) != 1:
        ck.violation(R, "%s:match" % what, body.where(), "expected exactly one match on TyKind, found %d" % len(ms))
        return 0
    m = ms[0]
    n = 0
    for label, val in tykind_values(facts):
        n += 1
        arms = select_arms(m, val)
        inst = "%s:TyKind::%s" % (what, label)
        if len(arms) != 1 or arms[0][1] != "yes":
            ck.violation(R, inst, body.where(), "no unique unconditional arm (arms=%s)" % arms)
            continue
        arm = m["arms"][arms[0][0]]
        got = classify(arm["body"])
        want = spec.get(label)
        if want is None:
            ck.violation(R, inst, body.where(arm["ln"]), "TyKind variant not in the spec table; extend the spec deliberately")
        elif got != want:
            ck.violation(R, inst, body.where(arm["ln"]), "outcome class is `%s`, the language rule requires `%s`" % (got, want))
        else:
            ck.ok(R, inst, got)
            if got == "nested":
                inner = [x for x in walk(arm["body"]) if x.get("k") == "match" and x.get("src", "").startswith("Normal")]
                im = inner[0]
                for bl, bv in (("Ty:Integer", V("Ty", **{"0": V("Integer")})), ("Ty:Float", V("Ty", **{"0": V("Float")})),
                               ("Ty:General", V("Ty", **{"0": V("General")})), ("Const", V("Const")), ("Lifetime", V("Lifetime"))):
                    n += 1
                    ia = select_arms(im, bv)
                    inst2 = "%s:BoundVar(%s)" % (what, bl)
                    if len(ia) != 1 or ia[0][1] != "yes":
                        ck.violation(R, inst2, body.where(), "no unique arm")
                        continue
                    g2 = classify(im["arms"][ia[0][0]]["body"])
                    if g2 != BOUND_SPEC[bl]:
                        ck.violation(R, inst2, body.where(im["arms"][ia[0][0]]["ln"]),
                                     "outcome class is `%s`, expected `%s`" % (g2, BOUND_SPEC[bl]))
                    else:
                        ck.ok(R, inst2, g2)
    return n


def kind_match_decides(ck, R, body, what, allowed_first=()):
    """K3 (on THIR): the outcome for a type is decided by the TyKind table alone: every `return` / `?` of the function sits inside an
    arm of the match on TyKind (no early exit in front of the table that would switch the structural rule off - e.g. because the
    program has *some* explicit impl for the same type constructor, or a flag of the trait)."""
    bth = body.facts.thir(body.key)
    ms = enum_matches(bth, TYKIND)
    inst = "%s:table-decides" % what
    if len(ms) != 1:
        ck.violation(R, inst + ":missing-anchor", body.where(), "expected exactly one match on TyKind")
        return
    inside = set()
    for arm in ms[0]["arms"]:
        for n in walk(arm["body"], skip_tracing=False):
            inside.add(id(n))
    from kit import user_block
    stray = [n for n in walk(user_block(bth)) if n.get("k") == "return" and id(n) not in inside]
    if stray:
        ck.violation(R, inst, body.where(stray[0].get("ln")), "the function can return before / outside the TyKind table: the built-in "
                     "rule can be bypassed for every type at once")
    else:
        ck.ok(R, inst, "no return outside the arms of the TyKind match")


def fields_in_declaration_order(ck, facts, R):
    ck.rule(R, "K4/K7 (order-preserving construction): the Sized rule for a struct and the struct's well-formedness rule single out its "
               "LAST field (last_field_of_struct), so AdtVariantDatum.fields must list the fields in declaration order: wherever the "
               "lowering constructs an AdtVariantDatum, the `fields` value comes straight from an order-preserving traversal of the "
               "declared fields - no map / set keyed by name, no sort, rev, reverse or dedup on the way")
    from kit import thir_all, let_inits, resolve_var
    REORDER = ("BTreeMap", "HashMap", "BTreeSet", "HashSet", "FxHashMap", "FxHashSet", "IndexMap", "BinaryHeap")
    REORDER_FNS = ("sort", "sort_by", "sort_by_key", "sort_unstable", "sort_unstable_by", "sort_unstable_by_key", "rev", "reverse",
                   "dedup", "swap", "rotate_left", "rotate_right", "into_values", "values", "into_keys")
    n = 0
    for key, b in sorted(facts.bodies("chalk_integration").items()):
        if b.thir is None:
            continue
        for root in [b.thir]:
            inits = let_inits(root)
            for x in walk(root):
                if x.get("k") == "adt" and x.get("adt") == "chalk_solve::rust_ir::AdtVariantDatum":
                    n += 1
                    f = dict(x.get("fields") or [])
                    src = f.get("fields")
                    seen_ = []
                    todo, done = [src], 0
                    while todo and done < 12:
                        e_ = todo.pop()
                        done += 1
                        for y in walk(e_) if e_ is not None else []:
                            if y.get("k") == "call":
                                fn = str(y.get("res") or y.get("fn") or "")
                                last = fn.split("::")[-1]
                                if any(r_ in fn for r_ in REORDER) or last in REORDER_FNS:
                                    seen_.append(fn)
                            if y.get("k") == "var" and y.get("n") in inits and inits[y["n"]] is not None:
                                todo.append(inits.pop(y["n"]))
                    inst = "%s:AdtVariantDatum.fields" % short(key.split("::{")[0])
                    if seen_:
                        ck.violation(R, inst, b.where(x.get("ln")), "the field list passes through `%s`: declaration order is lost and with it "
                                     "which field is the (possibly unsized) tail" % seen_[0])
                    else:
                        ck.ok(R, inst, "order-preserving")
    ck.floor(R, "AdtVariantDatum-constructions", n, 1)


def run(ck, facts, tier):
    from props.c10 import solver_per_revision
    solver_per_revision(ck, facts, "C08.SOLVER-PER-REVISION")
    fields_in_declaration_order(ck, facts, "C08.FIELDS-IN-DECLARATION-ORDER")
    R = "C08.SIZED-TABLE"
    ck.rule(R, "K1 vs spec: add_sized_program_clauses maps every TyKind to the outcome class the language rules dictate")
    sz = need_body(ck, facts, R, BT + "sized::add_sized_program_clauses")
    if sz:
        n = check_table(ck, facts, R, sz, SIZED_SPEC, "sized")
        ck.floor(R, "cells", n, 30)
        kind_match_decides(ck, R, sz, "sized")
    R = "C08.COPY-TABLE"
    ck.rule(R, "K1 vs spec: add_copy_program_clauses maps every TyKind to the outcome class the language rules dictate")
    cp = need_body(ck, facts, R, BT + "copy::add_copy_program_clauses")
    if cp:
        n = check_table(ck, facts, R, cp, COPY_SPEC, "copy")
        ck.floor(R, "cells", n, 30)
        kind_match_decides(ck, R, cp, "copy")
        # Array arm: the condition is on the element type bound by the pattern; Closure arm: on the upvars
        m = enum_matches(facts.thir(cp.key), TYKIND)
        if m:
            arm = m[0]["arms"][select_arms(m[0], V("Array"))[0][0]]
            binds = [sp for idx, name, sp in arm["pat"].get("sub", []) if idx == 0]
            elem = binds[0].get("n") if binds and binds[0].get("k") == "bind" else None
            once = [c for c in calls(arm["body"], "once")]
            ok = bool(elem) and any(var_name(c["args"][0]) == elem for c in once)
            if ok:
                ck.ok(R, "copy:Array:element", "needs_impl_for_tys(once(element))")
            else:
                ck.violation(R, "copy:Array:element", cp.where(arm["ln"]), "array Copy must be conditional on exactly its element type")
            arm = m[0]["arms"][select_arms(m[0], V("Closure"))[0][0]]
            if has_call(arm["body"], "closure_upvars"):
                ck.ok(R, "copy:Closure:upvars")
            else:
                ck.violation(R, "copy:Closure:upvars", cp.where(arm["ln"]), "closure Copy must be conditional on its upvars")

    R = "C08.HELPERS"
    ck.rule(R, "K1/K2: the condition helpers pick the components the rules name: last struct field, last / all tuple elements; "
               "the empty tuple is an unconditional fact; needs_impl_for_tys turns every given type into a condition")
    b = need_body(ck, facts, R, BT + "sized::push_adt_sized_conditions")
    if b:
        if has_call(b.thir, BT + "last_field_of_struct") and has_call(b.thir, BT + "needs_impl_for_tys"):
            ck.ok(R, "push_adt_sized_conditions:last-field")
        else:
            ck.violation(R, "push_adt_sized_conditions:last-field", b.where(), "ADT Sized must be conditional on last_field_of_struct")
    b = need_body(ck, facts, R, BT + "last_field_of_struct")
    if b:
        ths = thir_all(facts, b)
        lasts = sum(1 for t in ths for c in calls(t, "last"))
        firsts = sum(1 for t in ths for c in calls(t, ("first", "Iterator::next", "nth")))
        cfg = b.cfg
        # `kind != Struct` => return None before anything else
        kind_guard = any(n.get("k") == "if" and mentions_field(n["cond"], "kind")
                         and any(a.get("k") == "adt" and a.get("v") == "Struct" for a in walk(n["cond"]))
                         for n in walk(b.thir))
        if lasts >= 2 and firsts == 0 and kind_guard and has_call(b.thir, "substitute"):
            ck.ok(R, "last_field_of_struct:last-variant-last-field", "variants.last()?.fields.last(), kind == Struct, substituted")
        else:
            ck.violation(R, "last_field_of_struct:last-variant-last-field", b.where(),
                         "must return the substituted last field of the last variant of a struct only "
                         "(last-calls=%d first-like-calls=%d kind-guard=%s)" % (lasts, firsts, kind_guard))
    for key, sel in ((BT + "sized::push_tuple_sized_conditions", "last"), (BT + "copy::push_tuple_copy_conditions", "all")):
        b = need_body(ck, facts, R, key)
        if not b:
            continue
        name = key.split("::")[-1]
        # arity == 0 => push_fact and return
        zero = False
        for n in walk(b.thir):
            if n.get("k") == "if" and any(x.get("k") == "bin" and x["op"] == "Eq" and var_name(x["l"]) == "arity" for x in walk(n["cond"])):
                if has_call(n["then"], "push_fact") and any(x.get("k") == "return" for x in walk(n["then"])):
                    zero = True
        ths = thir_all(facts, b)
        lasts = sum(1 for t in ths for c in calls(t, "Iterator::last"))
        narrowing = sum(1 for t in ths for c in calls(t, ("Iterator::take", "Iterator::skip", "Iterator::next", "Iterator::nth",
                                                          "Iterator::filter", "Iterator::step_by", "first")))
        good = zero and has_call(b.thir, BT + "needs_impl_for_tys") and (
            (sel == "last" and lasts == 1 and narrowing == 0) or (sel == "all" and lasts == 0 and narrowing == 0))
        if good:
            ck.ok(R, "%s:%s-elements" % (name, sel), "arity==0 -> fact; else %s element(s)" % sel)
        else:
            ck.violation(R, "%s:%s-elements" % (name, sel), b.where(),
                         "tuple rule: () is a fact, otherwise conditional on %s element(s) (zero-case=%s last-calls=%d narrowing=%d)"
                         % (sel, zero, lasts, narrowing))
    b = need_body(ck, facts, R, BT + "needs_impl_for_tys")
    if b:
        ths = thir_all(facts, b)
        narrowing = sum(1 for t in ths for c in calls(t, ("Iterator::take", "Iterator::skip", "Iterator::filter", "Iterator::last",
                                                          "Iterator::next", "Iterator::step_by")))
        maps = sum(1 for t in ths for c in calls(t, "Iterator::map"))
        if has_call(b.thir, "push_clause") and maps >= 1 and narrowing == 0:
            ck.ok(R, "needs_impl_for_tys:all-types-become-conditions")
        else:
            ck.violation(R, "needs_impl_for_tys:all-types-become-conditions", b.where(),
                         "every given type must become one `Implemented(ty: Trait)` condition of the pushed clause")

    R = "C08.CLONE-DELEGATES"
    ck.rule(R, "K1: add_clone_program_clauses is exactly add_copy_program_clauses on the same arguments")
    cl = need_body(ck, facts, R, BT + "clone::add_clone_program_clauses")
    if cl:
        e = result_expr(cl.thir)
        ok = e.get("k") == "call" and callee_matches(e, BT + "copy::add_copy_program_clauses") and \
            [var_name(a) for a in e["args"]] == ["db", "builder", "trait_ref", "ty", "binders"]
        if ok:
            ck.ok(R, "clone->copy")
        else:
            ck.violation(R, "clone->copy", cl.where(), "Clone's built-in rules must be the Copy rules applied to the same type")

    R = "C08.TUPLE-TABLE"
    ck.rule(R, "K1 vs spec: the Tuple trait holds for TyKind::Tuple only; flounders on variables/aliases; nothing else")
    tp = need_body(ck, facts, R, BT + "tuple::add_tuple_program_clauses")
    if tp:
        kind_match_decides(ck, R, tp, "tuple")
        ms = enum_matches(facts.thir(tp.key), TYKIND)
        if len(ms) != 1:
            ck.violation(R, "tuple:match", tp.where(), "expected one match on TyKind")
        else:
            n = 0
            for v in facts.variants(TYKIND):
                n += 1
                arms = select_arms(ms[0], V(v))
                arm = ms[0]["arms"][arms[0][0]]
                fl = is_flounder(arm["body"])
                fact = has_call(arm["body"], "push_fact")
                want = "fact" if v == "Tuple" else ("flounder" if v in TUPLE_SPEC_FLOUNDER else "none")
                got = "fact" if fact else ("flounder" if fl else "none")
                if got == want and arms[0][1] == "yes":
                    ck.ok(R, "tuple:TyKind::%s" % v, got)
                else:
                    ck.violation(R, "tuple:TyKind::%s" % v, tp.where(arm["ln"]), "outcome `%s`, expected `%s`" % (got, want))
            ck.floor(R, "cells", n, 23)

    R = "C08.DISPATCH"
    ck.rule(R, "K1: add_builtin_program_clauses flounders on a general variable self type first and routes each well-known trait to "
               "its rule function; FnPtr holds exactly for TyKind::Function")
    ab = need_body(ck, facts, R, BT + "add_builtin_program_clauses")
    if ab:
        clos = facts.closures_of(ab)
        ms = []
        for t in [ab.thir] + [c.thir for c in clos]:
            ms += enum_matches(t, "chalk_solve::rust_ir::WellKnownTrait")
        if len(ms) != 1:
            ck.violation(R, "dispatch:match", ab.where(), "expected one match on WellKnownTrait")
        else:
            m = ms[0]
            route = {"Sized": "add_sized_program_clauses", "Copy": "add_copy_program_clauses", "Clone": "add_clone_program_clauses",
                     "Tuple": "add_tuple_program_clauses"}
            nobuiltin = {"Unpin", "Drop", "CoerceUnsized", "DispatchFromDyn", "Future"}
            # "a general variable self type flounders before any rule is consulted" - on MIR paths of whichever body holds the test
            # (a leading guarded arm `_ if self_ty.is_general_var(..)`, or an early return in front of the match): every rule
            # function is reached only behind the false edge of is_general_var, and its true edge only leads to Err(Floundered)
            from kit import calls_grouped_edges
            RULE_FNS = ("add_sized_program_clauses", "add_copy_program_clauses", "add_clone_program_clauses", "add_tuple_program_clauses",
                        "add_fn_trait_program_clauses", "add_unsize_program_clauses", "add_discriminant_clauses", "add_coroutine_program_clauses",
                        "add_pointee_program_clauses")
            guard_ok = False
            for gb in [ab] + clos:
                cfg_ = gb.cfg
                f_edges = [e for es in calls_grouped_edges(cfg_, "is_general_var", False).values() for e in es]
                t_edges = [e for es in calls_grouped_edges(cfg_, "is_general_var", True).values() for e in es]
                if not f_edges or not t_edges:
                    continue
                rule_blocks = cfg_.call_blocks(RULE_FNS)
                flo = {blk for blk, j, st in cfg_.agg_sites("chalk_ir::Floundered", None)} | {blk for blk, j, st in cfg_.agg_sites("core::result::Result", "Err")}
                behind = bool(rule_blocks) and all(cfg_.must_pass_edges(rb_, f_edges) for rb_ in rule_blocks)
                away = all(not (set(rule_blocks) & cfg_.reachable(e[1], (), False)) for e in t_edges)
                guard_ok = behind and away
            for v in facts.variants("chalk_solve::rust_ir::WellKnownTrait"):
                arms = select_arms(m, V(v))
                inst = "dispatch:WellKnownTrait::%s" % v
                if not guard_ok:
                    ck.violation(R, inst + ":general-var-flounders-first", ab.where(), "the general-variable flounder test must come before every rule")
                    continue
                # skip a leading guarded flounder arm, if the test is written that way
                if arms and m["arms"][arms[0][0]].get("guard") is not None and has_call(m["arms"][arms[0][0]]["guard"], "is_general_var"):
                    arms = arms[1:]
                if len(arms) < 1:
                    ck.violation(R, inst, ab.where(), "no arm")
                    continue
                arms = [arms[0], arms[0]]
                body_ = m["arms"][arms[1][0]]["body"]
                if v in route:
                    if has_call(body_, route[v]):
                        ck.ok(R, inst, route[v])
                    else:
                        ck.violation(R, inst, ab.where(m["arms"][arms[1][0]]["ln"]), "must call %s" % route[v])
                elif v == "FnPtr":
                    ifs = [n for n in walk(body_) if n.get("k") == "if" and n["cond"].get("k") == "letexpr"]
                    ok = len(ifs) == 1 and ifs[0]["cond"]["pat"].get("v") == "Function" and has_call(ifs[0]["then"], "push_fact") \
                        and ifs[0].get("else") is None
                    if ok:
                        ck.ok(R, inst, "fact iff TyKind::Function")
                    else:
                        ck.violation(R, inst, ab.where(m["arms"][arms[1][0]]["ln"]), "FnPtr must be a fact exactly for TyKind::Function")
                elif v in nobuiltin:
                    if classify(body_) == NONE:
                        ck.ok(R, inst, "no built-in clauses")
                    else:
                        ck.violation(R, inst, ab.where(m["arms"][arms[1][0]]["ln"]), "this trait has no built-in impls")
                else:
                    ck.ok(R, inst, "routed (outside C08's five traits)")
