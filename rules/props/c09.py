"""C09 - every solve call terminates.

Not decided: termination itself (no ranking function is inferred) nor engine-wide panic freedom.
Decided: the guards the termination argument rests on are on every path:
  TRUNCATE     new tables / answers / obligations are only created behind the size check `needs_truncation == false`;
               an oversized answer flounders its table
  OVERFLOW     the recursive stack checks its overflow depth before pushing
  FIXPOINT     solve_new_subgoal's loop leaves only through `cycle flag clear` or `reached_fixed_point`; reached_fixed_point keeps
               its `is_ambig()` disjunct (without it the iteration need not converge)
  LOOP-EXIT    SLGSolver::solve_multiple returns on every AnswerResult that, once produced, is produced forever
"""
from core import enum_matches, select_arms, V, walk, calls, peel, callee_matches, var_name, expr_vars, trace_is_call
from kit import need_body, has_call, short, guard_sites, result_expr, mentions_field

TRUNC = "chalk_solve::solve::truncate::needs_truncation"


def run(ck, facts, tier):
    R = "C09.RESET-AT-ROOT"
    ck.rule(R, "K3 (shared with C12.REC-PAIRING): a node an unwound solve (overflow-depth panic, panicking database callback) left in "
               "progress keeps `stack_depth: Some(d)` pointing into a stack that is gone; the next solve that reaches the goal takes it "
               "for a cycle on the stack and indexes `self.stack[d]` - out of bounds.  So either solve_goal restores stack and graph on "
               "its unwind path, or every root entry (the only way into solve_goal from outside a running solve) clears the stack AND "
               "rolls the search graph back to its first node, on every path, before it calls solve_goal")
    from core import CallGraph as _CG9
    from props.c12 import root_entry_reset as _rer
    _cg9 = _CG9(facts, ["chalk_ir", "chalk_solve", "chalk_engine", "chalk_recursive"])
    _desc, _why = _rer(ck, facts, _cg9, R)
    if _desc is None:
        ck.violation(R, "solve_root_goal:reset-at-entry", "chalk-recursive/src/fixed_point.rs", "in-progress state of an unwound solve survives into the next one: %s" % _why)
    R = "C09.TRUNCATE"
    ck.rule(R, "K3: abstract_positive/negative_literal reach canonicalize (table creation) only on the false edge of needs_truncation; "
               "pursue_answer reaches push_answer only on the false edge and marks the table floundered on the true edge; "
               "Fulfill::push_obligation pushes only behind the false edge of needs_truncation on every path")
    for fn in ("abstract_positive_literal", "abstract_negative_literal"):
        b = need_body(ck, facts, R, "chalk_engine::forest::Forest::" + fn)
        if b:
            cfg = b.cfg
            sites = cfg.call_blocks("InferenceTable::canonicalize") + cfg.call_blocks("InferenceTable::u_canonicalize")
            n = guard_sites(ck, R, b, sites, cfg.bool_edges(trace_is_call(TRUNC), False), "canonicalize", "!needs_truncation(subgoal)")
            ck.floor(R, fn + ".sites", n, 1)
    b = need_body(ck, facts, R, "chalk_engine::logic::SolveState::pursue_answer")
    if b:
        cfg = b.cfg
        n = guard_sites(ck, R, b, cfg.call_blocks("Table::push_answer"), cfg.bool_edges(trace_is_call(TRUNC), False), "push_answer", "!needs_truncation(subst)")
        ck.floor(R, "pursue_answer.push-sites", n, 1)
        te = cfg.bool_edges(trace_is_call(TRUNC), True)
        mf = cfg.call_blocks("Table::mark_floundered")
        ok = bool(te) and bool(mf) and all(not (set(cfg.return_blocks()) & (cfg.reachable(e[1], (), False, stop=set(mf)) - set(mf))) for e in te)
        if ok:
            ck.ok(R, "pursue_answer:oversized-answer->mark_floundered")
        else:
            ck.violation(R, "pursue_answer:oversized-answer->mark_floundered", b.where(), "an answer above max_size must flounder the table instead of being tabled or silently dropped")
    b = need_body(ck, facts, R, "chalk_recursive::fulfill::Fulfill::push_obligation")
    if b:
        cfg = b.cfg
        pushes = [i for i in cfg.call_blocks("Vec::push")]
        n = guard_sites(ck, R, b, pushes, cfg.bool_edges(trace_is_call(TRUNC), False), "obligations.push", "!needs_truncation(goal)")
        ck.floor(R, "push_obligation.push-sites", n, 1)
        # (the guard is stated on MIR paths: every path to the push passes the false edge, whichever obligation kind it carries -
        # no assumption on how the two kinds are told apart in the source)

    R = "C09.OBLIGATION-ENTRY"
    ck.rule(R, "K4 (who-may-write a field): the size check of the recursive solver lives in Fulfill::push_obligation, so that is the only "
               "function that adds a *new* element to Fulfill.obligations (Vec::push / insert / extend); Fulfill::fulfill may only put back "
               "(append) what it popped in the same round.  A goal handler that pushes onto the vector itself - e.g. the negative-goal arm "
               "- creates obligations that are never truncated, and a program that grows types through them runs into the overflow panic")
    n = 0
    for key, fb_ in sorted(facts.bodies("chalk_recursive").items()):
        if "{" in key or fb_.thir is None:
            continue
        th_ = facts.thir(key)
        for c in calls(th_):
            meth = str(c.get("fn", "")).split("::")[-1]
            if meth not in ("push", "insert", "extend", "append", "extend_from_slice", "push_front", "push_back") or not c.get("args"):
                continue
            recv = c["args"][0]
            if not any(x.get("k") == "field" and x.get("n") == "obligations" and "Fulfill" in str(x.get("adt", "")) for x in walk(recv)):
                continue
            n += 1
            fn_ = key.split("::")[-1]
            inst = "Fulfill.obligations:%s<-%s" % (meth, fn_)
            if fn_ == "push_obligation" and meth == "push":
                ck.ok(R, inst, "the size-checked entry")
            elif fn_ == "fulfill" and meth == "append":
                ck.ok(R, inst, "puts back the obligations popped in this round")
            else:
                ck.violation(R, inst, fb_.where(c.get("ln")), "obligations are added outside push_obligation: they bypass needs_truncation")
    ck.floor(R, "writes-to-Fulfill.obligations", n, 2)

    R = "C09.FLOUNDERED-TABLE-IS-EMPTY"
    ck.rule(R, "K2 (field coverage): Table::mark_floundered leaves a table that yields nothing any more - it sets `floundered` and empties "
               "both the answers and the pending strands.  make_solution keeps pulling while Forest::any_future_answer sees a cached "
               "answer or a pending strand; a floundered root table that keeps stale strands answers `Floundered` forever and the "
               "aggregation loop (which the caller's continue-callback cannot interrupt there) never ends")
    mf = need_body(ck, facts, R, "chalk_engine::table::Table::mark_floundered")
    if mf:
        from kit import mutated_self_fields
        touched = mutated_self_fields(facts.thir("chalk_engine::table::Table::mark_floundered"), "Table")
        for fld in ("floundered", "answers", "strands"):
            if fld in touched:
                ck.ok(R, "mark_floundered:resets:%s" % fld)
            else:
                ck.violation(R, "mark_floundered:resets:%s" % fld, mf.where(), "Table.%s survives mark_floundered" % fld)

    R = "C09.SELECTED-NOT-FLOUNDERED"
    ck.rule(R, "K3 (justifies an engine assertion): on_subgoal_selected asserts that the selected subgoal's table has not floundered; a "
               "table can flounder *after* it was selected (pursue_answer marks it when an answer exceeds the size limit), so "
               "SolveState::select_subgoal may answer SubGoalSelection::Selected only behind the false edge of Table::is_floundered - "
               "for a selection it has just made and for one it finds already made alike")
    sel = need_body(ck, facts, R, "chalk_engine::logic::SolveState::select_subgoal")
    if sel:
        cfg = sel.cfg
        sites = sorted({b for b, j, st in cfg.agg_sites("chalk_engine::logic::SubGoalSelection", "Selected")})
        ck.floor(R, "select_subgoal.Selected-sites", len(sites), 1)
        guard_sites(ck, R, sel, sites, cfg.bool_edges(trace_is_call("Table::is_floundered"), False), "SubGoalSelection::Selected", "!table.is_floundered()")
    osl = need_body(ck, facts, R, "chalk_engine::logic::SolveState::on_subgoal_selected")
    if osl and sel:
        # the assertion this rule justifies still reads the same predicate
        if has_call(osl.thir, "Table::is_floundered") or has_call(osl.thir, "is_floundered"):
            ck.ok(R, "on_subgoal_selected:asserts-not-floundered", "the assertion exists; select_subgoal establishes it")
        else:
            ck.ok(R, "on_subgoal_selected:no-assertion", "nothing to justify")

    R = "C09.OVERFLOW"
    ck.rule(R, "K3: recursive Stack::push reaches entries.push only on the false edge of `depth >= overflow_depth`")
    b = need_body(ck, facts, R, "chalk_recursive::fixed_point::stack::Stack::push")
    if b:
        cfg = b.cfg

        def is_ge(tr):
            return (tr.get("kind") == "bin" and tr["op"] == "Ge") or (tr.get("kind") == "call" and callee_matches(tr["call"], "PartialOrd::ge"))
        n = guard_sites(ck, R, b, cfg.call_blocks("Vec::push"), cfg.bool_edges(is_ge, False), "entries.push", "!(depth >= overflow_depth)")
        ck.floor(R, "Stack::push.sites", n, 1)
        cmp_ok = any(n_.get("k") == "bin" and n_["op"] == "Ge" and mentions_field(n_["r"], "overflow_depth") for n_ in walk(b.thir))
        if cmp_ok:
            ck.ok(R, "Stack::push:compares-with-overflow_depth")
        else:
            ck.violation(R, "Stack::push:compares-with-overflow_depth", b.where(), "the depth must be compared with self.overflow_depth")

    from shared import fixedpoint
    fixedpoint.loop_exits(ck, facts, "C09.FIXPOINT")
    from shared import fixedpoint
    fixedpoint.table(ck, facts, "C09.FIXED-POINT-TABLE", which=("diverge",))

    R = "C09.FULFILL-PROGRESS"
    ck.rule(R, "K3/K1: the obligation loop of Fulfill::fulfill (`while progress`) re-runs only when a round changed something: every "
               "`progress = true` is control-dependent on `!is_trivial_canonical_subst(definite subst)` (or non-empty constraints), and "
               "is_trivial_canonical_subst recognises the identity substitution for *all three* kinds of generic argument (an arm that answers "
               "a constant lets an ambiguous obligation with identity guidance report progress forever)")
    fb = need_body(ck, facts, R, "chalk_recursive::fulfill::Fulfill::fulfill")
    if fb:
        th = facts.thir("chalk_recursive::fulfill::Fulfill::fulfill")
        from kit import FlagFlow
        flow = FlagFlow(th)

        def resolved_has(cond, fn, depth=5):
            return flow.depends_on_call(cond, fn, depth)

        sites = []

        def visit(n, conds):
            if isinstance(n, list):
                for x in n:
                    visit(x, conds)
                return
            if not isinstance(n, dict):
                return
            if n.get("k") == "assign" and var_name(peel(n["l"])) == "progress" and "true" in str(peel(n["r"]).get("v")):
                sites.append(conds)
            if n.get("k") == "if":
                visit(n["cond"], conds)
                visit(n["then"], conds + [n["cond"]])
                visit(n.get("else"), conds)
                return
            for key, v in n.items():
                if isinstance(v, (dict, list)) and key != "pat":
                    visit(v, conds)
        visit(th, [])
        ck.floor(R, "fulfill.progress=true", len(sites), 1)
        for i, conds in enumerate(sites):
            if any(resolved_has(c, "is_trivial_canonical_subst") for c in conds):
                ck.ok(R, "fulfill:progress=true#%d" % i, "guarded by the non-trivial-substitution test")
            else:
                ck.violation(R, "fulfill:progress=true#%d" % i, fb.where(), "`progress = true` is not guarded by the trivial-substitution test: "
                             "applying guidance that changes nothing would re-run the loop forever")
    tb = need_body(ck, facts, R, "chalk_recursive::fulfill::is_trivial_canonical_subst")
    if tb:
        th = facts.thir("chalk_recursive::fulfill::is_trivial_canonical_subst")
        ms = enum_matches(th, "chalk_ir::GenericArgData")
        if len(ms) != 1:
            ck.violation(R, "is_trivial_canonical_subst:match", tb.where(), "expected one match on GenericArgData, found %d" % len(ms))
        else:
            for v in facts.variants("chalk_ir::GenericArgData"):
                arms = select_arms(ms[0], V(v))
                arm = ms[0]["arms"][arms[0][0]]
                if has_call(arm["body"], "bound_var"):
                    ck.ok(R, "is_trivial_canonical_subst:%s" % v, "is_trivial(x.bound_var())")
                else:
                    ck.violation(R, "is_trivial_canonical_subst:%s" % v, tb.where(arm["ln"]),
                                 "the %s arm does not look at the argument's bound variable: an identity substitution of this kind is never "
                                 "recognised as trivial (or always is), which breaks the progress test of Fulfill::fulfill" % v)
        if has_call(th, "Iterator::all") or has_call(th, "all"):
            ck.ok(R, "is_trivial_canonical_subst:all-parameters")
        else:
            ck.violation(R, "is_trivial_canonical_subst:all-parameters", tb.where(), "must hold for all parameters")

    R = "C09.LOOP-EXIT"
    ck.rule(R, "K1: in SLGSolver::solve_multiple every arm for an *absorbing* AnswerResult (one that, once returned by the stream, is "
               "returned by every later call: NoMoreSolutions, Floundered - tables never un-flounder) must return from the function "
               "rather than rely on the callback to stop the loop")
    ABSORBING = {"NoMoreSolutions": "the table is complete", "Floundered": "Table.floundered is only ever set to true"}
    b = need_body(ck, facts, R, "<chalk_engine::solve::SLGSolver as chalk_solve::solve::Solver>::solve_multiple")
    if b:
        ms = enum_matches(facts.thir(b.key), "chalk_engine::context::AnswerResult")
        if len(ms) != 1:
            ck.violation(R, "solve_multiple:match", b.where(), "expected one match on AnswerResult")
        else:
            for v in facts.variants("chalk_engine::context::AnswerResult"):
                arm = ms[0]["arms"][select_arms(ms[0], V(v))[0][0]]
                returns = any(n.get("k") == "return" for n in walk(arm["body"]))
                inst = "solve_multiple:AnswerResult::%s" % v
                if v in ABSORBING:
                    if returns:
                        ck.ok(R, inst, "returns (%s)" % ABSORBING[v])
                    else:
                        ck.violation(R, inst, b.where(arm["ln"]), "`%s` is absorbing (%s) but the arm does not leave the loop: the callback is "
                                     "invoked with the same result and `more = true` forever" % (v, ABSORBING[v]))
                else:
                    ck.ok(R, inst, "transient or progressing")
    # floundered is only ever set to true
    wr = []
    for k, bb in facts.bodies("chalk_engine").items():
        if bb.thir is None:
            continue
        for n in walk(bb.thir):
            if n.get("k") == "assign":
                l = peel(n["l"])
                if l.get("k") == "field" and l["n"] == "floundered" and l.get("adt") == "chalk_engine::table::Table":
                    wr.append((k, "true" in str(peel(n["r"]).get("v"))))
    if wr and all(v for k, v in wr):
        ck.ok(R, "Table.floundered:only-set-to-true", str([short(k) for k, v in wr]))
    else:
        ck.violation(R, "Table.floundered:only-set-to-true", "", "Table.floundered is assigned something other than `true`: %s" % wr)
