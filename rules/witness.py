"""E4 - compile-fail witnesses (K8).  Thorough tier only: `cargo +nightly test --doc --offline` on /verif/witness, which
path-depends on /repo's crates, so the witnesses are compiled against the current working tree.  rustc is the checker; each
compile_fail block names the expected error code and has a compiling twin."""
import os
import re
import shutil
import subprocess

VERIF = os.path.dirname(os.path.dirname(os.path.abspath(__file__)))
WIT = os.path.join(VERIF, "witness")
OWNER = {"C15": "C15SnapshotIsLinear", "C27": "C27InPlaceIsPrivate"}


def run(ck, prop, repo="/repo"):
    R = "%s.TYPE-WITNESS" % prop
    ck.rule(R, "K8: compile_fail doctests with error codes + compiling twins in /verif/witness (cargo +nightly test --doc), built against "
               "/repo's current sources: a program that violates the property must be rejected by rustc")
    if os.path.abspath(repo) != "/repo":
        ck.notes.append("witness crate path-depends on /repo; skipped for --repo %s" % repo)
        return
    shutil.copy(os.path.join(repo, "Cargo.lock"), os.path.join(WIT, "Cargo.lock"))
    env = dict(os.environ, CARGO_NET_OFFLINE="true", CARGO_TARGET_DIR=os.path.join(VERIF, ".cache", "witness-target"))
    r = subprocess.run(["cargo", "+nightly", "test", "--doc", "--offline"], cwd=WIT, env=env, stdout=subprocess.PIPE, stderr=subprocess.STDOUT, text=True)
    tests = re.findall(r"^test src/lib\.rs - (\w+) \(line (\d+)\)( - compile fail)? \.\.\. (\w+)", r.stdout, re.M)
    mine = sorted([t for t in tests if t[0] == OWNER[prop]], key=lambda t: int(t[1]))
    ck.floor(R, "doctests", len(mine), 2)
    if not tests:
        ck.violation(R, "witness-build-failed", WIT, r.stdout[-1200:])
        return
    for i, (name, line, cf, res) in enumerate(mine):
        inst = "%s#%d:%s" % (name, i, "compile_fail" if cf else "twin")
        if res == "ok":
            ck.ok(R, inst, "rustc rejected it with the stated error code" if cf else "compiles")
        else:
            ck.violation(R, inst, "witness/src/lib.rs:%s" % line,
                         ("the violating program now COMPILES (or fails with a different error): the type-level protection is gone" if cf
                          else "the compiling twin no longer builds: the witness is stale, re-anchor it"))
