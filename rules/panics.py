"""K6: inventory of panic-capable sites in MIR bodies.

A site is one of
  * a call whose callee is a known panicking entry point (panic!/assert!/unreachable!/unimplemented!/todo! expansions,
    Option/Result::unwrap/expect and friends, slice/Vec/HashMap indexing through Index::index, RefCell borrows, ...)
  * an `Assert` terminator (bounds check, overflow, division by zero)
Each site gets a line-free key: <kind>:<descriptor>[#n], the descriptor being the macro or the producer of the unwrapped value."""
from core import is_tracing, callee_names, op_place

PANIC_FNS = ("core::panicking::panic", "core::panicking::panic_fmt", "std::panicking::begin_panic", "core::panicking::panic_explicit",
             "core::panicking::assert_failed", "core::panicking::unreachable_display", "core::panicking::panic_display",
             "std::rt::begin_panic", "core::panicking::panic_nounwind", "std::rt::panic_fmt", "core::panicking::panic_const")
UNWRAPS = ("Option::unwrap", "Option::expect", "Result::unwrap", "Result::expect", "Result::unwrap_err", "Result::expect_err",
           "Option::unwrap_unchecked")
INDEXING = ("Index::index", "IndexMut::index_mut")
OTHER = ("RefCell::borrow_mut", "RefCell::borrow", "slice::copy_from_slice", "Vec::remove", "Vec::swap_remove", "Vec::insert",
         "VecDeque::remove", "str::split_at", "Vec::drain", "Vec::split_off")


def _macro(t):
    x = t.get("x") or ""
    for m in ("unreachable!", "unimplemented!", "todo!", "debug_assert_eq!", "debug_assert_ne!", "debug_assert!", "assert_eq!", "assert_ne!",
              "assert!", "panic!"):
        if m in x:
            return m
    return None


def panic_sites(body, include_overflow=False, include_debug_asserts=False):
    cfg = body.cfg
    out = []
    counts = {}

    def add(kind, desc, blk, ln, extra=None):
        base = "%s:%s" % (kind, desc)
        counts[base] = counts.get(base, 0) + 1
        key = base if counts[base] == 1 else "%s#%d" % (base, counts[base])
        out.append({"key": key, "kind": kind, "desc": desc, "block": blk, "ln": ln, "extra": extra})

    for i, b in enumerate(cfg.blocks):
        if b.get("c"):
            continue
        t = b["t"]
        if t["k"] == "call":
            if is_tracing(t):
                continue
            names = callee_names(t)
            fn = t.get("fn") or ""
            if any(fn == p or fn.startswith(p) for p in PANIC_FNS):
                m = _macro(t) or "panic"
                if m.startswith("debug_assert") and not include_debug_asserts:
                    continue
                add("macro", m, i, t.get("ln"))
            elif fn.endswith(UNWRAPS):
                src = "?"
                if t.get("a"):
                    tr = cfg.trace(t["a"][0])
                    if tr.get("kind") == "call":
                        src = (tr["call"].get("fn") or "?").split("::")[-1]
                    elif tr.get("kind") == "field":
                        src = "." + (tr["fields"][-1].split(".")[-1] if tr.get("fields") else "?")
                    elif tr.get("kind") == "local":
                        src = "local"
                add(fn.split("::")[-1], "of-" + src, i, t.get("ln"))
            elif any(n.endswith(INDEXING) for n in names):
                recv = (t.get("recv") or "?")
                desc = recv.split("<")[0].split("::")[-1]
                # prefer the name of the indexed field / variable: stable under insertion of other sites
                if t.get("a"):
                    tr = cfg.trace(t["a"][0])
                    if tr.get("kind") == "field" and tr.get("fields"):
                        desc = tr["fields"][-1].split(".")[-1]
                    elif tr.get("kind") == "call":
                        desc = "result-of-" + (tr["call"].get("fn") or "?").split("::")[-1]
                    else:
                        pl = t["a"][0].get("c") or t["a"][0].get("m")
                        names = {v[1]["l"]: v[0] for v in body.mir.get("vars", []) if not v[1].get("pj")}
                        if pl is not None and pl["l"] in names:
                            desc = names[pl["l"]]
                add("index", desc, i, t.get("ln"), recv)
            elif fn.endswith(OTHER):
                add("call", fn.split("::")[-1], i, t.get("ln"))
        elif t["k"] == "assert":
            msg = t.get("msg", "")
            if msg.startswith("overflow") and not include_overflow:
                continue
            if msg in ("misaligned", "nullptr"):
                continue
            add("assert", msg, i, t.get("ln"))
    return out
