"""Checker self-test (thorough tier): every rule must fire on a seeded break.

A seeded break is a (file, old text, new text) edit listed in /verif/selftest/breaks.py.  For one property all of its breaks are
applied *together* to a scratch copy of /repo's working tree (outside /repo and /verif), the copy is type-checked and re-extracted by
the same extractor, the property's rules run on the scratch facts, and each break must be reported under its expected key.  The
scratch copy and its facts are removed immediately afterwards.  This validates the *checker*; the verdict on /repo stays static.

A break whose `old` text no longer occurs exactly once is reported as `stale` (the source moved on; the break needs re-seeding) -
that is a note in the evidence, not a violation of the property."""
import importlib
import os
import shutil
import subprocess
import sys
import time

HERE = os.path.dirname(os.path.abspath(__file__))
VERIF = os.path.dirname(HERE)
sys.path.insert(0, os.path.join(VERIF, "selftest"))

import factsmgr  # noqa: E402
from core import Facts  # noqa: E402
from report import Check  # noqa: E402


def scratch_root():
    return os.environ.get("VERIF_SCRATCH", "/var/tmp/chalk-verif-scratch")


def make_copy(repo, dst):
    if os.path.isdir(dst):
        shutil.rmtree(dst)
    os.makedirs(dst)
    subprocess.check_call(["rsync", "-a", "--exclude", "target", "--exclude", ".git", "--exclude", "book", repo.rstrip("/") + "/", dst + "/"])
    # the facts manager lists sources with `git ls-files`
    subprocess.check_call(["git", "init", "-q"], cwd=dst)


def apply_breaks(dst, breaks):
    applied, stale = [], []
    for br in breaks:
        path = os.path.join(dst, br["file"])
        try:
            text = open(path).read()
        except OSError:
            stale.append((br["name"], "file missing"))
            continue
        if text.count(br["old"]) != 1:
            stale.append((br["name"], "anchor text occurs %d times" % text.count(br["old"])))
            continue
        with open(path, "w") as fh:
            fh.write(text.replace(br["old"], br["new"]))
        applied.append(br)
    return applied, stale


def run_breaks(prop, breaks, repo="/repo"):
    """-> dict(name -> 'detected' | 'MISSED' | 'stale:..' | 'does-not-compile')"""
    root = scratch_root()
    dst = os.path.join(root, "repo")
    out = {}
    os.makedirs(root, exist_ok=True)
    try:
        make_copy(repo, dst)
        applied, stale = apply_breaks(dst, breaks)
        for name, why in stale:
            out[name] = "stale: " + why
        if not applied:
            return out
        try:
            fdir, info = factsmgr.ensure_facts(dst, "libs", verbose=False)
        except SystemExit as e:
            # find the culprit by applying one at a time
            if len(applied) == 1:
                out[applied[0]["name"]] = "does-not-compile"
                return out
            for br in applied:
                out.update(run_breaks(prop, [br], repo))
            return out
        mod = importlib.import_module("props.%s" % prop.lower())
        ck = Check(prop, "thorough", getattr(mod, "LEVEL", "other"))
        ck.extract_info = {"repo": dst}
        mod.run(ck, Facts(fdir), "thorough")
        keys = [v["key"] for v in ck.violations]
        for br in applied:
            hit = [k for k in keys if br["expect"] in k]
            out[br["name"]] = "detected" if hit else "MISSED"
        shutil.rmtree(fdir, ignore_errors=True)
    finally:
        shutil.rmtree(dst, ignore_errors=True)
    return out


def seeded_patches(prop):
    """independently written property-breaking changes stored under /verif/seeded/<id>/ that this property's check caught when
    they were stored: (id, patch path, files touched, expected key)"""
    import json
    out = []
    sd = os.path.join(VERIF, "seeded")
    for sid in sorted(os.listdir(sd)) if os.path.isdir(sd) else []:
        mp = os.path.join(sd, sid, "meta.json")
        if not os.path.exists(mp):
            continue
        meta = json.load(open(mp))
        keys = (meta.get("checks", {}).get("fired", {}) or {}).get(prop) or []
        keys = [k for k in keys if not k.startswith(("ENGINE", "exit="))]
        if not keys:
            continue
        patch = os.path.join(sd, sid, "patch.diff")
        files = [l[6:].strip() for l in open(patch) if l.startswith("+++ b/")]
        out.append((sid, patch, files, keys[0]))
    return out


def run_seeded(prop, items, repo="/repo"):
    """apply stored seeded patches in batches with pairwise disjoint file sets; each must be reported under its recorded key"""
    out = {}
    batches = []
    for it in items:
        for bt in batches:
            if not (set(it[2]) & bt["files"]):
                bt["items"].append(it)
                bt["files"] |= set(it[2])
                break
        else:
            batches.append({"items": [it], "files": set(it[2])})
    root = scratch_root()
    dst = os.path.join(root, "repo")
    for bt in batches:
        try:
            make_copy(repo, dst)
            applied = []
            for sid, patch, files, key in bt["items"]:
                r = subprocess.run(["git", "apply", patch], cwd=dst, capture_output=True, text=True)
                if r.returncode != 0:
                    out["seeded:" + sid] = "stale: patch no longer applies"
                else:
                    applied.append((sid, key))
            if not applied:
                continue
            try:
                fdir, info = factsmgr.ensure_facts(dst, "libs", verbose=False)
            except SystemExit:
                for sid, key in applied:
                    out["seeded:" + sid] = "does-not-compile (in this batch)"
                continue
            mod = importlib.import_module("props.%s" % prop.lower())
            ck = Check(prop, "thorough", getattr(mod, "LEVEL", "other"))
            ck.extract_info = {"repo": dst}
            mod.run(ck, Facts(fdir), "thorough")
            keys = [v["key"] for v in ck.violations]
            for sid, key in applied:
                out["seeded:" + sid] = "detected" if key in keys else "MISSED"
            shutil.rmtree(fdir, ignore_errors=True)
        finally:
            shutil.rmtree(dst, ignore_errors=True)
    return out


def benign_groups():
    """the stored behaviour-preserving batches, greedily grouped so that the patches of one group touch pairwise disjoint files
    (one scratch copy and one extraction per group)"""
    bdir = os.path.join(VERIF, "benign")
    groups = []
    for batch in sorted(os.listdir(bdir)) if os.path.isdir(bdir) else []:
        patch = os.path.join(bdir, batch, "combined.diff")
        if not os.path.exists(patch):
            continue
        files = {l[6:].strip() for l in open(patch) if l.startswith("+++ b/")}
        for g in groups:
            if not (files & g["files"]):
                g["items"].append((batch, patch))
                g["files"] |= files
                break
        else:
            groups.append({"items": [(batch, patch)], "files": set(files)})
    return groups


def benign_facts(repo, items):
    """facts of `repo` + a group of stored behaviour-preserving patches; cached (gzip) under .cache/benign/<digest of tree and patches>
    so that the thorough tiers of all properties share one extraction per group and tree"""
    import gzip
    import hashlib
    base = factsmgr.digest(repo, "libs")
    key = hashlib.sha256((base + "".join(open(p_).read() for _b, p_ in items)).encode()).hexdigest()[:16]
    cdir = os.path.join(factsmgr.CACHE, "benign", key)
    if os.path.isdir(cdir) and os.path.exists(os.path.join(cdir, "DONE")):
        return cdir, "cached", [b_ for b_, _p in items]
    root = scratch_root()
    dst = os.path.join(root, "repo")
    os.makedirs(root, exist_ok=True)
    try:
        make_copy(repo, dst)
        applied = []
        for b_, p_ in items:
            r = subprocess.run(["git", "apply", p_], cwd=dst, capture_output=True, text=True)
            if r.returncode == 0:
                applied.append(b_)
        if not applied:
            return None, "stale: no patch of the group applies", []
        try:
            fdir, info = factsmgr.ensure_facts(dst, "libs", verbose=False)
        except SystemExit:
            return None, "does-not-compile", applied
        shutil.rmtree(cdir, ignore_errors=True)
        os.makedirs(cdir)
        for f in os.listdir(fdir):
            if f.endswith(".json"):
                with open(os.path.join(fdir, f), "rb") as src, gzip.open(os.path.join(cdir, f + ".gz"), "wb", compresslevel=3) as out:
                    shutil.copyfileobj(src, out)
        open(os.path.join(cdir, "DONE"), "w").write(" ".join(applied))
        shutil.rmtree(fdir, ignore_errors=True)
        bdir = os.path.join(factsmgr.CACHE, "benign")
        ents = sorted((os.path.getmtime(os.path.join(bdir, e)), e) for e in os.listdir(bdir))
        for _t, e in ents[:-24]:
            shutil.rmtree(os.path.join(bdir, e), ignore_errors=True)
        return cdir, "extracted", applied
    finally:
        shutil.rmtree(dst, ignore_errors=True)


def run_benign(ck, prop, repo="/repo"):
    """Negative self-test: the property's rules must be SILENT on every stored behaviour-preserving refactoring (benign/<batch>/
    combined.diff applied to the current tree, several batches with disjoint files at a time).  A rule that fires there has a false
    alarm; that is reported as a SELFTEST violation."""
    import report
    known = {k["key"] for k in report.load_known() if k.get("status") == "known" and k.get("property") == prop}
    mod = importlib.import_module("props.%s" % prop.lower())
    res = {}
    t0 = time.time()
    for g in benign_groups():
        names = "+".join(b_ for b_, _p in g["items"])
        cdir, how, applied = benign_facts(repo, g["items"])
        if cdir is None:
            res[names] = how
            continue
        c2 = Check(prop, "thorough", getattr(mod, "LEVEL", "other"))
        c2.extract_info = {"repo": repo}
        try:
            mod.run(c2, Facts(cdir), "thorough")
        except Exception as e:     # noqa
            res[names] = "checker crashed: %s" % str(e)[:120]
            ck.violation("SELFTEST", "%s:benign:%s:crash" % (prop, names), "/verif/benign", "the rules crash on behaviour-preserving refactorings: %s" % str(e)[:200])
            continue
        base_keys = {v["key"] for v in ck.violations}
        alarms = [v["key"] for v in c2.violations if v["key"] not in known and v["key"] not in base_keys]
        res[names] = "silent (%s; %d refactorings)" % (how, 8 * len(applied)) if not alarms else "FALSE ALARM: %s" % alarms[:3]
        for k in alarms[:5]:
            ck.violation("SELFTEST", "%s:benign:%s:%s" % (prop, names, k), "/verif/benign",
                         "the rule fires on behaviour-preserving refactorings (batches %s): a false alarm of the checker" % names)
        if not alarms:
            ck.ok("SELFTEST", "%s:benign:%s" % (prop, names), "silent on %d behaviour-preserving refactorings" % (8 * len(applied)))
    ck.analysed["benign"] = {"results": res, "wall_s": round(time.time() - t0, 1)}


def run_for(ck, prop):
    import breaks as B
    mine = [b for b in B.BREAKS if b["prop"] == prop]
    t0 = time.time()
    sd = seeded_patches(prop)
    if not mine and not sd:
        ck.notes.append("selftest: no seeded breaks registered for %s" % prop)
        return
    res = run_breaks(prop, mine, ck.extract_info.get("repo", "/repo")) if mine else {}
    res.update(run_seeded(prop, sd, ck.extract_info.get("repo", "/repo")))
    ck.analysed["selftest"] = {"results": res, "wall_s": round(time.time() - t0, 1)}
    if os.environ.get("VERIF_NO_BENIGN") != "1":
        run_benign(ck, prop, ck.extract_info.get("repo", "/repo"))
    for name, r in sorted(res.items()):
        if r == "detected":
            ck.ok("SELFTEST", "%s:%s" % (prop, name), "seeded break detected")
        elif r == "MISSED":
            ck.violation("SELFTEST", "%s:%s" % (prop, name), "/verif/selftest/breaks.py",
                         "the checker did not report the seeded break `%s`: the rule it exercises has gone blind" % name)
        else:
            ck.notes.append("selftest %s: %s" % (name, r))


if __name__ == "__main__":
    import breaks as B
    props = sys.argv[1:] or sorted({b["prop"] for b in B.BREAKS})
    for p in props:
        mine = [b for b in B.BREAKS if b["prop"] == p]
        r = run_breaks(p, mine)
        print(p, r)
