"""Which elements of a collection does an expression inside a `for` loop denote, relative to the loop index?

A tiny abstract interpretation used by C20.TRAIT-CLAUSES ("IsFullyVisible for exactly the parameters *before* i, IsLocal for
parameter i").  It understands the idioms a loop over `0..v.len()` or `v.iter().enumerate()` can be written in - indexing `v[i]`,
`v[j]` for `j` drawn from `0..i`, slices `v[..i]`, `v.iter().take(i)`, and `let` aliases - and answers with one of

  IDX      the loop index i                     ELEM     v[i]
  PRE      the collection of v[j], j <  i       PRE_M    one member of it
  PREIDX   the collection of indices 0..i       PREIDX_M one member of it
  INCL / INCL_M / INCLIDX / INCLIDX_M           the same with j <= i   (always wrong here)
  ALL / ALL_M                                   the whole collection / any member
  None                                          not understood (the caller fails closed)
"""
from core import peel, var_name, callee_matches, walk

IDX, ELEM, PRE, PRE_M, PREIDX, PREIDX_M = "idx", "elem", "pre", "pre_m", "preidx", "preidx_m"
INCL, INCL_M, INCLIDX, INCLIDX_M, ALL, ALL_M = "incl", "incl_m", "inclidx", "inclidx_m", "all", "all_m"
MEMBER = {PRE: PRE_M, PREIDX: PREIDX_M, INCL: INCL_M, INCLIDX: INCLIDX_M, ALL: ALL_M}
TRANSPARENT = {"iter", "into_iter", "cloned", "copied", "clone", "as_slice", "as_ref", "borrow", "to_vec", "to_owned", "by_ref", "deref", "rev"}


def last(n):
    return str(n.get("fn") or n.get("res") or "").split("::")[-1]


def is_zero(n):
    n = peel(n)
    return isinstance(n, dict) and n.get("k") == "lit" and "Pu128(0)" in str(n.get("v"))


def ev(n, env, base):
    n = peel(n)
    if not isinstance(n, dict):
        return None
    k = n.get("k")
    if k == "var":
        if n.get("n") in env:
            return env[n["n"]]
        return ALL if n.get("n") == base else None
    if k == "adt" and str(n.get("adt", "")).startswith("core::ops::range::"):
        f = dict((a, b) for a, b in n.get("fields", []))
        kind = n["adt"].split("::")[-1]
        end = ev(f.get("end"), env, base) if f.get("end") is not None else None
        if kind == "Range" and is_zero(f.get("start")) and end == IDX:
            return PREIDX
        if kind == "RangeTo" and end == IDX:
            return PREIDX
        if kind in ("RangeInclusive", "RangeToInclusive") and end == IDX:
            return INCLIDX
        return None
    if k == "call" and "RangeInclusive" in str(n.get("fn", "")) and last(n) == "new":
        a = n.get("args", [])
        if len(a) == 2 and is_zero(a[0]) and ev(a[1], env, base) == IDX:
            return INCLIDX
        return None
    if k == "index" or (k == "call" and callee_matches(n, "Index::index")):
        b_, i_ = (n["e"], n["i"]) if k == "index" else n["args"][:2]
        bv, iv = ev(b_, env, base), ev(i_, env, base)
        if bv != ALL:
            return None
        return {IDX: ELEM, PREIDX_M: PRE_M, INCLIDX_M: INCL_M, PREIDX: PRE, INCLIDX: INCL}.get(iv)
    if k == "call":
        nm = last(n)
        a = n.get("args", [])
        if nm in TRANSPARENT and a:
            return ev(a[0], env, base)
        if nm == "take" and len(a) == 2 and ev(a[0], env, base) == ALL and ev(a[1], env, base) == IDX:
            return PRE
        if nm in ("get", "get_unchecked") and len(a) == 2 and ev(a[0], env, base) == ALL:
            return {IDX: ELEM, PREIDX_M: PRE_M}.get(ev(a[1], env, base))
        if nm in ("unwrap", "expect") and a:
            return ev(a[0], env, base)
    return None


def bind_closure(cl, member, env):
    env = dict(env)
    for p in (cl.get("params") or [])[1:]:
        if isinstance(p, dict) and p.get("k") == "bind":
            env[p["n"]] = member
    return env


def collect(node, env, base, want, out):
    """record (variant, abstract value of its argument) for every DomainGoal::<variant in want> constructor under node"""
    n = node
    if isinstance(n, list):
        for x in n:
            collect(x, env, base, want, out)
        return
    if not isinstance(n, dict):
        return
    k = n.get("k")
    if k == "block":
        env = dict(env)
        for st in n.get("stmts") or []:
            if st.get("k") == "let" and st.get("init") is not None and (st.get("pat") or {}).get("k") == "bind":
                collect(st["init"], env, base, want, out)
                env[st["pat"]["n"]] = ev(st["init"], env, base)
            else:
                collect(st, env, base, want, out)
        if n.get("expr") is not None:
            collect(n["expr"], env, base, want, out)
        return
    if k == "adt" and str(n.get("adt", "")).endswith("chalk_ir::DomainGoal") and n.get("v") in want:
        f = n.get("fields") or []
        out.append((n["v"], ev(f[0][1], env, base) if f else None, n))
        return
    if k == "call" and last(n) in ("map", "for_each", "flat_map", "filter_map", "inspect") and len(n.get("args", [])) == 2 \
            and peel(n["args"][1]).get("k") == "closure":
        coll = ev(n["args"][0], env, base)
        collect(n["args"][0], env, base, want, out)
        cl = peel(n["args"][1])
        collect(cl.get("body"), bind_closure(cl, MEMBER.get(coll), env), base, want, out)
        return
    for key, v in n.items():
        if key in ("pat", "params"):
            continue
        if isinstance(v, (dict, list)):
            collect(v, env, base, want, out)


def loop_env(iter_expr, pat):
    """-> (base collection name, env for the loop variables, covers-every-index?) or None"""
    it = peel(iter_expr)
    if not isinstance(it, dict):
        return None
    if it.get("k") == "adt" and str(it.get("adt", "")).endswith("range::Range"):
        f = dict((a, b) for a, b in it.get("fields", []))
        end = peel(f.get("end"))
        if is_zero(f.get("start")) and isinstance(end, dict) and end.get("k") == "call" and last(end) == "len" and end.get("args"):
            base = var_name(end["args"][0])
            if base and isinstance(pat, dict) and pat.get("k") == "bind":
                return base, {pat["n"]: IDX}, True
        return None
    if it.get("k") == "call" and last(it) == "enumerate" and it.get("args"):
        inner = peel(it["args"][0])
        chain_ok = True
        while isinstance(inner, dict) and inner.get("k") == "call" and last(inner) in TRANSPARENT and inner.get("args"):
            inner = peel(inner["args"][0])
        base = var_name(inner)
        if not base:
            return None
        names = []
        if isinstance(pat, dict) and pat.get("k") in ("leaf", "tuple"):
            for _i, _n, sp in pat.get("sub", []):
                names.append(sp.get("n") if isinstance(sp, dict) and sp.get("k") == "bind" else None)
        if len(names) == 2 and names[0]:
            env = {names[0]: IDX}
            if names[1]:
                env[names[1]] = ELEM
            return base, env, chain_ok
    return None
