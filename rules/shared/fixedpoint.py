"""reached_fixed_point as a decision table, by symbolic evaluation of its THIR.

The recursive solver re-runs a cycle head until `reached_fixed_point(old, current)`.  Spec (from the comment in solve_new_subgoal and the
`multiple_ambiguous_cycles` note):   true  <=>  old == current  ||  current is Ambiguous.
  * true for a *changed definite* answer stops the iteration on a provisional value (C01/C05: goals solved under the stale assumption
    are kept and cached);
  * false for an Ambiguous current answer may iterate forever (C09).
The function is evaluated on every abstract input (kind of old) x (kind of current) x (equal?) - no shape of the source is assumed:
`||`, `&&`, `!`, `==`, `is_ambig()`, `is_unique()`, `is_ok()/is_err()`, `match` / `matches!` / `if let` on the two arguments are interpreted,
anything else makes the row `unclassified`, which fails closed."""
from core import select_arms, V, T, ANY, YES, NO, MAYBE, peel, callee_matches, var_name
from kit import need_body, user_block

KINDS = {"Err": V("Err"), "Unique": V("Ok", **{"0": V("Unique")}), "Ambig": V("Ok", **{"0": V("Ambig")})}


def bind(p, val, env):
    """collect bindings of pattern p matched against abstract value val"""
    if not isinstance(p, dict):
        return
    k = p.get("k")
    if k == "bind":
        env[p.get("n")] = val
        if p.get("sub"):
            bind(p["sub"], val, env)
    elif k in ("variant", "leaf"):
        for idx, name, sp in p.get("sub", []):
            fv = ANY
            if val and val[0] == "variant":
                fv = val[2].get(name, val[2].get(str(idx), ANY))
            elif val and val[0] == "tuple":
                fv = val[1][idx] if idx < len(val[1]) else ANY
            bind(sp, fv, env)
    elif k == "or":
        for x in p.get("pats", []):
            bind(x, val, env)
    elif k in ("deref", "guardpat") and p.get("sub"):
        bind(p["sub"], val, env)


def value_of(n, env):
    n = peel(n)
    if not isinstance(n, dict):
        return ANY
    if n.get("k") == "var":
        return env.get(n.get("n"), ANY)
    if n.get("k") == "call" and isinstance(env.get("__calls__"), dict):
        nm = str(n.get("fn") or n.get("res") or "").split("::")[-1]
        if nm in env["__calls__"]:
            return env["__calls__"][nm]
    if n.get("k") == "lit" and str(n.get("v")) in ("true", "false", "Bool(true)", "Bool(false)"):
        return ("const", "true" if "true" in str(n.get("v")) else "false")
    if n.get("k") == "tuple":
        return T(*[value_of(x, env) for x in n.get("es", n.get("args", []))])
    if n.get("k") == "adt" and n.get("v") and not n.get("fields"):
        return V(n["v"])
    return ANY


UNIT = ("unit",)


def is_ret(x):
    return isinstance(x, tuple) and x and x[0] == "ret"


def ev(n, env, eq, leaf=None):
    """-> set of outcomes: True / False / None (not interpretable) / UNIT (a statement's `()`) / ("ret", v) (the function returned v)"""
    n = peel(n)
    if not isinstance(n, dict):
        return {None}
    k = n.get("k")
    if k == "block":
        out = set()
        env = dict(env)
        for st in n.get("stmts") or []:
            sk = st.get("k")
            if sk == "let":
                if st.get("else") is not None:
                    out.add(None)
                    continue
                if st.get("init") is not None:
                    init = peel(st["init"])
                    val = value_of(init, env)
                    if val == ANY and isinstance(init, dict) and init.get("k") in ("match", "if", "logic", "un", "bin", "call") \
                            and (st.get("pat") or {}).get("k") == "bind":
                        r = ev(init, env, eq, leaf)
                        if r == {True} or r == {False}:
                            val = ("const", "true" if r == {True} else "false")
                    bind(st.get("pat"), val, env)
                continue
            if sk in ("if", "match", "return", "block"):
                r = ev(st, env, eq, leaf)
                out |= {x for x in r if is_ret(x)}
                if None in r:
                    out.add(None)
                if r and all(is_ret(x) for x in r):
                    return out              # the block always returns here
                continue
            # any other statement (a log line, an assertion) cannot decide the result unless it can return
            from core import walk as _walk
            if any(x.get("k") == "return" for x in _walk(st, skip_tracing=False)):
                out.add(None)
        if n.get("expr") is not None:
            out |= ev(n["expr"], env, eq, leaf)
        else:
            out.add(UNIT)
        return out
    if k == "return":
        r = ev(n.get("e"), env, eq, leaf) if n.get("e") is not None else {UNIT}
        return {x if is_ret(x) else ("ret", x) for x in r}
    if k == "var":
        v = env.get(n.get("n"))
        if isinstance(v, tuple) and len(v) == 2 and v[0] == "const" and v[1] in ("true", "false"):
            return {v[1] == "true"}
        return {leaf(n)} if leaf else {None}
    if k == "call" and isinstance(env.get("__calls__"), dict):
        nm = str(n.get("fn") or n.get("res") or "").split("::")[-1]
        v = env["__calls__"].get(nm)
        if isinstance(v, tuple) and len(v) == 2 and v[0] == "const" and v[1] in ("true", "false"):
            return {v[1] == "true"}
    if k == "lit":
        v = str(n.get("v"))
        return {True} if "true" in v else {False} if "false" in v else {None}
    if k == "un" and n.get("op") == "Not":
        return {x if is_ret(x) else (None if x not in (True, False) else (not x)) for x in ev(n["e"], env, eq)}
    if k == "logic":
        l, r = ev(n["l"], env, eq), ev(n["r"], env, eq)
        out = set()
        for a in l:
            if is_ret(a):
                out.add(a)
            elif n["op"] == "Or":
                if a is True:
                    out.add(True)
                elif a is False:
                    out |= r
                else:
                    out |= {True} if r == {True} else {None}
            else:
                if a is False:
                    out.add(False)
                elif a is True:
                    out |= r
                else:
                    out |= {False} if r == {False} else {None}
        return out
    ops = None
    if k == "bin" and n.get("op") in ("Eq", "Ne"):
        ops, neg = [n["l"], n["r"]], n["op"] == "Ne"
    elif k == "call" and callee_matches(n, ("PartialEq::eq", "PartialEq::ne")):
        ops, neg = n["args"][:2], callee_matches(n, "PartialEq::ne")
    if ops is not None:
        names = {var_name(peel(o)) for o in ops}
        if eq and names == set(eq["names"]):
            return {eq["equal"] != neg}
        va, vb = value_of(ops[0], env), value_of(ops[1], env)
        if va != ANY and vb != ANY and va[0] == "variant" and vb[0] == "variant" and not va[2] and not vb[2]:
            return {(va[1] == vb[1]) != neg}
        return {None}
    if k == "call":
        fn = str(n.get("fn", "")).split("::")[-1]
        args = n.get("args", [])
        if fn in ("is_ambig", "is_unique", "is_ok", "is_err") and args:
            v = value_of(args[0], env)
            if v == ANY or v[0] != "variant":
                return {None}
            name = v[1]
            inner = v[2].get("0") if name == "Ok" else None
            if fn == "is_ok":
                return {name == "Ok"}
            if fn == "is_err":
                return {name == "Err"}
            sol = inner[1] if (name == "Ok" and inner and inner != ANY) else (name if name in ("Unique", "Ambig") else None)
            if sol is None:
                return {None}
            return {sol == ("Ambig" if fn == "is_ambig" else "Unique")}
        return {leaf(n)} if leaf else {None}
    if k == "match":
        val = value_of(n.get("scrut"), env)
        arms = select_arms(n, val)
        if not arms:
            return {None}
        out = set()
        for i, cert in arms:
            arm = n["arms"][i]
            e2 = dict(env)
            bind(arm["pat"], val, e2)
            if arm.get("guard") is not None:
                g = ev(arm["guard"], e2, eq)
                if g == {False}:
                    continue
                out |= ev(arm["body"], e2, eq, leaf)
                if g == {True} and pat_certain(arm, val):
                    break
                continue
            out |= ev(arm["body"], e2, eq, leaf)
        return out or {None}
    if k == "if":
        c = ev(n.get("cond"), env, eq)
        out = set()
        for x in c:
            if is_ret(x):
                out.add(x)
                continue
            if x not in (True, False):
                x = None
            if x is True or x is None:
                out |= ev(n.get("then"), env, eq, leaf)
            if x is False or x is None:
                out |= ev(n.get("else"), env, eq, leaf) if n.get("else") is not None else {UNIT}
        return out
    if k == "letexpr":
        val = value_of(n.get("e"), env)
        from core import pat_match
        r = pat_match(n["pat"], val)
        return {True} if r == YES else {False} if r == NO else {None}
    return {leaf(n)} if leaf else {None}


def ev_fn(th, env, eq):
    """outcomes of a whole function body: explicit returns and the tail value merged"""
    return {x[1] if is_ret(x) else x for x in ev(th, env, eq)}


def pat_certain(arm, val):
    from core import pat_match
    return pat_match(arm["pat"], val) == YES


def table(ck, facts, R, which=("stale", "diverge")):
    ck.rule(R, "K1 by symbolic evaluation: SolverStuff::reached_fixed_point(old, current) is true exactly when old == current or current is "
               "ambiguous, on every abstract input (Err | Unique | Ambig)^2 x (equal | different); a row the evaluator cannot interpret is "
               "`unclassified` and fails")
    key = [k for k in facts.bodies("chalk_recursive") if k.endswith("::reached_fixed_point") and "SolverStuff" in k and "{" not in k]
    if not key:
        ck.violation(R, "missing-anchor:reached_fixed_point", "", "function not found")
        return
    b = facts.body(key[0])
    th = user_block(facts.thir(key[0]))
    # the two answers are the 2nd and 3rd parameter (after &self), whatever they are called
    pnames = [p.get("n") if isinstance(p, dict) else None for p in (b.d.get("thir_params") or [])]
    pnames = [x for x in pnames if x and x != "self"][-2:]
    if len(pnames) != 2:
        pnames = ["old_answer", "current_answer"]
    n = 0
    for ko, vo in KINDS.items():
        for kc, vc in KINDS.items():
            # Err carries no data (NoSolution is a unit struct): two Err answers are always equal
            for equal in ((True,) if ko == kc == "Err" else (True, False) if ko == kc else (False,)):
                env = {pnames[0]: vo, pnames[1]: vc}
                res = ev_fn(th, env, {"equal": equal, "names": tuple(pnames)})
                want = equal or kc == "Ambig"
                inst = "reached_fixed_point:(%s,%s,%s)" % (ko, kc, "equal" if equal else "different")
                n += 1
                if res == {want}:
                    ck.ok(R, inst, str(want))
                elif None in res:
                    ck.violation(R, inst + ":unclassified", b.where(), "the evaluator cannot interpret the function on this input (result set %s); "
                                 "checker limitation or an unusual construct" % sorted(map(str, res)))
                elif want is False and "stale" in which:
                    ck.violation(R, inst, b.where(), "returns true although the answer changed to a different definite answer: the iteration "
                                 "stops on a provisional value; goals solved under the stale assumption are kept (and cached)")
                elif want is True and "diverge" in which:
                    ck.violation(R, inst, b.where(), "returns false although %s: the fixed-point loop may not terminate / does extra rounds"
                                 % ("the answers are equal" if equal else "the current answer is ambiguous"))
                else:
                    ck.ok(R, inst, "not this property's clause")
    ck.floor(R, "reached_fixed_point.rows", n, 11)



def loop_exits(ck, facts, R):
    """Shared by C09 / C01 / C04 / C05 / C10: the cycle-head iteration of the recursive solver."""
    from core import trace_is_call
    ck.rule(R, "K3: RecursiveContext::solve_new_subgoal returns only through the false edge of read_and_reset_cycle_flag (nothing depended on "
               "the provisional answer) or the true edge of reached_fixed_point, and rolls the search graph back (rollback_to) before it "
               "iterates again.  Any other exit - out of fuel, an iteration bound, an `is trivially true` shortcut - keeps an answer that "
               "members of the cycle computed against a provisional value (C01/C04/C05/C10); no exit on Ambiguous may not terminate (C09)")
    b = need_body(ck, facts, R, "chalk_recursive::fixed_point::RecursiveContext::solve_new_subgoal")
    if not b:
        return
    cfg = b.cfg
    e1 = cfg.bool_edges(trace_is_call("read_and_reset_cycle_flag"), False)
    e2 = cfg.bool_edges(trace_is_call("reached_fixed_point"), True)
    exits = e1 + e2
    rets = cfg.return_blocks()
    ok = bool(e1) and bool(e2) and all(cfg.must_pass_edges(r, exits) for r in rets)
    if ok:
        ck.ok(R, "solve_new_subgoal:two-exits")
    else:
        ck.violation(R, "solve_new_subgoal:two-exits", b.where(), "the iteration loop must be left only when no cycle was flagged or a fixed point was reached")
    rb = cfg.call_blocks("SearchGraph::rollback_to")
    it = cfg.call_blocks("solve_iteration")
    again = cfg.bool_edges(trace_is_call("reached_fixed_point"), False)
    ok2 = bool(rb) and bool(it) and bool(again) and all(it[0] not in cfg.reachable(e[1], (), False, stop=set(rb)) - set(rb) for e in again)
    if ok2:
        ck.ok(R, "solve_new_subgoal:re-iteration-rolls-back")
    else:
        ck.violation(R, "solve_new_subgoal:re-iteration-rolls-back", b.where(), "each new iteration must start from a search graph rolled back to dfn+1")
