"""reached_fixed_point as a decision table, by symbolic evaluation of its THIR.

The recursive solver re-runs a cycle head until `reached_fixed_point(old, current)`.  Spec (from the comment in solve_new_subgoal and the
`multiple_ambiguous_cycles` note):   true  <=>  old == current  ||  current is Ambiguous.
  * true for a *changed definite* answer stops the iteration on a provisional value (C01/C05: goals solved under the stale assumption
    are kept and cached);
  * false for an Ambiguous current answer may iterate forever (C09).
The function is evaluated on every abstract input (kind of old) x (kind of current) x (equal?) - no shape of the source is assumed:
`||`, `&&`, `!`, `==`, `is_ambig()`, `is_unique()`, `is_ok()/is_err()`, `match` / `matches!` / `if let` on the two arguments are interpreted,
anything else makes the row `unclassified`, which fails closed."""
from core import select_arms, V, T, ANY, YES, NO, MAYBE, peel, callee_matches, var_name
from kit import need_body, user_block

KINDS = {"Err": V("Err"), "Unique": V("Ok", **{"0": V("Unique")}), "Ambig": V("Ok", **{"0": V("Ambig")})}


def bind(p, val, env):
    """collect bindings of pattern p matched against abstract value val"""
    if not isinstance(p, dict):
        return
    k = p.get("k")
    if k == "bind":
        env[p.get("n")] = val
        if p.get("sub"):
            bind(p["sub"], val, env)
    elif k in ("variant", "leaf"):
        for idx, name, sp in p.get("sub", []):
            fv = ANY
            if val and val[0] == "variant":
                fv = val[2].get(name, val[2].get(str(idx), ANY))
            elif val and val[0] == "tuple":
                fv = val[1][idx] if idx < len(val[1]) else ANY
            bind(sp, fv, env)
    elif k == "or":
        for x in p.get("pats", []):
            bind(x, val, env)
    elif k in ("deref", "guardpat") and p.get("sub"):
        bind(p["sub"], val, env)


def value_of(n, env):
    n = peel(n)
    if not isinstance(n, dict):
        return ANY
    if n.get("k") == "var":
        return env.get(n.get("n"), ANY)
    if n.get("k") == "tuple":
        return T(*[value_of(x, env) for x in n.get("es", n.get("args", []))])
    return ANY


def ev(n, env, eq):
    """-> set of True / False / None"""
    n = peel(n)
    if not isinstance(n, dict):
        return {None}
    k = n.get("k")
    if k == "block":
        if n.get("stmts"):
            # `let` statements are not interpreted
            for st in n["stmts"]:
                if st.get("k") not in ("let",):
                    return {None}
                return {None}
        return ev(n.get("expr"), env, eq)
    if k == "lit":
        v = str(n.get("v"))
        return {True} if "true" in v else {False} if "false" in v else {None}
    if k == "un" and n.get("op") == "Not":
        return {None if x is None else (not x) for x in ev(n["e"], env, eq)}
    if k == "logic":
        l, r = ev(n["l"], env, eq), ev(n["r"], env, eq)
        out = set()
        for a in l:
            if n["op"] == "Or":
                if a is True:
                    out.add(True)
                elif a is False:
                    out |= r
                else:
                    out |= {True} if r == {True} else {None}
            else:
                if a is False:
                    out.add(False)
                elif a is True:
                    out |= r
                else:
                    out |= {False} if r == {False} else {None}
        return out
    ops = None
    if k == "bin" and n.get("op") in ("Eq", "Ne"):
        ops, neg = [n["l"], n["r"]], n["op"] == "Ne"
    elif k == "call" and callee_matches(n, ("PartialEq::eq", "PartialEq::ne")):
        ops, neg = n["args"][:2], callee_matches(n, "PartialEq::ne")
    if ops is not None:
        names = {var_name(peel(o)) for o in ops}
        if names == {"old_answer", "current_answer"} or names == set(eq["names"]):
            return {eq["equal"] != neg}
        return {None}
    if k == "call":
        fn = str(n.get("fn", "")).split("::")[-1]
        args = n.get("args", [])
        if fn in ("is_ambig", "is_unique", "is_ok", "is_err") and args:
            v = value_of(args[0], env)
            if v == ANY or v[0] != "variant":
                return {None}
            name = v[1]
            inner = v[2].get("0") if name == "Ok" else None
            if fn == "is_ok":
                return {name == "Ok"}
            if fn == "is_err":
                return {name == "Err"}
            sol = inner[1] if (name == "Ok" and inner and inner != ANY) else (name if name in ("Unique", "Ambig") else None)
            if sol is None:
                return {None}
            return {sol == ("Ambig" if fn == "is_ambig" else "Unique")}
        return {None}
    if k == "match":
        val = value_of(n.get("scrut"), env)
        arms = select_arms(n, val)
        if not arms:
            return {None}
        out = set()
        for i, cert in arms:
            arm = n["arms"][i]
            e2 = dict(env)
            bind(arm["pat"], val, e2)
            if arm.get("guard") is not None:
                g = ev(arm["guard"], e2, eq)
                if g == {False}:
                    continue
                out |= ev(arm["body"], e2, eq)
                if g == {True} and pat_certain(arm, val):
                    break
                continue
            out |= ev(arm["body"], e2, eq)
        return out or {None}
    if k == "if":
        c = ev(n.get("cond"), env, eq)
        out = set()
        for x in c:
            if x is True or x is None:
                out |= ev(n.get("then"), env, eq)
            if x is False or x is None:
                out |= ev(n.get("else"), env, eq) if n.get("else") is not None else {None}
        return out
    if k == "letexpr":
        val = value_of(n.get("e"), env)
        from core import pat_match
        r = pat_match(n["pat"], val)
        return {True} if r == YES else {False} if r == NO else {None}
    return {None}


def pat_certain(arm, val):
    from core import pat_match
    return pat_match(arm["pat"], val) == YES


def table(ck, facts, R, which=("stale", "diverge")):
    ck.rule(R, "K1 by symbolic evaluation: SolverStuff::reached_fixed_point(old, current) is true exactly when old == current or current is "
               "ambiguous, on every abstract input (Err | Unique | Ambig)^2 x (equal | different); a row the evaluator cannot interpret is "
               "`unclassified` and fails")
    key = [k for k in facts.bodies("chalk_recursive") if k.endswith("::reached_fixed_point") and "SolverStuff" in k and "{" not in k]
    if not key:
        ck.violation(R, "missing-anchor:reached_fixed_point", "", "function not found")
        return
    b = facts.body(key[0])
    th = user_block(facts.thir(key[0]))
    params = [p for p in (b.d.get("params") or [])]
    n = 0
    for ko, vo in KINDS.items():
        for kc, vc in KINDS.items():
            # Err carries no data (NoSolution is a unit struct): two Err answers are always equal
            for equal in ((True,) if ko == kc == "Err" else (True, False) if ko == kc else (False,)):
                env = {"old_answer": vo, "current_answer": vc}
                res = ev(th, env, {"equal": equal, "names": ("old_answer", "current_answer")})
                want = equal or kc == "Ambig"
                inst = "reached_fixed_point:(%s,%s,%s)" % (ko, kc, "equal" if equal else "different")
                n += 1
                if res == {want}:
                    ck.ok(R, inst, str(want))
                elif None in res:
                    ck.violation(R, inst + ":unclassified", b.where(), "the evaluator cannot interpret the function on this input (result set %s); "
                                 "checker limitation or an unusual construct" % sorted(map(str, res)))
                elif want is False and "stale" in which:
                    ck.violation(R, inst, b.where(), "returns true although the answer changed to a different definite answer: the iteration "
                                 "stops on a provisional value; goals solved under the stale assumption are kept (and cached)")
                elif want is True and "diverge" in which:
                    ck.violation(R, inst, b.where(), "returns false although %s: the fixed-point loop may not terminate / does extra rounds"
                                 % ("the answers are equal" if equal else "the current answer is ambiguous"))
                else:
                    ck.ok(R, inst, "not this property's clause")
    ck.floor(R, "reached_fixed_point.rows", n, 11)
