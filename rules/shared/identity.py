"""Shared by C01 / C03 / C17: the solvers' "this answer is the trivial one" predicates.

Several shortcuts hang on them (the recursive solver stops trying clauses and lets a trivial solution absorb every other candidate;
the SLG engine discards the remaining strands of a table; the aggregator stops pulling answers), and all of them are only sound if
"trivial" means *the identity*: argument i is bound variable i.  `[?0 := ^0.0, ?1 := ^0.0]` maps every variable to a variable and
still says X = Y."""
from core import walk, calls, peel, enum_matches, callee_matches, expr_vars, pat_bindings
from kit import need_body, thir_all, has_call, result_expr, short

PREDICATES = (
    "chalk_solve::solve::Solution::is_trivial_and_always_true",
    "chalk_ir::UCanonical::is_trivial_substitution",
    "chalk_engine::slg::aggregate::is_trivial",
    "chalk_ir::Substitution::is_identity_subst",
)
DEFINITION = "chalk_ir::Substitution::is_identity_subst"


def _usize_bindings(pat, out):
    if isinstance(pat, dict):
        if pat.get("k") == "bind" and pat.get("ty") == "usize" and pat.get("n"):
            out.add(pat["n"])
        for v in pat.values():
            _usize_bindings(v, out)
    elif isinstance(pat, list):
        for v in pat:
            _usize_bindings(v, out)


def identity_predicates(ck, facts, R):
    ck.rule(R, "K1 (leaf outcomes of the per-argument test): each of the solvers' `trivial answer` predicates - "
               "Solution::is_trivial_and_always_true, UCanonical::is_trivial_substitution, slg::aggregate::is_trivial, "
               "Substitution::is_identity_subst - either delegates to Substitution::is_identity_subst or decides every argument by "
               "comparing its bound variable with the argument's OWN POSITION (the index of enumerate / zip): every leaf of its match "
               "on GenericArgData is `false` or an equality that involves the position.  `is some bound variable` is not enough: "
               "`[?0 := ^0.0, ?1 := ^0.0]` equates two variables of the goal, and the shortcuts taken for a trivial answer (stop trying "
               "clauses, absorb other candidates, drop the remaining strands) would turn it into a wrong Unique or a lost answer")
    n = 0
    for key in PREDICATES:
        b = need_body(ck, facts, R, key)
        if not b:
            continue
        n += 1
        roots = thir_all(facts, b)
        inst = short(key)
        if key != DEFINITION and any(has_call(t, "is_identity_subst") for t in roots):
            ck.ok(R, inst + ":delegates-to-is_identity_subst")
            continue
        # variables that carry the position
        idx = set()
        for c in [b] + list(facts.closures_of(b)):
            _usize_bindings(c.d.get("thir_params"), idx)
        changed = True
        while changed:
            changed = False
            for t in roots:
                for st in walk(t):
                    if st.get("k") == "let" and st.get("init") is not None and expr_vars(st["init"]) & idx:
                        for nm, _ in pat_bindings(st["pat"]):
                            if nm not in idx:
                                idx.add(nm)
                                changed = True

        def leaf(e, depth=0):
            """-> set of {"false", "pos", "other"}"""
            e = peel(e) if isinstance(e, dict) else e
            if not isinstance(e, dict) or depth > 6:
                return {"other"}
            k = e.get("k")
            if k == "block":
                return leaf(result_expr(e), depth + 1)
            if k == "lit":
                return {"false"} if "false" in str(e.get("v")) else {"other"}
            if k == "match":
                out = set()
                for a in e.get("arms", []):
                    out |= leaf(a["body"], depth + 1)
                return out
            if k == "if":
                out = leaf(e.get("then"), depth + 1)
                return out | (leaf(e["else"], depth + 1) if e.get("else") is not None else {"other"})
            if k == "logic" and str(e.get("op", "")).lower().startswith("and"):
                parts = [leaf(e.get("l"), depth + 1), leaf(e.get("r"), depth + 1)]
                if any(p == {"pos"} for p in parts):
                    return {"pos"}
                return set().union(*parts)
            if k == "bin" and e.get("op") == "Eq":
                return {"pos"} if (expr_vars(e) & idx) else {"other"}
            if k == "call":
                if callee_matches(e, "PartialEq::eq"):
                    return {"pos"} if (expr_vars(e) & idx) else {"other"}
                res = e.get("res") or ""
                if "{Closure#" in res and callee_matches(e, ("Fn::call", "FnMut::call_mut", "FnOnce::call_once")):
                    cb = facts.body(res)
                    if cb is not None and cb.thir is not None:
                        return leaf(cb.thir, depth + 1)
            return {"other"}
        # the per-argument test = the body (function or closure) that looks at the argument's GenericArgData; what it RETURNS is
        # decided by leaves that are `false` or an equality with the position - wherever the match on the kind sits inside it
        tests = [t for t in roots if enum_matches(t, "chalk_ir::GenericArgData")]
        if not tests:
            ck.violation(R, inst + ":per-argument-test", b.where(), "no match on GenericArgData and no call to is_identity_subst")
            continue
        allv = set()
        for t in tests:
            allv |= leaf(t)
        if "other" in allv or "pos" not in allv:
            ck.violation(R, inst + ":every-leaf-compares-with-own-position", b.where(),
                         "an argument counts as trivial without its bound variable being compared with the argument's position")
        else:
            ck.ok(R, inst + ":every-leaf-compares-with-own-position", "position variables: %s" % sorted(idx))
    ck.floor(R, "trivial-answer-predicates", n, 4)
