"""Rules shared by several properties: hand-written `Zipper::zip_tys` tables other than the unifier's.

ANSWER-SUBST   `AnswerSubstitutor` (chalk-engine/src/slg/resolvent.rs) is the only place where the SLG engine carries the answer of a
               subgoal table back into the strand that asked for it.  For every pair of equal rigid constructors its zip_tys arm must
               relate *every* term-carrying component bound on both sides (an ignored component keeps whatever the pending goal had there:
               the value the subgoal found is lost, and the recursive solver - which unifies the whole answer substitution - disagrees);
               two different rigid constructors must end in Err / panic (never Ok)."""
from core import select_arms, V, T, walk, calls, callee_matches, expr_vars
from kit import need_body, has_call
from props.c15 import pair_match
from props.c18 import is_err, side_vars

AS = "<chalk_engine::slg::resolvent::AnswerSubstitutor as chalk_ir::zip::Zipper>"


def same_ctor_arms(ck, R, facts, body, m, flex, tag, mismatch_ok=None):
    """K1/K2 over a `match (a.kind(), b.kind())`: (K,K) arms relate every bound component on both sides; (K,K') arms fail."""
    variants = facts.variants("chalk_ir::TyKind")
    n = 0
    for ka in variants:
        for kb in variants:
            if ka in flex or kb in flex:
                continue
            arms = select_arms(m, T(V(ka), V(kb)))
            if not arms:
                ck.violation(R, "%s:(%s,%s)" % (tag, ka, kb), body.where(), "no arm")
                continue
            arm = m["arms"][arms[0][0]]
            n += 1
            inst = "%s:(%s,%s)" % (tag, ka, kb)
            if ka != kb:
                if is_err(arm["body"]) or (mismatch_ok and mismatch_ok(arm["body"])):
                    ck.ok(R, inst, "fails")
                else:
                    ck.violation(R, inst, body.where(arm["ln"]), "different rigid constructors must not be accepted")
                continue
            sv = side_vars(arm["pat"])
            used = set()
            for x in walk(arm["body"]):
                if x.get("k") == "call" and ((x.get("fn") or "").endswith(("zip_with", "zip_substs", "const_eq", "assert_matching_vars")) or
                                             callee_matches(x, ("PartialEq::ne", "PartialEq::eq"))):
                    used |= expr_vars(x)
                if x.get("k") == "bin" and x["op"] in ("Ne", "Eq"):
                    used |= expr_vars(x)
                if x.get("k") == "match":
                    used |= expr_vars(x["scrut"])
            missing = [v for v in sv if v not in used]
            per_idx = {}
            for v, (s, i) in sv.items():
                per_idx.setdefault(i, set()).add(s)
            flds = [f for f in facts.adt("chalk_ir::TyKind")["variants"] if f["n"] == ka][0]["fields"]
            if missing:
                ck.violation(R, inst, body.where(arm["ln"]), "component(s) %s are bound but never related" % missing)
            elif any(len(s) != 2 for s in per_idx.values()):
                ck.violation(R, inst, body.where(arm["ln"]), "a component is bound on one side only")
            elif flds and len(per_idx) < len(flds):
                ck.violation(R, inst, body.where(arm["ln"]), "only %d of the %d fields of TyKind::%s are related (the others are ignored with `_`)"
                             % (len(per_idx), len(flds), ka))
            else:
                ck.ok(R, inst, "all %d component(s) related" % len(flds))
    return n


def answer_subst(ck, facts, R):
    ck.rule(R, "K1/K2: AnswerSubstitutor::zip_tys (the only path by which an SLG subgoal's answer reaches the strand that selected it) relates "
               "every component of every equal rigid constructor pair and fails on different rigid constructors; zip_lifetimes / zip_consts "
               "do the same for their kinds; free answer variables go through unify_free_answer_var")
    b = need_body(ck, facts, R, AS + "::zip_tys")
    if b:
        ms = pair_match(facts.thir(b.key), "chalk_ir::TyKind")
        if len(ms) != 1:
            ck.violation(R, "zip_tys:table", b.where(), "expected exactly one match on (answer.kind, pending.kind), found %d" % len(ms))
        else:
            def panics(n):
                return any(x.get("k") == "call" and str(x.get("fn", "")).startswith(("core::panicking", "std::rt::begin_panic")) for x in walk(n, False))
            n = same_ctor_arms(ck, R, facts, b, ms[0], {"InferenceVar", "BoundVar", "Error"}, "zip_tys", mismatch_ok=panics)
            ck.floor(R, "zip_tys.rigid-pairs", n, 400)
        if has_call(b.thir, "unify_free_answer_var") and has_call(b.thir, "normalize_ty_shallow"):
            ck.ok(R, "zip_tys:free-answer-var", "answer BoundVar -> unify_free_answer_var; pending var normalized first")
        else:
            ck.violation(R, "zip_tys:free-answer-var", b.where(), "a free variable of the answer must be unified with the pending goal's term")
    for fn, adt, flex in (("zip_lifetimes", "chalk_ir::LifetimeData", {"InferenceVar", "BoundVar", "Error", "Phantom"}),
                          ("zip_consts", "chalk_ir::ConstValue", {"InferenceVar", "BoundVar"})):
        b = need_body(ck, facts, R, AS + "::" + fn)
        if not b:
            continue
        if has_call(b.thir, "unify_free_answer_var"):
            ck.ok(R, fn + ":free-answer-var")
        else:
            ck.violation(R, fn + ":free-answer-var", b.where(), "a free variable of the answer must be unified with the pending goal's term")
        ms = pair_match(facts.thir(b.key), adt)
        if len(ms) != 1:
            ck.violation(R, fn + ":table", b.where(), "expected exactly one match on the pair of kinds, found %d" % len(ms))
            continue
        m = ms[0]
        for k in facts.variants(adt):
            if k in flex:
                continue
            arms = select_arms(m, T(V(k), V(k)))
            arm = m["arms"][arms[0][0]] if arms else None
            inst = "%s:(%s,%s)" % (fn, k, k)
            if arm is None:
                ck.violation(R, inst, b.where(), "no arm")
                continue
            sv = side_vars(arm["pat"])
            body_vars = expr_vars(arm["body"])
            missing = [v for v in sv if v not in body_vars]
            if missing:
                ck.violation(R, inst, b.where(arm["ln"]), "component(s) %s bound but ignored" % missing)
            else:
                ck.ok(R, inst)
