"""EVERY-CLAUSE: both engines try every candidate program clause of a domain goal.

SLG        Forest::build_table: for each clause of the filtered candidate list a strand is enqueued unless resolvent_clause fails
           (the clause head does not unify: audited skip); no break / return.
recursive  solve_from_clauses: for each clause a Fulfill is built and solved and the result combined; the only early exit is the
           `cur_solution.is_trivial_and_always_true()` break (nothing can generalise the trivially true solution further)."""
from core import peel, callee_matches, expr_vars, enum_matches, select_arms, V
from kit import need_body, has_call, for_loops, loop_total


def every_clause(ck, facts, R):
    ck.rule(R, "K9 loop-total: Forest::build_table enqueues a strand for every candidate clause whose head resolves with the goal (skip "
               "only when resolvent_clause fails) and SolveIterationHelpers::solve_from_clauses solves every candidate clause (early "
               "exit only once the combined solution is trivially true); neither loop has another break / return / continue")
    key = "chalk_engine::logic::<impl chalk_engine::forest::Forest>::build_table"
    b = facts.body(key) or facts.body("chalk_engine::forest::Forest::build_table")
    if b is None:
        ck.violation(R, "missing-anchor:build_table", "", "Forest::build_table not found")
    else:
        th = facts.thir(b.key)
        ls = [x for x in for_loops(th) if "clauses" in expr_vars(x[1])]
        ck.floor(R, "build_table.for clause in clauses", len(ls), 1)

        def excused(n):
            c = peel(n["cond"])
            if c.get("k") == "letexpr" and has_call(c, "resolvent_clause") and c["pat"].get("v") == "Ok":
                return "else"
            return None
        for l, it, pat, body in ls:
            loop_total(ck, R, "build_table:strand-for-every-clause", b.where(l.get("ln")), body,
                       lambda n: n.get("k") == "call" and callee_matches(n, "Table::enqueue_strand"), excused, what="a candidate clause")
    key = "chalk_recursive::solve::SolveIterationHelpers::solve_from_clauses"
    b = need_body(ck, facts, R, key)
    if b:
        th = facts.thir(key)
        ls = [x for x in for_loops(th) if "clauses" in expr_vars(x[1])]
        ck.floor(R, "solve_from_clauses.for program_clause in clauses", len(ls), 1)

        def excused2(n):
            # `if let Some((cur_solution, _)) = &cur_solution { if cur_solution.is_trivial_and_always_true(..) { break } }`
            c = peel(n["cond"])
            if c.get("k") == "call" and callee_matches(c, "is_trivial_and_always_true"):
                return "then-exit"
            return None
        for l, it, pat, body in ls:
            loop_total(ck, R, "solve_from_clauses:every-clause-solved", b.where(l.get("ln")), body,
                       lambda n: n.get("k") == "call" and callee_matches(n, ("Fulfill::new_with_clause", "new_with_clause")), excused2,
                       what="a candidate clause")


def trivial_subst_kinds(ck, facts, R):
    """Fulfill applies the definite substitution of a sub-obligation's answer unless is_trivial_canonical_subst says it is the
    identity; an arm of that function that answers a constant for one kind of generic argument either loses bindings of that kind
    (constant true: the obligation is dropped as solved with its answer never applied - the recursive solver then reports less than
    the SLG solver) or spins the progress loop (constant false)."""
    ck.rule(R, "K1: is_trivial_canonical_subst decides per generic argument by looking at the argument's bound variable, for all three "
               "kinds (Ty, Lifetime, Const); no arm is a constant")
    key = "chalk_recursive::fulfill::is_trivial_canonical_subst"
    tb = need_body(ck, facts, R, key)
    if not tb:
        return
    ms = enum_matches(facts.thir(key), "chalk_ir::GenericArgData")
    if len(ms) != 1:
        ck.violation(R, "is_trivial_canonical_subst:match", tb.where(), "expected one match on GenericArgData, found %d" % len(ms))
        return
    for v in facts.variants("chalk_ir::GenericArgData"):
        arms = select_arms(ms[0], V(v))
        arm = ms[0]["arms"][arms[0][0]]
        if has_call(arm["body"], "bound_var"):
            ck.ok(R, "is_trivial_canonical_subst:%s" % v, "is_trivial(x.bound_var())")
        else:
            ck.violation(R, "is_trivial_canonical_subst:%s" % v, tb.where(arm["ln"]),
                         "the %s arm does not look at the argument's bound variable: bindings of this kind found by a sub-obligation are "
                         "either never applied or always re-applied" % v)


def clauses_no_drop(ck, facts, R):
    """Shared by C06 / C07 / C20 / C21: the lowering of datums to program clauses (ToProgramClauses impls and the helper functions of
    chalk_solve::clauses::program_clauses) mentions every where clause / parameter / bound of the datum: no element-dropping adaptor."""
    from kit import adaptor_inventory
    ck.rule(R, "K6-style inventory (expected count 0, positive control on every run): the functions of chalk_solve::clauses::program_clauses "
               "- every ToProgramClauses::to_program_clauses and its helpers - apply no iterator adaptor that can drop or pick elements "
               "(filter, filter_map, skip, take, find, last, ..) to the where clauses, parameters or bounds of the datum they lower: a "
               "dropped where clause disappears from the WF / implied-bound / normalization / orphan rule built from it")
    n = len([k for k in facts.bodies("chalk_solve") if "program_clauses::ToProgramClauses" in k and k.endswith("::to_program_clauses")])
    ck.floor(R, "ToProgramClauses-impls", n, 7)
    adaptor_inventory(ck, R, facts, "chalk_solve", lambda k: "::program_clauses::" in k, {},
                      "the clause built here would not mention every element of the datum")
    ck.ok(R, "program_clauses:no-element-dropping-adaptor", "%d to_program_clauses implementations examined" % n)
