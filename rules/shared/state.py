"""Persistent solver state: which fields of the two solvers can hold goal-dependent results.

RESULT-STORES  every field reachable from SLGSolver / RecursiveSolver whose type can hold a solver result (a Solution, an Answer, a
               substitution, a goal-keyed map ..) is in the audited table below, each with the argument why a later query may rely on
               it (C10: independent of history; C11: never written from an interrupted computation).  A *new* result-holding field - a
               memo of aggregated solutions, a second cache - is persistent state nobody has argued about and fails the check."""
import re

ROOTS = ["chalk_engine::solve::SLGSolver", "chalk_recursive::recursive::RecursiveSolver"]
RESULT_TY = re.compile(r"\b(Solution|Answer|AnswerSubst|Substitution|ConstrainedSubst|Guidance|Goal|UCanonical|Canonical|Fallible|Result)\b|^[KV]$|<[KV][,>]|, [KV][,>]")

AUDITED = {
    "chalk_engine::tables::Tables.table_indices": "key -> table index; written only by Tables::insert after build_table returned (C10.TABLE-INSERT)",
    "chalk_engine::tables::Tables.tables": "the tables themselves",
    "chalk_engine::table::Table.table_goal": "the goal the table answers; immutable after Table::new",
    "chalk_engine::table::Table.answers": "written only by push_answer behind the answers_hash vacancy test; an interrupted solve returns QuantumExceeded before anything is tabled (C11.NO-TAINTED-CACHE)",
    "chalk_engine::table::Table.answers_hash": "dedup set for answers; same writer",
    "chalk_engine::table::Table.strands": "pending derivations; re-enqueued on interruption by Drop for SolveState / unwind_stack",
    "chalk_engine::strand::Strand.ex_clause": "part of a pending derivation",
    "chalk_engine::ExClause.subst": "part of a pending derivation",
    "chalk_engine::ExClause.constraints": "part of a pending derivation",
    "chalk_engine::ExClause.subgoals": "part of a pending derivation",
    "chalk_engine::ExClause.delayed_subgoals": "part of a pending derivation",
    "chalk_engine::ExClause.floundered_subgoals": "part of a pending derivation",
    "chalk_engine::FlounderedSubgoal.floundered_literal": "part of a pending derivation",
    "chalk_engine::Literal.0": "part of a pending derivation",
    "chalk_engine::Answer.subst": "a tabled answer",
    "chalk_recursive::recursive::RecursiveSolver.ctx": "the recursive context",
    "chalk_recursive::fixed_point::RecursiveContext.search_graph": "in-progress results; emptied at every root entry and after every SCC",
    "chalk_recursive::fixed_point::RecursiveContext.cache": "final results; written only by move_to_cache (C10.CACHE-WRITER); known finding F4 for interruption",
    "chalk_recursive::fixed_point::cache::Cache.data": "see RecursiveContext.cache",
    "chalk_recursive::fixed_point::cache::CacheData.cache": "see RecursiveContext.cache",
    "chalk_recursive::fixed_point::search_graph::SearchGraph.indices": "goal -> dfn of in-progress goals",
    "chalk_recursive::fixed_point::search_graph::SearchGraph.nodes": "in-progress goals",
    "chalk_recursive::fixed_point::search_graph::Node.goal": "in-progress goal",
    "chalk_recursive::fixed_point::search_graph::Node.solution": "provisional solution of an in-progress goal",
}


def persistent_fields(facts):
    seen, todo, out = set(), list(ROOTS), []
    while todo:
        k = todo.pop()
        if k in seen:
            continue
        a = facts.adt(k)
        if not a:
            continue
        seen.add(k)
        for v in a.get("variants", []):
            for fl in v["fields"]:
                ty = fl.get("ty") or ""
                out.append((k, fl.get("n"), ty))
                for m in re.findall(r"(chalk_(?:engine|recursive)(?:::\w+)+)", ty):
                    todo.append(m)
    return out, seen


def result_stores(ck, facts, R):
    ck.rule(R, "K4 (type tables): every field reachable from SLGSolver / RecursiveSolver whose type can hold a goal-dependent result "
               "(Solution, Answer, substitution, goal-keyed map, generic K/V) is one of the audited result stores; each of those has a "
               "who-may-write / guard rule of its own.  An unaudited result-holding field is persistent state that an interrupted or "
               "earlier solve can leave behind for later queries")
    fields, types = persistent_fields(facts)
    ck.count("persistent-state-types", len(types))
    ck.floor(R, "persistent-fields", len(fields), 45)
    n = 0
    for adt, fld, ty in fields:
        key = "%s.%s" % (adt, fld)
        if not RESULT_TY.search(ty):
            continue
        n += 1
        if key in AUDITED:
            ck.ok(R, key, AUDITED[key][:120])
        else:
            a = facts.adt(adt)
            ck.violation(R, "unaudited-result-store:%s" % key, "%s:%s" % (a.get("file"), a.get("ln")),
                         "field `%s: %s` keeps solver results inside the solver across queries, but no rule says who may write it or that an "
                         "interrupted / earlier solve cannot leave a partial value in it" % (fld, ty[:120]))
    ck.floor(R, "result-holding-fields", n, 15)


def any_future_answer(ck, facts, R):
    """Forest::any_future_answer is what lets make_solution stop pulling answers and report definite guidance; it must look at *every*
    answer already tabled from the cursor on (an earlier query may have enumerated the table completely) and at every pending strand."""
    from kit import need_body, has_call
    ck.rule(R, "K3: Forest::any_future_answer walks the cached answers in a loop - Table::answer(answer_index) is evaluated again after "
               "answer_index.increment() until it returns None - applying `test` to each, and then applies `test` to every pending strand "
               "(strands().any(..)); stopping after the first cached answer is only right on a table nobody enumerated before")
    b = need_body(ck, facts, R, "chalk_engine::forest::Forest::any_future_answer")
    if b is None:
        return
    cfg = b.cfg
    ans = cfg.call_blocks("Table::answer")
    inc = cfg.call_blocks("AnswerIndex::increment")
    ck.floor(R, "any_future_answer.Table::answer", len(ans), 1)
    if ans:
        if inc and all(any(a in cfg.reachable(cfg.blocks[i]["t"].get("t"), (), False) for a in ans) for i in inc):
            ck.ok(R, "any_future_answer:all-cached-answers", "answer(idx) re-evaluated after idx.increment()")
        else:
            ck.violation(R, "any_future_answer:all-cached-answers", b.where(),
                         "only the cached answer at the cursor is examined: answers tabled beyond it (by an earlier query on the same forest) "
                         "are ignored, so the guidance may be declared final although a cached answer invalidates it")
    if has_call(b.thir, "strands") and (has_call(b.thir, "Iterator::any") or has_call(b.thir, "any")):
        ck.ok(R, "any_future_answer:all-pending-strands")
    else:
        ck.violation(R, "any_future_answer:all-pending-strands", b.where(), "every pending strand may still produce an answer and must be tested")
