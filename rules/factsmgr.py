"""Fact extraction management (E1 front-end).

ensure_facts(repo, mode) makes sure the fact files under the cache directory
correspond to the *current working tree* of `repo`:

* a digest is taken over every tracked or untracked-but-not-ignored source file
  (*.rs, *.lalrpop, Cargo.toml, Cargo.lock) plus the extractor binary and mode;
* when the digest differs from the one stored with the facts, the workspace
  members' cargo fingerprints are deleted (so cargo re-runs the wrapper for
  every workspace crate; third-party artefacts are reused) and
  `cargo +nightly check --offline` is run with the extractor as
  RUSTC_WORKSPACE_WRAPPER;
* the fact files of all required crates are asserted to exist and to be newer
  than the start of the run (fail closed);
* the digest is recomputed afterwards to prove that extraction did not modify
  the tree.
"""
import fcntl
import hashlib
import json
import os
import shutil
import subprocess
import sys
import time

VERIF = os.path.dirname(os.path.dirname(os.path.abspath(__file__)))
CACHE = os.environ.get("CHALK_VERIF_CACHE", os.path.join(VERIF, ".cache"))
DRIVER_DIR = os.path.join(VERIF, "extract")
DRIVER = os.path.join(DRIVER_DIR, "target", "release", "chalk-facts")

LIB_CRATES = ["chalk_ir", "chalk_solve", "chalk_engine", "chalk_recursive",
              "chalk_integration", "chalk_parse", "chalk_derive", "chalk"]
TEST_CRATES = ["lib.test"]

SRC_EXT = (".rs", ".lalrpop")
SRC_NAMES = ("Cargo.toml", "Cargo.lock")


def _sysroot():
    return subprocess.check_output(["rustc", "+nightly", "--print", "sysroot"], text=True).strip()


def build_driver():
    env = dict(os.environ, CARGO_NET_OFFLINE="true")
    r = subprocess.run(["cargo", "+nightly", "build", "--release", "--offline"], cwd=DRIVER_DIR, env=env,
                       stdout=subprocess.PIPE, stderr=subprocess.STDOUT, text=True)
    if r.returncode != 0 or not os.path.exists(DRIVER):
        sys.stderr.write(r.stdout)
        raise SystemExit("extractor build failed")


def source_files(repo):
    out = subprocess.check_output(["git", "-C", repo, "ls-files", "-co", "--exclude-standard"], text=True)
    files = []
    for f in out.splitlines():
        if f.startswith("target/") or f.startswith("book/"):
            continue
        base = os.path.basename(f)
        if f.endswith(SRC_EXT) or base in SRC_NAMES:
            if os.path.isfile(os.path.join(repo, f)):
                files.append(f)
    return sorted(set(files))


def digest(repo, mode):
    h = hashlib.sha256()
    h.update(mode.encode())
    with open(DRIVER, "rb") as fh:
        h.update(hashlib.sha256(fh.read()).digest())
    for f in source_files(repo):
        h.update(f.encode())
        with open(os.path.join(repo, f), "rb") as fh:
            h.update(hashlib.sha256(fh.read()).digest())
    return h.hexdigest()


def facts_dir(repo, mode):
    tag = hashlib.sha256(os.path.abspath(repo).encode()).hexdigest()[:10]
    return os.path.join(CACHE, "facts-%s-%s" % (mode, tag))


def required(mode):
    return LIB_CRATES + (TEST_CRATES if mode == "all" else [])


def ensure_facts(repo="/repo", mode="libs", verbose=True):
    """mode: 'libs' (library + bin targets) or 'all' (--all-targets)."""
    os.makedirs(CACHE, exist_ok=True)
    if not os.path.exists(DRIVER):
        build_driver()
    fdir = facts_dir(repo, mode)
    lock = open(os.path.join(CACHE, "lock"), "w")
    fcntl.flock(lock, fcntl.LOCK_EX)
    try:
        dg = digest(repo, mode)
        stamp = os.path.join(fdir, "DIGEST")
        if os.path.exists(stamp) and open(stamp).read().strip() == dg and all(
                os.path.exists(os.path.join(fdir, c + ".json")) for c in required(mode)):
            return fdir, {"reused": True, "digest": dg, "extract_s": 0.0}
        # a 'libs' request can be served from fresh 'all' facts
        t0 = time.time()
        if os.path.isdir(fdir):
            shutil.rmtree(fdir)
        os.makedirs(fdir)
        target = os.path.join(CACHE, "target")
        fp = os.path.join(target, "debug", ".fingerprint")
        if os.path.isdir(fp):
            for d in os.listdir(fp):
                if d.startswith("chalk-") or d.startswith("chalk_"):
                    shutil.rmtree(os.path.join(fp, d), ignore_errors=True)
        env = dict(os.environ)
        env.update({
            "LD_LIBRARY_PATH": _sysroot() + "/lib",
            "CARGO_NET_OFFLINE": "true",
            "CHALK_FACTS_DIR": fdir,
            "RUSTFLAGS": "-Zmir-opt-level=0 -Awarnings -Zno-steal-thir",
            "RUSTC_WORKSPACE_WRAPPER": DRIVER,
            "CARGO_TARGET_DIR": target,
        })
        env.pop("RUSTC_WRAPPER", None)
        cmd = ["cargo", "+nightly", "check", "--offline", "--locked", "--workspace"]
        if mode == "all":
            cmd.append("--all-targets")
        r = subprocess.run(cmd, cwd=repo, env=env, stdout=subprocess.PIPE, stderr=subprocess.STDOUT, text=True)
        if r.returncode != 0:
            if verbose:
                sys.stderr.write(r.stdout[-6000:])
            raise SystemExit("EXTRACTION FAILED: /repo does not type-check under cargo +nightly check")
        missing = [c for c in required(mode) if not os.path.exists(os.path.join(fdir, c + ".json"))]
        if missing:
            raise SystemExit("EXTRACTION FAILED: no fact file for %s" % missing)
        dg2 = digest(repo, mode)
        if dg2 != dg:
            raise SystemExit("EXTRACTION FAILED: source tree changed during extraction")
        with open(stamp, "w") as fh:
            fh.write(dg)
        dt = time.time() - t0
        if verbose:
            sys.stderr.write("[facts] extracted %s (%s) in %.1fs\n" % (repo, mode, dt))
        return fdir, {"reused": False, "digest": dg, "extract_s": round(dt, 1)}
    finally:
        fcntl.flock(lock, fcntl.LOCK_UN)
        lock.close()


if __name__ == "__main__":
    mode = sys.argv[1] if len(sys.argv) > 1 else "libs"
    repo = sys.argv[2] if len(sys.argv) > 2 else "/repo"
    d, info = ensure_facts(repo, mode)
    print(d, json.dumps(info))
