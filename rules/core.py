"""E2 core: fact loading, THIR walking, MIR CFG / dominance / guard tracing,
pattern-matrix evaluation (K1), call graph and effect fixed points.

Everything here is a pure function of the fact files written by the extractor;
nothing from /repo is executed."""
import json
import os
import re
from collections import defaultdict, deque

TRACING_MARKERS = ("tracing::", "debug!", "trace!", "info!", "debug_span!", "instrument", "debug_heading!",
                   "$crate::event!", "$crate::span!", "warn!", "error!", "info_span!", "trace_span!")


def is_tracing(node):
    x = node.get("x") if isinstance(node, dict) else None
    return bool(x) and any(m in x for m in TRACING_MARKERS)


# --------------------------------------------------------------------- facts

_RULE_WORDS = None


def rule_words():
    """identifiers that occur in the rule sources (function names a rule anchors on)"""
    global _RULE_WORDS
    if _RULE_WORDS is None:
        here = os.path.dirname(os.path.abspath(__file__))
        w = set()
        for root, _d, files in os.walk(here):
            for f in files:
                if f.endswith(".py"):
                    try:
                        w |= set(re.findall(r"[A-Za-z_][A-Za-z0-9_]{2,}", open(os.path.join(root, f)).read()))
                    except OSError:
                        pass
        _RULE_WORDS = w
    return _RULE_WORDS


class Body:
    def __init__(self, d, crate):
        self.d = d
        self.crate = crate
        self.key = d["key"]
        self.file = d.get("file")
        self.ln = d.get("ln")
        self._cfg = None
        self.facts = None

    @property
    def thir(self):
        return self.d.get("thir")

    @property
    def mir(self):
        return self.d["mir"]

    @property
    def name(self):
        return self.d.get("name")

    @property
    def cfg(self):
        if self._cfg is None:
            self._cfg = Cfg(self)
        return self._cfg

    def where(self, ln=None):
        return "%s:%s" % (self.file, ln if ln is not None else self.ln)

    def __repr__(self):
        return "<Body %s>" % self.key


class Facts:
    def __init__(self, fdir):
        self.dir = fdir
        self._crates = {}
        self._bodies = {}

    def crate(self, name):
        if name not in self._crates:
            path = os.path.join(self.dir, name + ".json")
            if os.path.exists(path):
                with open(path) as fh:
                    d = json.load(fh)
            else:
                import gzip
                with gzip.open(path + ".gz", "rt") as fh:
                    d = json.load(fh)
            self._crates[name] = d
            idx = {}
            for b in d["bodies"]:
                bd = idx.setdefault(b["key"], Body(b, name))
                bd.facts = self
            self._bodies[name] = idx
            d["_adts"] = {a["key"]: a for a in d["adts"]}
        return self._crates[name]

    def has_crate(self, name):
        return os.path.exists(os.path.join(self.dir, name + ".json")) or os.path.exists(os.path.join(self.dir, name + ".json.gz"))

    def bodies(self, crate):
        self.crate(crate)
        return self._bodies[crate]

    def _crate_of_key(self, key):
        m = re.match(r"<?([A-Za-z_][A-Za-z0-9_]*)::", key)
        return m.group(1) if m else None

    def body(self, key, crate=None):
        """Exact lookup; returns None if absent."""
        cands = [crate] if crate else []
        if not crate:
            for m in re.finditer(r"(?:^|<| as )([A-Za-z_][A-Za-z0-9_]*)::", key):
                if m.group(1) not in cands:
                    cands.append(m.group(1))
        for c in cands:
            if c and self.has_crate(c):
                b = self.bodies(c).get(key)
                if b is not None:
                    return b
        return None

    def find(self, crate, suffix=None, regex=None):
        out = []
        for k, b in self.bodies(crate).items():
            if suffix is not None and not k.endswith(suffix):
                continue
            if regex is not None and not re.search(regex, k):
                continue
            out.append(b)
        return out

    WORKSPACE = ("chalk_ir", "chalk_solve", "chalk_engine", "chalk_recursive", "chalk_integration")

    def transparent_helpers(self):
        """{callee key: caller key} - functions the rules "see through": free functions / inherent methods of the workspace with exactly
        ONE call site in the whole workspace and whose name no rule mentions (an anchor of a rule is never dissolved into its caller).
        Extracting a few lines of a function into such a helper therefore does not change what a rule about that function sees."""
        if hasattr(self, "_transparent"):
            return self._transparent
        words = rule_words()
        sites = {}
        for cr in self.WORKSPACE:
            if not self.has_crate(cr):
                continue
            for k, b in self.bodies(cr).items():
                for blk in (b.d.get("mir") or {}).get("blocks", []):
                    t = blk["t"]
                    if t.get("k") != "call":
                        continue
                    # resolved callee, or a plain function path; an unresolved trait-method call may run any implementation
                    name = t.get("res") or (t.get("fn") if not t.get("trait") else None)
                    if name and self._crate_of_key(name) in self.WORKSPACE:
                        sites.setdefault(name, []).append(k)
        out = {}
        for callee, callers in sites.items():
            if len(callers) != 1 or " as " in callee or "{" in callee:
                continue
            hb = self.body(callee)
            if hb is None or hb.d.get("mir") is None or hb.thir is None:
                continue
            caller = callers[0].split("::{")[0]
            if caller == callee or self._crate_of_key(caller) != self._crate_of_key(callee):
                continue
            if callee.split("::")[-1] in words or is_tracing(hb.d):
                continue
            out[callee] = caller
        self._transparent = out
        return out

    def closures_of(self, body):
        """Closure bodies lexically nested in `body` (any depth)."""
        pre = body.key + "::{"
        return [b for k, b in self.bodies(body.crate).items() if k.startswith(pre)]

    def inline(self, node, depth=0, root=None, in_helper=False):
        """Copy of a THIR tree in which every closure expression carries the closure's own THIR under 'body', and every call to a
        transparent helper (transparent_helpers) carries the helper's THIR under 'inl' (its `return`s renamed `ireturn`: they leave
        the helper, not the function under analysis)."""
        if isinstance(node, list):
            return [self.inline(x, depth, root, in_helper) for x in node]
        if not isinstance(node, dict):
            return node
        out = {k: self.inline(v, depth, root, in_helper) for k, v in node.items() if not k.startswith("_")}
        if in_helper and out.get("k") == "return":
            out["k"] = "ireturn"
        if node.get("k") == "closure" and node.get("def") and depth < 6:
            b = self.body(node["def"])
            if b is not None and b.thir is not None:
                out["body"] = self.inline(b.thir, depth + 1, root, in_helper)
                out["params"] = b.d.get("thir_params")
        if node.get("k") == "call" and root is not None and depth < 6 and os.environ.get("CHALK_VERIF_NO_INLINE") != "1":
            name = node.get("res") or (node.get("fn") if not node.get("trait") else None)
            helpers = self.transparent_helpers()
            if name in helpers and helpers[name] == root:
                hb = self.body(name)
                if hb is not None and hb.thir is not None:
                    out["inl"] = {"k": "inlined", "fn": name, "params": hb.d.get("thir_params"),
                                  "body": self.inline(hb.thir, depth + 1, name, True)}
        return out

    def thir(self, key):
        """Closure- and helper-inlined THIR of a body (None if absent)."""
        b = self.body(key)
        if b is None or b.thir is None:
            return None
        if not hasattr(b, "_inl"):
            b._inl = self.inline(b.thir, 0, key.split("::{")[0])
        return b._inl

    def adt(self, key):
        crate = self._crate_of_key(key)
        if crate is None or not self.has_crate(crate):
            return None
        return self.crate(crate)["_adts"].get(key)

    def variants(self, key):
        a = self.adt(key)
        return [v["n"] for v in a["variants"]] if a else None

    def impls(self, crate, trait=None, self_key=None):
        out = []
        for im in self.crate(crate)["impls"]:
            if trait is not None and im.get("trait") != trait:
                continue
            if self_key is not None and im.get("self_key") != self_key:
                continue
            out.append(im)
        return out

    def trait(self, key):
        crate = self._crate_of_key(key)
        for t in self.crate(crate)["traits"]:
            if t["key"] == key:
                return t
        return None


# --------------------------------------------------------------------- THIR

def children(node):
    if isinstance(node, dict):
        for k, v in node.items():
            if k in ("pat",) or k.startswith("_"):
                # patterns contain no expressions except guards (handled as 'guard')
                continue
            if isinstance(v, (dict, list)):
                yield v
    elif isinstance(node, list):
        for v in node:
            if isinstance(v, (dict, list)):
                yield v


def walk(node, skip_tracing=True, into_match_arms=True):
    """Pre-order walk over expression dict nodes."""
    stack = [node]
    while stack:
        n = stack.pop()
        if isinstance(n, dict):
            if skip_tracing and is_tracing(n):
                continue
            if "k" in n:
                yield n
            ch = list(children(n))
            stack.extend(reversed(ch))
        elif isinstance(n, list):
            stack.extend(reversed([c for c in n if isinstance(c, (dict, list))]))


def calls(node, fn=None, skip_tracing=True):
    """All call nodes under `node` whose callee key matches `fn` (str suffix, regex or predicate)."""
    for n in walk(node, skip_tracing):
        if n.get("k") == "call" and callee_matches(n, fn):
            yield n


def callee_names(n):
    return [x for x in (n.get("fn"), n.get("res")) if x]


def callee_matches(n, fn):
    if fn is None:
        return True
    names = callee_names(n)
    if callable(fn):
        return any(fn(x) for x in names)
    if isinstance(fn, (list, tuple, set)):
        return any(callee_matches(n, f) for f in fn)
    if hasattr(fn, "search"):
        return any(fn.search(x) for x in names)
    return any(x == fn or x.endswith("::" + fn) for x in names)


def peel(n):
    """Strip reference / deref / coercion / trivial block wrappers."""
    while isinstance(n, dict):
        k = n.get("k")
        if k in ("ref", "deref", "coerce", "cast", "rawref"):
            n = n["e"]
        elif k == "block" and not n.get("stmts") and n.get("expr") is not None:
            n = n["expr"]
        else:
            break
    return n


def var_name(n):
    n = peel(n)
    if isinstance(n, dict) and n.get("k") == "var":
        return n["n"]
    return None


def expr_vars(n):
    return {x["n"] for x in walk(n) if x.get("k") == "var"}


def pat_bindings(p):
    """Names bound by a pattern -> list of (name, path) where path is a tuple of field names/indices."""
    out = []

    def go(p, path):
        if not isinstance(p, dict):
            return
        k = p.get("k")
        if k == "bind":
            out.append((p["n"], path))
            if p.get("sub"):
                go(p["sub"], path)
        elif k in ("variant", "leaf"):
            for idx, name, sp in p.get("sub", []):
                go(sp, path + ((p.get("v"), name),))
        elif k == "or":
            for sp in p["pats"]:
                go(sp, path)
        elif k == "guardpat":
            go(p["sub"], path)
        elif k == "slice":
            for sp in p.get("prefix", []) + p.get("suffix", []):
                go(sp, path + ("[]",))
            if p.get("mid"):
                go(p["mid"], path + ("[..]",))

    go(p, ())
    return out


def find_matches(node, sty=None, skip_tracing=True):
    for n in walk(node, skip_tracing):
        if n.get("k") == "match" and (sty is None or re.search(sty, n.get("sty", ""))):
            yield n


def enum_matches(node, adt, skip_tracing=True, outermost=True):
    """`match` expressions written in the source (not loop / ? desugarings) whose scrutinee is (a reference to) `adt`."""
    out = []
    for n in walk(node, skip_tracing):
        if n.get("k") == "if":
            n = iflet_as_match(n)
            if n is None:
                continue
        if n.get("k") != "match" or not n.get("src", "").startswith("Normal"):
            continue
        sty = n.get("sty", "").lstrip("&").replace("mut ", "")
        if sty == adt or sty.startswith(adt + "<"):
            out.append(n)
    if outermost and len(out) > 1:
        # a `matches!(x.kind(), K::A(..))` / nested match on the same enum inside an arm of the table is not a second table
        inner = set()
        for m in out:
            for arm in m.get("arms", []):
                for x in walk(arm.get("body"), skip_tracing):
                    inner.add(id(x))
                    if x.get("k") == "if" and "_as_match" in x:
                        inner.add(id(x["_as_match"]))
        out = [m for m in out if id(m) not in inner]
    return out


def iflet_as_match(n):
    """`if let P = e { A } else { B }` seen as `match e { P => A, _ => B }` (so that rules about a match on an enum do not depend on
    which of the two spellings the source uses); None for any other `if`."""
    c = n.get("cond")
    if not (isinstance(c, dict) and c.get("k") == "letexpr"):
        return None
    if "_as_match" not in n:
        els = n.get("else") if n.get("else") is not None else {"k": "block", "stmts": [], "expr": None}
        n["_as_match"] = {"k": "match", "ln": n.get("ln"), "x": n.get("x"), "src": "Normal(IfLet)", "sty": c.get("sty", ""), "scrut": c.get("e"),
                          "arms": [{"ln": n.get("ln"), "pat": c.get("pat"), "guard": None, "body": n.get("then")},
                                   {"ln": n.get("ln"), "pat": {"k": "wild"}, "guard": None, "body": els}]}
    return n["_as_match"]


# ---- K1: pattern matrices ---------------------------------------------------

YES, NO, MAYBE = "yes", "no", "maybe"
ANY = ("any",)


def V(name, **fields):
    """Abstract enum value: variant `name` with optional abstract field values by field name or index."""
    return ("variant", name, fields)


def T(*vals):
    return ("tuple", vals)


def _combine(rs):
    rs = list(rs)
    if any(r == NO for r in rs):
        return NO
    if all(r == YES for r in rs):
        return YES
    return MAYBE


def pat_match(p, val):
    k = p.get("k")
    if k in ("wild", "missing"):
        return YES
    if k == "bind":
        return pat_match(p["sub"], val) if p.get("sub") else YES
    if k == "or":
        rs = [pat_match(x, val) for x in p["pats"]]
        if any(r == YES for r in rs):
            return YES
        if any(r == MAYBE for r in rs):
            return MAYBE
        return NO
    if k == "guardpat":
        r = pat_match(p["sub"], val)
        return MAYBE if r == YES else r
    if k == "never":
        return NO
    if val == ANY:
        if k == "leaf":
            return _combine(pat_match(sp, ANY) for _, _, sp in p.get("sub", [])) if p.get("sub") else YES
        return MAYBE
    if k == "variant":
        if val[0] != "variant":
            return MAYBE
        if p["v"] != val[1]:
            return NO
        fields = val[2]
        rs = []
        for idx, name, sp in p.get("sub", []):
            fv = fields.get(name, fields.get(str(idx), fields.get("f%d" % idx, ANY)))
            rs.append(pat_match(sp, fv))
        return _combine(rs)
    if k == "leaf":
        rs = []
        for idx, name, sp in p.get("sub", []):
            if val[0] == "tuple":
                fv = val[1][idx] if idx < len(val[1]) else ANY
            elif val[0] == "variant":
                fv = val[2].get(name, ANY)
            else:
                fv = ANY
            rs.append(pat_match(sp, fv))
        return _combine(rs)
    if k == "const":
        if val[0] == "const":
            return YES if str(val[1]) == str(p["v"]) else NO
        return MAYBE
    return MAYBE


def select_arms(match, val):
    """Arms (index, certainty) that may be taken for abstract value `val`, in order,
    stopping at the first arm that is certainly taken."""
    out = []
    for i, arm in enumerate(match["arms"]):
        r = pat_match(arm["pat"], val)
        if r == NO:
            continue
        if arm.get("guard") is not None and r == YES:
            r = MAYBE
        out.append((i, r))
        if r == YES:
            break
    return out


# --------------------------------------------------------------------- MIR

def op_local(o):
    """Local of a copy/move operand with no projection, else None."""
    if not isinstance(o, dict):
        return None
    p = o.get("c") or o.get("m")
    if p is not None and not p.get("pj"):
        return p["l"]
    return None


def op_place(o):
    if not isinstance(o, dict):
        return None
    return o.get("c") or o.get("m")


def place_fields(p):
    return [e["f"] for e in (p.get("pj") or []) if isinstance(e, dict) and "f" in e]


class Cfg:
    """Control-flow multigraph of one MIR body. Edges are (src, dst, label);
    label is ('goto',) ('sw', value) ('else',) ('ret',) ('unwind',) ('drop',) ('assert',)."""

    def __init__(self, body):
        self.body = body
        self.blocks = list(body.mir["blocks"])
        self.locals = list(body.mir.get("locals") or [])
        self.inlined = []
        if getattr(body, "facts", None) is not None and os.environ.get("CHALK_VERIF_NO_INLINE") != "1":
            try:
                self._splice_helpers(body.facts)
            except Exception:      # never let the convenience break a rule: fall back to the plain CFG
                self.blocks = list(body.mir["blocks"])
                self.locals = list(body.mir.get("locals") or [])
                self.inlined = []
        self.n = len(self.blocks)
        self.edges = []
        for i, b in enumerate(self.blocks):
            t = b["t"]
            k = t["k"]
            if k == "goto":
                self.edges.append((i, t["t"], ("goto",)))
            elif k == "switch":
                for v, bb in t["v"]:
                    self.edges.append((i, bb, ("sw", v)))
                self.edges.append((i, t["else"], ("else",)))
            elif k in ("call", "drop", "assert"):
                if t.get("t") is not None:
                    self.edges.append((i, t["t"], ("ret",)))
                u = t.get("u")
                if isinstance(u, int):
                    self.edges.append((i, u, ("unwind",)))
        self.succ = defaultdict(list)
        self.pred = defaultdict(list)
        for e in self.edges:
            self.succ[e[0]].append(e)
            self.pred[e[1]].append(e)
        self._defs = None

    # -- transparent helpers -------------------------------------------------
    def _splice_helpers(self, facts, max_depth=2):
        """Splice the MIR of every transparent helper (Facts.transparent_helpers) behind its single call site: the call block stays
        (the call is still visible), but control continues through a copy of the helper's blocks (locals and block numbers shifted,
        arguments assigned to its parameters, its return place assigned to the call's destination) before reaching the call's target."""
        import copy
        helpers = facts.transparent_helpers()
        me = self.body.key.split("::{")[0]
        depth_of = {}
        i = 0
        while i < len(self.blocks):
            blk = self.blocks[i]
            t = blk["t"]
            d = depth_of.get(i, 0)
            callee = None
            if t.get("k") == "call" and d < max_depth and not blk.get("_spliced"):
                name = t.get("res") or (t.get("fn") if not t.get("trait") else None)
                if name in helpers and helpers[name] == me and name != me:
                    callee = name
            if callee is None:
                i += 1
                continue
            hb = facts.body(callee)
            hm = hb.d["mir"]
            off = len(self.locals)
            self.locals.extend(hm.get("locals") or [])
            dummy = len(self.locals)
            self.locals.append("()")
            shim = len(self.blocks)
            base = shim + 1
            target, unwind = t.get("t"), t.get("u")

            def shift(x):
                if isinstance(x, dict):
                    y = {}
                    for k_, v_ in x.items():
                        if k_ == "l" and isinstance(v_, int):
                            y[k_] = v_ + off
                        else:
                            y[k_] = shift(v_)
                    return y
                if isinstance(x, list):
                    return [shift(v_) for v_ in x]
                return x
            new_blocks = []
            for hb_blk in hm["blocks"]:
                nb = {"s": shift(hb_blk["s"]), "t": shift(hb_blk["t"]), "_inl": callee}
                tt = nb["t"]
                k_ = tt.get("k")
                if k_ == "goto":
                    tt["t"] += base
                elif k_ == "switch":
                    tt["v"] = [[v_, bb + base] for v_, bb in tt["v"]]
                    tt["else"] += base
                elif k_ in ("call", "drop", "assert"):
                    if tt.get("t") is not None:
                        tt["t"] += base
                    if isinstance(tt.get("u"), int):
                        tt["u"] += base
                elif k_ == "return":
                    if target is not None:
                        nb["s"] = nb["s"] + [{"k": "assign", "ln": t.get("ln"), "p": t.get("d"), "r": {"k": "use", "o": {"m": {"l": off}}}}]
                        nb["t"] = {"k": "goto", "t": target}
                    else:
                        nb["t"] = {"k": "unreachable"}
                elif k_ == "resume" and isinstance(unwind, int):
                    nb["t"] = {"k": "goto", "t": unwind}
                new_blocks.append(nb)
            args = t.get("a") or []
            shim_blk = {"s": [{"k": "assign", "ln": t.get("ln"), "p": {"l": off + 1 + j}, "r": {"k": "use", "o": a}} for j, a in enumerate(args)],
                        "t": {"k": "goto", "t": base}, "_inl": callee}
            call_copy = dict(blk)
            tc = dict(t)
            tc["t"] = shim
            tc["d"] = {"l": dummy}
            call_copy["t"] = tc
            call_copy["_spliced"] = callee
            self.blocks[i] = call_copy
            self.blocks.append(shim_blk)
            self.blocks.extend(new_blocks)
            for j in range(shim, len(self.blocks)):
                depth_of[j] = d + 1
            self.inlined.append(callee)
            i += 1

    # -- reachability ------------------------------------------------------
    def reachable(self, start=0, removed=(), unwind=False, stop=()):
        removed = set(removed)
        stop = set(stop)
        seen = {start}
        dq = deque([start])
        while dq:
            b = dq.popleft()
            if b in stop:
                continue
            for e in self.succ[b]:
                if e in removed:
                    continue
                if not unwind and e[2] == ("unwind",):
                    continue
                if e[1] not in seen:
                    seen.add(e[1])
                    dq.append(e[1])
        return seen

    def must_pass_edges(self, site_block, edges, unwind=False):
        """True iff every path entry -> site_block uses one of `edges`."""
        if site_block not in self.reachable(0, (), unwind):
            return True  # dead code
        return site_block not in self.reachable(0, edges, unwind)

    def must_pass_blocks(self, site_block, blocks, unwind=False):
        """True iff every path entry -> site_block passes through one of `blocks` (strictly before)."""
        blocks = set(blocks) - {site_block}
        if 0 in blocks:
            return True
        seen = self.reachable(0, (), unwind, stop=blocks)
        return site_block not in seen or site_block in blocks

    def paths_avoiding(self, start, avoid, unwind=False):
        """Blocks reachable from `start` without entering `avoid` blocks."""
        return self.reachable(start, (), unwind, stop=set(avoid)) - set(avoid)

    def return_blocks(self):
        return [i for i, b in enumerate(self.blocks) if b["t"]["k"] == "return"]

    def resume_blocks(self):
        return [i for i, b in enumerate(self.blocks) if b["t"]["k"] == "resume"]

    # -- sites ---------------------------------------------------------------
    def call_blocks(self, fn=None, skip_tracing=True):
        out = []
        for i, b in enumerate(self.blocks):
            t = b["t"]
            if t["k"] == "call" and callee_matches(t, fn):
                if skip_tracing and is_tracing(t):
                    continue
                out.append(i)
        return out

    def agg_sites(self, adt=None, variant=None, own_only=True):
        """(block, stmt_index, stmt) for aggregate constructions of adt::variant - in the function's own blocks (a spliced helper's
        constructions are its own business) unless own_only is False."""
        out = []
        for i, b in enumerate(self.blocks):
            if own_only and b.get("_inl"):
                continue
            for j, st in enumerate(b["s"]):
                if st["k"] == "assign" and st["r"]["k"] == "agg":
                    r = st["r"]
                    if adt is not None and r.get("adt") != adt:
                        continue
                    if variant is not None and r.get("v") != variant:
                        continue
                    out.append((i, j, st))
        return out

    def field_writes(self, field):
        """(block, idx, stmt) for assignments whose destination place ends in `Adt.field`."""
        out = []
        for i, b in enumerate(self.blocks):
            for j, st in enumerate(b["s"]):
                if st["k"] == "assign":
                    fs = place_fields(st["p"])
                    if fs and fs[-1] == field:
                        out.append((i, j, st))
            t = b["t"]
            if t["k"] == "call":
                fs = place_fields(t["d"])
                if fs and fs[-1] == field:
                    out.append((i, "term", t))
        return out

    def field_reads(self, field):
        out = []

        def in_op(o):
            p = op_place(o)
            return p is not None and field in place_fields(p)

        for i, b in enumerate(self.blocks):
            for j, st in enumerate(b["s"]):
                if st["k"] != "assign":
                    continue
                r = st["r"]
                hit = False
                for key in ("o", "a", "b"):
                    v = r.get(key)
                    if isinstance(v, list):
                        hit = hit or any(in_op(x) for x in v)
                    elif isinstance(v, dict):
                        hit = hit or in_op(v)
                if r.get("p") is not None and field in place_fields(r["p"]):
                    hit = True
                if hit:
                    out.append((i, j, st))
        return out

    # -- def/use tracing -------------------------------------------------------
    @property
    def defs(self):
        if self._defs is None:
            d = defaultdict(list)
            for i, b in enumerate(self.blocks):
                for j, st in enumerate(b["s"]):
                    if st["k"] == "assign" and not st["p"].get("pj"):
                        d[st["p"]["l"]].append(("assign", i, j, st["r"]))
                t = b["t"]
                if t["k"] == "call" and not t["d"].get("pj"):
                    d[t["d"]["l"]].append(("call", i, None, t))
            self._defs = d
        return self._defs

    def trace(self, operand, depth=12):
        """Describe where a (boolean / discriminant) operand comes from.
        Returns dict {kind: call|field|discr|const|bin|local|unknown, neg: bool, ...}."""
        neg = False
        cur = operand
        for _ in range(depth):
            if "k" in cur and "c" not in cur and "m" not in cur:
                return {"kind": "const", "v": cur.get("k"), "neg": neg}
            p = op_place(cur)
            if p is None:
                return {"kind": "unknown", "neg": neg}
            if p.get("pj"):
                if all(e == "*" for e in p["pj"]):
                    cur = {"c": {"l": p["l"]}}      # reborrow / deref of a reference temp: keep following the base local
                    continue
                fs = place_fields(p)
                return {"kind": "field", "fields": fs, "place": p, "neg": neg}
            ds = self.defs.get(p["l"], [])
            if len(ds) != 1:
                # booleans produced by short-circuit && / || are assigned on several paths
                return {"kind": "local", "local": p["l"], "ndefs": len(ds), "neg": neg, "defs": ds}
            kind, blk, idx, r = ds[0]
            if kind == "call":
                return {"kind": "call", "call": r, "block": blk, "neg": neg}
            rk = r["k"]
            if rk == "use":
                cur = r["o"]
                continue
            if rk == "un" and r["op"] == "Not":
                neg = not neg
                cur = r["o"]
                continue
            if rk == "discr":
                src = self.trace({"c": r["p"]}) if not r["p"].get("pj") else {"kind": "field", "fields": place_fields(r["p"]), "place": r["p"]}
                return {"kind": "discr", "adt": r.get("adt"), "vs": r.get("vs"), "of": src, "place": r["p"], "neg": neg}
            if rk == "bin":
                return {"kind": "bin", "op": r["op"], "a": self.trace(r["a"], depth - 1), "b": self.trace(r["b"], depth - 1), "neg": neg}
            if rk == "ref":
                cur = {"c": r["p"]}
                continue
            if rk == "cast":
                cur = r["o"]
                continue
            return {"kind": "unknown", "r": r, "neg": neg}
        return {"kind": "unknown", "neg": neg}

    def switches(self):
        for i, b in enumerate(self.blocks):
            if b["t"]["k"] == "switch":
                yield i, b["t"]

    def bool_edges(self, pred, want=True):
        """Edges taken when a boolean switch whose source satisfies `pred(trace)` evaluates to `want`.
        pred returns True (condition as traced) / False (not of interest)."""
        out = []
        for i, t in self.switches():
            if t.get("ty") != "bool":
                continue
            tr = self.trace(t["o"])
            if not pred(tr):
                continue
            val = want != tr.get("neg", False)  # value of the raw operand for which cond==want
            for e in self.succ[i]:
                lab = e[2]
                if lab[0] == "sw":
                    is_true = lab[1] != 0
                else:
                    # `switchInt(b) -> [0: F, otherwise: T]`: the else edge is the true edge
                    is_true = all(v == 0 for v, _ in t["v"])
                if is_true == val:
                    out.append(e)
        return out

    def variant_edges(self, pred, variants):
        """Edges of enum switches (source satisfies pred) taken for the given variant names."""
        out = []
        variants = set(variants)
        for i, t in self.switches():
            tr = self.trace(t["o"])
            if tr.get("kind") != "discr" or not tr.get("vs") or not pred(tr):
                continue
            val2name = {v: n for v, n in tr["vs"]}
            listed = set()
            for e in self.succ[i]:
                lab = e[2]
                if lab[0] == "sw":
                    listed.add(val2name.get(lab[1]))
                    if val2name.get(lab[1]) in variants:
                        out.append(e)
            for e in self.succ[i]:
                if e[2][0] == "else":
                    rest = set(val2name.values()) - listed
                    if rest and rest <= variants:
                        out.append(e)
        return out


def trace_is_call(fn):
    def pred(tr):
        return tr.get("kind") == "call" and callee_matches(tr["call"], fn)
    return pred


def trace_is_field(field):
    def pred(tr):
        return tr.get("kind") == "field" and field in tr.get("fields", [])
    return pred


# --------------------------------------------------------------------- call graph

class CallGraph:
    def __init__(self, facts, crates):
        self.facts = facts
        self.out = defaultdict(set)      # body key -> callee keys (fn and res)
        self.sites = defaultdict(list)   # body key -> [(block, terminator)]
        self.bodies = {}
        self.trait_impls = defaultdict(set)   # trait method key -> impl method keys
        for c in crates:
            if not facts.has_crate(c):
                continue
            for k, b in facts.bodies(c).items():
                self.bodies[k] = b
                ti = b.d.get("trait_item")
                if ti:
                    self.trait_impls[ti].add(k)
        for k, b in self.bodies.items():
            for i, blk in enumerate(b.mir["blocks"]):
                t = blk["t"]
                if t["k"] in ("call", "tailcall"):
                    self.sites[k].append((i, t))
                    for cal in self.callees_of_site(t):
                        self.out[k].add(cal)
                # closures constructed here are assumed callable from here
                for st in blk["s"]:
                    if st["k"] == "assign" and st["r"]["k"] == "agg" and st["r"].get("closure"):
                        self.out[k].add(st["r"]["closure"])
            # fn items / closures passed as values
            for blk in b.mir["blocks"]:
                ops = []
                for st in blk["s"]:
                    if st["k"] == "assign":
                        r = st["r"]
                        for key in ("o", "a", "b"):
                            v = r.get(key)
                            ops.extend(v if isinstance(v, list) else [v] if isinstance(v, dict) else [])
                if blk["t"]["k"] == "call":
                    ops.extend(blk["t"]["a"])
                for o in ops:
                    if isinstance(o, dict) and o.get("k") == "fn":
                        for nm in (o.get("fn"), o.get("res"), o.get("closure")):
                            if nm:
                                self.out[k].add(nm)

    def callees_of_site(self, t):
        out = set()
        if t.get("res"):
            out.add(t["res"])
        elif t.get("fn"):
            out.add(t["fn"])
            # unresolved trait method: every local impl is a possible callee
            if t.get("trait"):
                out |= self.trait_impls.get(t["fn"], set())
        if t.get("closure"):
            out.add(t["closure"])
        return out

    def fixpoint(self, seeds_pred):
        """Set of body keys from which a callee satisfying seeds_pred(key) is reachable,
        plus the seeds themselves (as keys, possibly external)."""
        has = set()
        rev = defaultdict(set)
        for k, cs in self.out.items():
            for c in cs:
                rev[c].add(k)
        dq = deque()
        for k, cs in self.out.items():
            for c in cs:
                if seeds_pred(c) and c not in has:
                    has.add(c)
                    dq.append(c)
        while dq:
            c = dq.popleft()
            for k in rev.get(c, ()):
                if k not in has:
                    has.add(k)
                    dq.append(k)
        return has

    def reachable_from(self, roots):
        seen = set(roots)
        dq = deque(roots)
        while dq:
            k = dq.popleft()
            for c in self.out.get(k, ()):
                if c not in seen:
                    seen.add(c)
                    dq.append(c)
        return seen

    def callers_of(self, pred, through_helpers=True):
        """(caller key, block, terminator) for call sites whose callee satisfies pred.  A call made by a transparent helper
        (Facts.transparent_helpers: a single-call-site function no rule names) is attributed to the function it was extracted from."""
        out = []
        helpers = self.facts.transparent_helpers() if (through_helpers and getattr(self, "facts", None) is not None) else {}
        for k, sites in self.sites.items():
            for i, t in sites:
                if any(pred(c) for c in callee_names(t)):
                    k2 = k
                    for _ in range(3):
                        base = k2.split("::{")[0]
                        if base in helpers:
                            k2 = helpers[base]
                        else:
                            break
                    out.append((k2 if k2 in self.bodies else k, i, t))
        return out



def merge_delegating_arms(m, same=lambda inner, outer: True, depth=2):
    """A table `match (a.kind(), b.kind()) { .. }` that was split in two by arm groups - the last, irrefutable arm hands the pair to a
    single-use helper (spliced under `inl` by Facts.thir) whose body is the rest of the table - is presented as ONE match: the
    delegating arm is replaced by the helper's arms, in order.  Anything else is returned unchanged."""
    if depth == 0 or not isinstance(m, dict) or m.get("k") != "match":
        return m
    arms = []
    changed = False
    for arm in m.get("arms", []):
        body = arm.get("body")
        e = body
        for _ in range(6):
            e = peel(e)
            if isinstance(e, dict) and e.get("k") == "block" and not e.get("stmts") and e.get("expr") is not None:
                e = e["expr"]
            else:
                break
        irrefutable = pat_match(arm.get("pat"), ANY) == YES and arm.get("guard") is None
        if irrefutable and isinstance(e, dict) and e.get("k") == "call" and isinstance(e.get("inl"), dict):
            inner = [x for x in walk(e["inl"]["body"]) if x.get("k") == "match" and str(x.get("src", "")).startswith("Normal")
                     and x.get("sty") == m.get("sty")]
            if inner and same(inner[0], m):
                sub = merge_delegating_arms(inner[0], same, depth - 1)
                arms.extend(sub.get("arms", []))
                changed = True
                continue
        arms.append(arm)
    if not changed:
        return m
    out = dict(m)
    out["arms"] = arms
    return out
