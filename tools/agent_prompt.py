#!/usr/bin/env python3
"""tools/agent_prompt.py <Cxx> <worktree> [extra sentence]
Prints the prompt handed to a fresh sub-agent that is asked for an independent
property-breaking change (the agent sees the property record and its own scratch
worktree only - nothing from /verif).  tools/new_wt.sh creates the worktree."""
import json, os, sys
HERE = os.path.dirname(os.path.dirname(os.path.abspath(__file__)))
pid, wt = sys.argv[1], sys.argv[2].rstrip("/")
extra = sys.argv[3] if len(sys.argv) > 3 else ""
prop = None
for l in open(os.path.join(HERE, "properties.jsonl")):
    p = json.loads(l)
    if p["id"] == pid:
        prop = {k: p[k] for k in ("id", "title", "statement", "quantifier", "why_tests_cant", "anchors")}
T = '''You are working on a copy of the Rust project rust-lang/chalk (a trait-system solver) located in the git worktree {wt} (already checked out; a pre-built `target/` directory is inside it so builds are incremental). The sandbox has NO network: always pass `--offline` to cargo. Work ONLY inside {wt}; do not read or write anything under /repo or /verif, and do not look at other /tmp/wt-* directories.

Here is a semantic property that chalk is supposed to satisfy (JSON record):

{prop}

YOUR TASK: produce ONE realistic code change (a bug a developer could plausibly introduce: a refactor slip, an over-eager optimisation, a dropped case, a wrong guard, two cooperating sites that each look fine alone ...) to the chalk sources in {wt} such that:
 1. the workspace still compiles and the ENTIRE existing test suite still passes:  `cd {wt} && cargo test --workspace --offline --no-fail-fast 2>&1 | grep -E "^test result|FAILED|panicked"`  (all `test result:` lines must say ok; there are 550 tests; first run takes a minute or two);
 2. the property above is now BROKEN, but only in a way that needs something specific to manifest - a particular unusual input, a multi-step sequence of operations on the same solver, an interruption / crash / panic at a particular point, a particular ordering, or two cooperating sites - NOT something ordinary use would expose at once (that is why the existing tests do not notice);
 3. you have a DEMONSTRATION: a new test (preferred: add a test file/module under `tests/` or a `#[test]` in the touched crate) or a small program that FAILS with your change and PASSES without it. Verify both directions yourself: run it with the change applied (must fail), then revert the source change while keeping the demonstration (`git diff -- <production files> > {wt}/my_change.diff; git checkout -- <production files>`), run it again (must pass), then re-apply the change (`git apply {wt}/my_change.diff`). NEVER use `git stash`: the stash is shared by every worktree of this repository and other people are working in sibling worktrees.

Do not modify existing tests. Do not make the change conditional on weird magic constants or environment variables; it should look like a plausible edit of production code. Keep it small (a few lines to a few dozen lines). Prefer a change in the files the property's `anchors` mention, but anything in the workspace is allowed. {extra}

Useful facts: tests live in `tests/` (integration tests built as `--test lib` of the root `chalk` package; modules `tests/test/*.rs` use the `test! {{ program {{ ... }} goal {{ ... }} yields {{ expect![[...]] }} }}` macro, `yields[SolverChoice::slg_default()]` / `yields[SolverChoice::recursive_default()]` select a solver, `yields_all`, `yields_first`), `tests/lowering`, `tests/display` (`reparse_test!`), `tests/logging_db`, `tests/integration/panic.rs` (shows how to wrap a database and inject panics). New test modules must be registered in the corresponding `mod.rs`. To run one test: `cargo test --offline --test lib <name> -- --nocapture`. Unit tests inside crates: `cargo test --offline -p chalk-solve <name>`.

WHEN DONE, create the directory {wt}/seeded_out/ containing:
 - `patch.diff`   : `git diff` of ONLY the production-code change (no test files), applicable with `git apply` on the original commit;
 - `demo.diff`    : `git diff`/new files of ONLY the demonstration (tests), applicable with `git apply` on the original commit;
 - `meta.json`    : {{"property": "{pid}", "summary": "...one paragraph: what the change does...", "needs_to_manifest": "...what specific input/sequence/fault is needed...", "demo_command": "...exact command that runs the demonstration...", "demo_fails_with_change": true, "demo_passes_without_change": true, "full_suite_passes_with_change": true, "files_touched": [...]}}
(Generate patch.diff with something like `git diff -- <production files> > seeded_out/patch.diff` and demo.diff with `git add -N <new test files>; git diff -- tests/ ... > seeded_out/demo.diff`; make sure seeded_out itself is not included in either diff.)

Leave the worktree with BOTH the change and the demonstration applied. In your final answer, state briefly: the change, why the existing suite misses it, how the demonstration exposes it, and the commands you ran with their outcomes. If after serious effort you cannot find a change satisfying all three requirements, say so honestly and explain what you tried.
'''
print(T.format(wt=wt, pid=pid, prop=json.dumps(prop, indent=1), extra=extra))
