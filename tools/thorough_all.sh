#!/bin/bash
# tools/thorough_all.sh [props...]  development aid: run the thorough tier of every (or the given) property against the second dev
# worktree (/var/tmp/dev2/repo, clean HEAD), with its own fact cache, scratch directory and evidence directory, so that it can run
# beside other work.  Prints one line per property.
export CHALK_VERIF_CACHE=/var/tmp/dev2/cache VERIF_SCRATCH=/var/tmp/dev2/scratch VERIF_EVIDENCE_DIR=/var/tmp/dev2/evidence VERIF_SELFTEST_ANY_REPO=1
git -C /var/tmp/dev2/repo checkout -q -- . ; git -C /var/tmp/dev2/repo clean -fdq
cd /verif
props="$@"; [ -z "$props" ] && props=$(python3 -c "import json;print(' '.join(c['property_id'] for c in json.load(open('MANIFEST.json'))['checks']))")
for p in $props; do
  out=$(./check $p --tier thorough --repo /var/tmp/dev2/repo 2>&1)
  echo "== $p rc=$? $(echo "$out" | tail -1)"
  echo "$out" | grep -E "key    :|selftest" | head -8
done
echo "== ALL DONE"
