#!/usr/bin/env python3
"""Generates /verif/MANIFEST.json from the per-property table in tools/claims.py."""
import json, os, sys
HERE = os.path.dirname(os.path.dirname(os.path.abspath(__file__)))
sys.path.insert(0, os.path.join(HERE, "tools"))
import claims

def main():
    props = [json.loads(l) for l in open(os.path.join(HERE, "properties.jsonl"))]
    ids = [p["id"] for p in props]
    checks = []
    na = []
    for pid in ids:
        c = claims.CLAIMS.get(pid)
        if c is None or not os.path.exists(os.path.join(HERE, "rules", "props", pid.lower() + ".py")):
            na.append({"property_id": pid, "reason": claims.NOT_APPLICABLE.get(pid, "static check not built yet (work in progress); no claim is made")})
            continue
        checks.append({
            "property_id": pid,
            "quick_cmd": "./check %s --tier quick" % pid,
            "thorough_cmd": "./check %s --tier thorough" % pid,
            "evidence_file": "/verif/evidence/%s.json" % pid,
            "replay_cmd_template": "cat {path}; ./check %s --tier quick" % pid,
            "engine": "E1+E2",
            "level_claimed": {"category": c.get("category", "other"), "text": c["text"] + getattr(claims, "EXTRA", {}).get(pid, ""), "design_ref": "DESIGN.md section 4 and 9.0, %s" % pid},
            "level_note": c["note"],
            "technique": c["technique"],
        })
    m = {
        "version": 1,
        "setup_cmd": "cd /verif/extract && CARGO_NET_OFFLINE=true cargo +nightly build --release --offline && cd /verif && python3 rules/factsmgr.py libs /repo",
        "hooks": {
            "guard": "chalk_verif",
            "enable": "none needed: static analysis reads the unmodified sources (no hook code exists in /repo)",
            "baseline_off_cmd": "cd /repo && cargo test --workspace --no-fail-fast --offline",
            "source_commits": [],
            "add_only": True,
        },
        "engines": [
            {"name": "E1", "path": "/verif/extract", "serves_properties": [c["property_id"] for c in checks],
             "kind_free_text": "rustc_private driver (nightly) run as RUSTC_WORKSPACE_WRAPPER under cargo check: dumps THIR, MIR (resolved callees, unwind edges), ADT/trait/impl tables as JSON facts"},
            {"name": "E2", "path": "/verif/rules", "serves_properties": [c["property_id"] for c in checks],
             "kind_free_text": "Python rule engine over the facts: pattern-matrix tables (K1), field coverage (K2), dominance / must-pass-through on MIR incl. unwind edges (K3), who-may-call (K4), sibling completeness (K5), panic inventory (K6), effect x ownership (K7), for-loop totality (K9), decision tables by symbolic evaluation (K10)"},
            {"name": "E3", "path": "/verif/rules/grammar.py", "serves_properties": ["C22", "C24"],
             "kind_free_text": "tokenizer for chalk-parse/src/parser.lalrpop (terminals, attribute productions, actions)"},
            {"name": "E4", "path": "/verif/witness", "serves_properties": ["C15", "C27"],
             "kind_free_text": "compile_fail doctests + compiling twins (rustc as the checker)"},
        ],
        "checks": checks,
        "notes": claims.NOTES,
        "not_applicable": na,
    }
    with open(os.path.join(HERE, "MANIFEST.json"), "w") as fh:
        json.dump(m, fh, indent=1)
    print("checks:", len(checks), "not_applicable:", len(na))

main()
