#!/usr/bin/env python3
"""tools/reeval_worker.py <repo-root> <cache-dir|-> <seed-id> ...   Re-evaluate stored seeded changes against a checkout of the SAME commit
as /repo (either /repo itself, or a scratch worktree of it with its own fact cache, so that several workers can run side by side):
apply patch, sweep every registered property (same rules, quick tier), restore, rewrite meta.json `checks`."""
import json, os, subprocess, sys
HERE = os.path.dirname(os.path.dirname(os.path.abspath(__file__)))
repo, cache, ids = sys.argv[1], sys.argv[2], sys.argv[3:]
env = dict(os.environ)
if cache != "-":
    env["CHALK_VERIF_CACHE"] = cache
m = json.load(open(os.path.join(HERE, "MANIFEST.json")))
props = ",".join(c["property_id"] for c in m["checks"])
for sid in ids:
    d = os.path.join(HERE, "seeded", sid)
    meta = json.load(open(os.path.join(d, "meta.json")))
    subprocess.run(["git", "-C", repo, "checkout", "-q", "--", "."]); subprocess.run(["git", "-C", repo, "clean", "-fdq", "-e", "target"])
    r = subprocess.run(["git", "-C", repo, "apply", os.path.join(d, "patch.diff")], capture_output=True, text=True)
    if r.returncode != 0:
        print(sid, "PATCH DOES NOT APPLY", flush=True)
        continue
    fired = {}
    try:
        r = subprocess.run([os.path.join(HERE, "check"), props, "--tier", "quick", "--no-evidence", "--repo", repo], capture_output=True, text=True, cwd=HERE, env=env)
        for l in r.stdout.splitlines():
            if l.startswith("FIRED "):
                _, p, key = l.split(" ", 2)
                fired.setdefault(p, []).append(key)
        if r.returncode not in (0, 1) or (r.returncode == 1 and not fired):
            fired["ENGINE"] = ["sweep failed: " + (r.stdout + r.stderr)[-300:]]
    finally:
        subprocess.run(["git", "-C", repo, "checkout", "-q", "--", "."]); subprocess.run(["git", "-C", repo, "clean", "-fdq", "-e", "target"])
    meta["checks"]["fired"] = fired
    meta["checks"]["caught_by_property_check"] = meta["property"] in fired
    meta["checks"]["ran"] = ("git apply patch.diff on %s; ./check <every claimed property> --tier quick --no-evidence; git checkout -- .  (tools/reeval_worker.py%s)"
                             % ("/repo" if repo == "/repo" else "a scratch worktree of /repo's HEAD", "" if repo == "/repo" else "; first stored after the same run against /repo itself"))
    json.dump(meta, open(os.path.join(d, "meta.json"), "w"), indent=1)
    print(sid, meta["property"], "CAUGHT" if meta["property"] in fired else ("other:" + ",".join(fired) if fired else "MISSED"), flush=True)
print("WORKER DONE", flush=True)
