#!/bin/bash
# tools/prep_agent.sh <Cxx> <suffix>  -> worktree /tmp/wt-<Cxx><suffix> with TASK.md (the prompt of tools/agent_prompt.py plus summaries
# of the changes earlier sub-agents already produced for this property, so the new one differs).
set -e
P=$1; S=$2; N=$P$S
bash /verif/tools/new_wt.sh $N >/dev/null
EXTRA=$(python3 - "$P" <<'PY'
import json,os,sys
p=sys.argv[1]; out=[]
for d in sorted(os.listdir('/verif/seeded')):
    f='/verif/seeded/%s/meta.json'%d
    if d.startswith(p) and os.path.exists(f):
        out.append(json.load(open(f))['summary'][:350].replace('\n',' '))
if out:
    print("IMPORTANT: earlier attempts already produced the following changes; yours must be substantially different (a different function or mechanism, ideally a different file): " + " || ".join("(%d) %s ..." % (i+1,s) for i,s in enumerate(out)))
PY
)
python3 /verif/tools/agent_prompt.py $P /tmp/wt-$N "$EXTRA" > /tmp/wt-$N/TASK.md
echo /tmp/wt-$N
