#!/bin/bash
# usage: confirm_seeded.sh <worktree> <demo test filter / command from meta.json is read automatically>
# Confirms an independently written property-breaking change in its scratch worktree:
#   (1) change only  -> the whole existing suite passes
#   (2) change + demo -> the demonstration fails
#   (3) demo only     -> the demonstration passes
WT=$1
OUT=$WT/seeded_out
LOG=$OUT/confirm.log
cd $WT || exit 2
: > $LOG
DEMO=$(python3 -c "import json;print(json.load(open('$OUT/meta.json'))['demo_command'])")
DEMO=$(echo "$DEMO" | sed "s#cd $WT *&& *##; s#cd /tmp/wt-[A-Z0-9]* *&& *##")
git reset -q --hard HEAD; git clean -fdq -e seeded_out -e target
cp -r $OUT /tmp/seeded_out_keep_$$ 2>/dev/null
echo "== (1) change only: full suite" >> $LOG
git apply $OUT/patch.diff || { echo "PATCH DOES NOT APPLY" >> $LOG; exit 3; }
cargo test --workspace --offline --no-fail-fast 2>&1 | grep -E "^test result|FAILED|panicked|error(\[|:)" >> $LOG
echo "== (2) change + demo: demonstration must fail" >> $LOG
git apply $OUT/demo.diff || { echo "DEMO DOES NOT APPLY" >> $LOG; exit 4; }
( eval "$DEMO" ) 2>&1 | grep -E "^test result|^test .* \.\.\. |error(\[|:)" | head -40 >> $LOG
echo "== (3) demo only: demonstration must pass" >> $LOG
git apply -R $OUT/patch.diff || { echo "PATCH DOES NOT REVERT" >> $LOG; exit 5; }
( eval "$DEMO" ) 2>&1 | grep -E "^test result|^test .* \.\.\. |error(\[|:)" | head -40 >> $LOG
git apply $OUT/patch.diff
echo "== done" >> $LOG
cat $LOG
