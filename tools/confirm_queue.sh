#!/bin/bash
# tools/confirm_queue.sh <wt-name> ...  : run tools/confirm_seeded.sh for each worktree in turn (background use); log /var/tmp/confirm_queue.log
for n in "$@"; do
  bash /verif/tools/confirm_seeded.sh /tmp/wt-$n > /var/tmp/confirm_$n.out 2>&1
  echo "### $n confirm done: $(grep -c 'test result: ok' /tmp/wt-$n/seeded_out/confirm.log) ok-lines, $(grep -c FAILED /tmp/wt-$n/seeded_out/confirm.log) FAILED-lines" >> /var/tmp/confirm_queue.log
done
