#!/bin/bash
# tools/try_benign.sh [batch ...]   sweep every registered property over the stored behaviour-preserving refactorings (benign/<batch>/
# combined.diff, or each refactor_k.diff when there is no combined patch) on the dev worktree; every line printed is a FALSE ALARM.
cd /verif
for b in ${@:-$(ls -d benign/*/ | xargs -n1 basename)}; do
  if [ -f benign/$b/combined.diff ]; then
    echo "== $b combined"; bash tools/try_dev.sh /verif/benign/$b/combined.diff ALL
  else
    for f in /verif/benign/$b/refactor_*.diff; do echo "== $b $(basename $f)"; bash tools/try_dev.sh $f ALL; done
  fi
done
