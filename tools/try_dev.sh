#!/bin/bash
# tools/try_dev.sh <patch.diff> <props-comma>   apply a patch to the dev worktree (/var/tmp/dev/repo), sweep the given properties, undo.
# (development aid only; stored seeded changes are evaluated against /repo itself by tools/try_seeded.py)
D=/var/tmp/dev/repo
git -C $D checkout -q -- . ; git -C $D clean -fdq
git -C $D apply "$1" || exit 2
cd /verif && ./check "$2" --no-evidence --repo $D 2>/dev/null | grep FIRED
git -C $D checkout -q -- . ; git -C $D clean -fdq
