#!/bin/bash
# tools/try_dev.sh <patch.diff|-> <props-comma>   apply a patch to the dev worktree (/var/tmp/dev/repo, its own fact cache), sweep the
# given properties, undo.  "-" = no patch (clean dev tree).  Development aid only; stored seeded changes are evaluated against /repo
# itself by tools/try_seeded.py.  Create the worktree with: git -C /repo worktree add --detach /var/tmp/dev/repo HEAD
D=${DEVROOT:-/var/tmp/dev}/repo
export CHALK_VERIF_CACHE=${DEVROOT:-/var/tmp/dev}/cache
git -C $D checkout -q -- . ; git -C $D clean -fdq
if [ "$1" != "-" ]; then git -C $D apply "$1" || exit 2; fi
cd /verif && ./check "$2" --no-evidence --repo $D 2>&1 | grep -E "FIRED|Traceback|Error|FAILED"
git -C $D checkout -q -- . ; git -C $D clean -fdq
