#!/usr/bin/env python3
"""tools/try_breaks.py <Cxx> [break-name ...]  apply the selftest breaks of a property (all, or the named ones) to the dev worktree
(/var/tmp/dev/repo, own fact cache), run the property's rules, print which expected keys are reported; undo."""
import os, subprocess, sys
HERE = os.path.dirname(os.path.dirname(os.path.abspath(__file__)))
os.environ["CHALK_VERIF_CACHE"] = "/var/tmp/dev/cache"
sys.path.insert(0, os.path.join(HERE, "rules")); sys.path.insert(0, os.path.join(HERE, "selftest"))
import importlib, factsmgr, breaks as B
from core import Facts
from report import Check
import selftest
D = "/var/tmp/dev/repo"
prop = sys.argv[1].upper(); names = sys.argv[2:]
subprocess.run(["git", "-C", D, "checkout", "-q", "--", "."]); subprocess.run(["git", "-C", D, "clean", "-fdq"])
mine = [b for b in B.BREAKS if b["prop"] == prop and (not names or b["name"] in names)]
applied, stale = selftest.apply_breaks(D, mine)
print("applied", [b["name"] for b in applied], "stale", stale)
try:
    fdir, info = factsmgr.ensure_facts(D, "libs")
    mod = importlib.import_module("props.%s" % prop.lower())
    ck = Check(prop, "thorough", getattr(mod, "LEVEL", "other")); ck.extract_info = {"repo": D}
    mod.run(ck, Facts(fdir), "thorough")
    keys = [v["key"] for v in ck.violations]
    for b in applied:
        print(b["name"], "->", "detected" if [k for k in keys if b["expect"] in k] else "MISSED (expect %s)" % b["expect"])
    print("all keys:", keys)
finally:
    subprocess.run(["git", "-C", D, "checkout", "-q", "--", "."]); subprocess.run(["git", "-C", D, "clean", "-fdq"])
