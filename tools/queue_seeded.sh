#!/bin/bash
# tools/queue_seeded.sh <wt-name>:<seed-id> ...   sequentially: confirm (if not yet confirmed) + store; log to /var/tmp/queue_seeded.log
cd /verif
for item in "$@"; do
  wt=${item%%:*}; sid=${item##*:}
  if ! grep -q "== done" /tmp/wt-$wt/seeded_out/confirm.log 2>/dev/null; then
    bash tools/confirm_seeded.sh /tmp/wt-$wt > /var/tmp/confirm_$wt.out 2>&1
  fi
  echo "### $sid $(python3 tools/store_seeded.py $sid /tmp/wt-$wt 2>&1 | tail -1)" >> /var/tmp/queue_seeded.log
done
echo "### QUEUE DONE" >> /var/tmp/queue_seeded.log
