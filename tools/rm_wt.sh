#!/bin/bash
# tools/rm_wt.sh <name>   -> removes /tmp/wt-<name> with its build output
git -C /repo worktree remove --force /tmp/wt-$1 2>/dev/null; rm -rf /tmp/wt-$1; git -C /repo worktree prune
