#!/usr/bin/env python3
"""tools/seeded_readme.py   (re)writes /verif/seeded/README.md from the meta.json files: one row per independently written
property-breaking change, what it needs in order to manifest, and which registered checks report it (rule keys)."""
import json, os
HERE = os.path.dirname(os.path.dirname(os.path.abspath(__file__)))
sd = os.path.join(HERE, "seeded")
rows = []
for sid in sorted(os.listdir(sd)):
    mp = os.path.join(sd, sid, "meta.json")
    if not os.path.exists(mp):
        continue
    m = json.load(open(mp))
    fired = m.get("checks", {}).get("fired", {}) or {}
    own = fired.get(m["property"], [])
    others = sorted(p for p in fired if p != m["property"])
    status = "caught" if own else ("caught only by " + ",".join(others) if others else (m.get("disposition") or "MISSED"))
    rows.append((sid, m["property"], status, "; ".join(sorted({k.split(":")[0] for k in own}))[:90],
                 ",".join(others), m["summary"].replace("\n", " ")[:230].replace("|", "/"),
                 (m.get("needs_to_manifest") or "").replace("\n", " ")[:200].replace("|", "/")))
with open(os.path.join(sd, "README.md"), "w") as fh:
    fh.write("# Independently written property-breaking changes\n\n"
             "Each directory holds `patch.diff` (the change to rust-lang/chalk; never committed to /repo), `demo.diff` (a test that fails with the\n"
             "change and passes without it), `confirm.log` (my own confirmation run in a scratch worktree: full suite green with the change,\n"
             "demonstration red with it and green without it) and `meta.json`.  Every change was written by a fresh sub-agent that saw only\n"
             "the property text and its own worktree.  `checks.fired` in meta.json is rewritten by `tools/reeval_seeded.py` / `tools/reeval_worker.py`, which apply the\n"
             "patch to /repo, runs every registered quick check, and restores /repo.\n\n"
             "%d changes; %d reported by the check of the property they break, %d only by another property's check, %d missed.\n\n"
             % (len(rows), sum(r[2] == "caught" for r in rows), sum(r[2].startswith("caught only") for r in rows),
                sum(not r[2].startswith("caught") for r in rows)))
    fh.write("| id | property | verdict | rules that fire (own property) | other properties firing | change | needs, to manifest |\n|---|---|---|---|---|---|---|\n")
    for r in rows:
        fh.write("| %s |\n" % " | ".join(r))
print(len(rows), "rows")
