#!/usr/bin/env python3
"""tools/store_seeded.py <seed-id> <worktree>
After tools/confirm_seeded.sh confirmed an independently written change in its scratch worktree: run every registered quick check
against it (applied to /repo, undone straight afterwards) and store it under /verif/seeded/<seed-id>/
(patch.diff, demo.diff, meta.json, confirm.log)."""
import json, os, shutil, subprocess, sys, re
HERE = os.path.dirname(os.path.dirname(os.path.abspath(__file__)))
sid, wt = sys.argv[1], sys.argv[2].rstrip("/")
out = os.path.join(wt, "seeded_out")
meta = json.load(open(os.path.join(out, "meta.json")))
log = open(os.path.join(out, "confirm.log")).read()
sec = re.split(r"^== .*$", log, flags=re.M)
assert len(sec) >= 5, "confirm.log incomplete"
suite, with_change, without = sec[1], sec[2], sec[3]
passed = sum(int(x) for x in re.findall(r"test result: ok\. (\d+) passed", suite))
assert "FAILED" not in suite and passed >= 550, "suite did not pass with the change (%d)" % passed
assert "FAILED" in with_change, "demo does not fail with the change"
assert "FAILED" not in without and " ok" in without, "demo does not pass without the change"
if os.environ.get("STORE_SKIP_SWEEP") == "1":
    fired = {}          # filled in by tools/reeval_worker.py right afterwards
else:
    r = subprocess.run([sys.executable, os.path.join(HERE, "tools", "try_seeded.py"), os.path.join(out, "patch.diff"), "--props", "all", "--no-restore"],
                       capture_output=True, text=True)
    if r.returncode != 0:
        sys.exit(r.stdout + r.stderr)
    fired = json.loads(r.stdout[r.stdout.index("{"):])
dst = os.path.join(HERE, "seeded", sid)
os.makedirs(dst, exist_ok=True)
for f in ("patch.diff", "demo.diff", "confirm.log"):
    shutil.copy(os.path.join(out, f), os.path.join(dst, f))
demo = re.sub(r"cd /tmp/wt-[A-Za-z0-9_-]+ *&& *", "", meta["demo_command"])
json.dump({
    "property": meta["property"],
    "origin": "written by a fresh sub-agent that saw only the property text and a scratch worktree of /repo (nothing from /verif)",
    "summary": meta["summary"],
    "needs_to_manifest": meta["needs_to_manifest"],
    "files_touched": meta.get("files_touched"),
    "demonstration": {"patch": "demo.diff (adds tests only)", "command": demo},
    "confirmed_by_me": {
        "where": "scratch git worktree of /repo under /tmp (removed afterwards), tools/confirm_seeded.sh",
        "ran": ["git apply patch.diff && cargo test --workspace --offline --no-fail-fast  -> %d passed, 0 failed" % passed,
                "git apply demo.diff && " + demo + "  -> demonstration FAILS",
                "git apply -R patch.diff && " + demo + "  -> demonstration passes"],
        "log": "confirm.log"},
    "checks": {"ran": "git -C /repo apply patch.diff; ./check <every claimed property> --tier quick; git -C /repo checkout -- .  (tools/try_seeded.py)",
               "fired": fired,
               "caught_by_property_check": meta["property"] in fired},
}, open(os.path.join(dst, "meta.json"), "w"), indent=1)
print(sid, json.dumps(fired))
