#!/usr/bin/env python3
"""tools/try_seeded.py <patch.diff> [--props C01,C02|all]
Applies the patch to /repo (git apply), runs the quick checks, prints which fire, and always restores /repo
(git checkout -- . ; untracked files the patch created are removed)."""
import json, os, subprocess, sys
HERE = os.path.dirname(os.path.dirname(os.path.abspath(__file__)))

def main():
    patch = os.path.abspath(sys.argv[1])
    props = "all"
    if "--props" in sys.argv:
        props = sys.argv[sys.argv.index("--props") + 1]
    m = json.load(open(os.path.join(HERE, "MANIFEST.json")))
    ids = [c["property_id"] for c in m["checks"]] if props == "all" else props.split(",")
    st = subprocess.run(["git", "-C", "/repo", "status", "--porcelain"], capture_output=True, text=True).stdout.strip()
    if st:
        sys.exit("/repo is not clean:\n" + st)
    r = subprocess.run(["git", "-C", "/repo", "apply", patch], capture_output=True, text=True)
    if r.returncode != 0:
        sys.exit("patch does not apply: " + r.stderr)
    fired = {}
    try:
        if "--no-restore" in sys.argv:
            # sweep: one process for all properties (same rules, same facts; no evidence written)
            r = subprocess.run([os.path.join(HERE, "check"), ",".join(ids), "--tier", "quick", "--no-evidence"], capture_output=True, text=True, cwd=HERE)
            for l in r.stdout.splitlines():
                if l.startswith("FIRED "):
                    _, p, key = l.split(" ", 2)
                    fired.setdefault(p, []).append(key)
            if r.returncode not in (0, 1) or (r.returncode == 1 and not fired):
                fired["ENGINE"] = ["sweep failed: " + (r.stdout + r.stderr)[-300:]]
        else:
            for p in ids:
                r = subprocess.run([os.path.join(HERE, "check"), p, "--tier", "quick"], capture_output=True, text=True, cwd=HERE)
                keys = [l.split("key    :")[1].strip() for l in r.stdout.splitlines() if l.strip().startswith("key    :")]
                if r.returncode != 0 or keys:
                    fired[p] = keys or ["exit=%d" % r.returncode]
    finally:
        subprocess.run(["git", "-C", "/repo", "checkout", "--", "."])
        subprocess.run(["git", "-C", "/repo", "clean", "-fdq", "-e", "target"])
    print(json.dumps(fired, indent=1))
    if "--no-restore" in sys.argv:
        return
    # restore the evidence of the clean tree for the checks that ran on the patched tree
    for p in ids:
        subprocess.run([os.path.join(HERE, "check"), p, "--tier", "quick"], capture_output=True, text=True, cwd=HERE)

main()
