#!/bin/bash
# tools/new_wt.sh <name>   -> creates /tmp/wt-<name>, a detached worktree of /repo HEAD with a warm copy of /repo/target
set -e
WT=/tmp/wt-$1
git -C /repo worktree add --detach -q $WT HEAD
cp -r /repo/target $WT/target
echo $WT
