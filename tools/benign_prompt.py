#!/usr/bin/env python3
"""tools/benign_prompt.py <worktree> <comma-separated files>  -> prompt for a sub-agent asked for behaviour-PRESERVING refactors
(used to test that the checks stay silent on code where the properties still hold)."""
import sys
wt, files = sys.argv[1].rstrip("/"), sys.argv[2].split(",")
print('''You are working on a copy of the Rust project rust-lang/chalk (a trait-system solver) in the git worktree {wt} (already checked out; a pre-built `target/` directory is inside it so builds are incremental). The sandbox has NO network: always pass `--offline` to cargo. Work ONLY inside {wt}; do not read or write anything under /repo or /verif, and do not look at other /tmp/wt-* directories. NEVER use `git stash` (the stash is shared with sibling worktrees).

YOUR TASK: act as a maintainer doing routine, strictly BEHAVIOUR-PRESERVING maintenance on these files:
{files}

Produce EIGHT independent small refactorings, each as its own patch against the original commit, of the kind that shows up in ordinary clean-up pull requests. They must not change what the code computes for any input - no bug fixes, no bug introductions, no changed outputs, no changed panics - only how the code is written. Use a VARIETY of kinds, for example: extract a few lines into a private helper function (or inline a small helper); rename local variables or a private function; turn an `if let` into a `match` or vice versa; replace an explicit loop by an iterator chain or vice versa (same elements, same order, same effects); reorder two independent statements or two match arms that cannot both match; replace `x.is_some() / unwrap` by pattern matching; hoist a repeated sub-expression into a `let`; split a long function into two; change `a || b` into an early `return`; add a `debug!`/`trace!` logging line; add or reword comments and doc comments; move a helper to a different place in the same file; replace indexing `[..i]` by `.iter().take(i)` where equivalent; introduce a named constant; use `?` instead of an explicit `match` on a Result. Prefer the central functions of those files (the big match statements, the main loops), not peripheral code - the goal is to restructure important code without changing its meaning.

For EACH refactoring k = 1..8:
 - start from the original commit (`git checkout -- . ` to drop the previous one),
 - make the change, make sure `cargo check --workspace --offline` succeeds without new warnings,
 - save it: `git diff > {wt}/benign_out/refactor_k.diff` (create the directory first) plus one line in {wt}/benign_out/README.md saying what kind of refactoring it is and why it cannot change behaviour.
At the end, apply ALL eight together if they do not conflict (otherwise the largest non-conflicting subset), run the whole suite once: `cd {wt} && cargo test --workspace --offline --no-fail-fast 2>&1 | grep -E "^test result|FAILED|panicked"` (all `test result:` lines must say ok; 550 tests), fix or drop any refactoring that breaks a test (then it was not behaviour-preserving), and record in README.md which were applied together and the outcome. Leave the worktree at the original commit plus the combined patch.

In your final answer list the eight refactorings (one line each) and the test outcome.'''.format(wt=wt, files="\n".join("  - " + f for f in files)))
