"""Per-property claim table (source of MANIFEST.json)."""
NOTES = ("All checks are static: a rustc driver extracts THIR/MIR facts from /repo's current working tree and a rule "
         "engine decides structural necessary conditions of each property. No chalk code is executed by any check. "
         "Known genuine defects are listed in known_findings.jsonl and printed as KNOWN-FINDING lines.")

NOT_APPLICABLE = {
    "C02": "completeness of proof search for closed goals is a property of solver dynamics (cycle detection, fixed-point "
           "iteration); no structural necessary condition beyond those checked under C01/C05/C09 exists, and an "
           "ambiguity-source inventory would be a drift detector with false alarms",
    "C13": "order-independence of aggregated answers depends on the run-time arrival order of answers; the only shaped "
           "clause (commutative combine / with_priorities) is checked under C17 and C07",
}

PARTIAL = "Decides the named structural clauses only; the behavioural remainder stated in DESIGN.md section 4 is not decided. "
TRUST = "Trusted: rustc's THIR/MIR for the pinned nightly, callee resolution, the spec tables and audit reasons in /verif/rules."

CLAIMS = {
    "C16": {
        "text": "Every folder in the workspace is kind-complete (ty/lifetime/const) per callback family; the canonicalizer numbers "
                "unbound variables by union-find root in first-occurrence order; universe collection precedes mapping and both "
                "maps index one sorted vector; invert refuses free existentials before inverting. These hold for every input "
                "because they are properties of the code's shape; round-trip equality itself is not decided.",
        "note": PARTIAL + TRUST,
        "technique": "sibling-completeness of trait impl override sets + MIR dominance + THIR match tables",
    },
    "C23": {
        "text": "Every method of the recording wrapper (RustIrDatabase and UnificationDatabase impls) that takes or returns an item id "
                "records it on every path (MIR dominance), the stub collector visits every datum kind the writer prints through the "
                "same getters, and the id collector covers every id-carrying TyKind/WhereClause variant without cutting traversal. "
                "Whether stubs suffice to reproduce answers is not decided.",
        "note": PARTIAL + TRUST + " Exceptions table in rules/props/c23.py (name getters, coherence-only getter, coroutine arm).",
        "technique": "wrapper-discipline sibling check over trait impl methods + MIR must-pass-through + THIR match tables",
    },
    "C22": {
        "text": "Writer and parser agree on their tables: WellKnownTrait<->#[lang] names are inverse bijections, every attribute the "
                "grammar accepts on an item kind is emitted by that item's writer, every datum field is read by its writer, every "
                "emitted keyword is a grammar terminal. Round-trip equality of programs is not decided.",
        "note": PARTIAL + TRUST + " The grammar file is tokenized lexically (rules/grammar.py).",
        "technique": "cross-check of THIR match tables / string literals of the writer against the tokenized LALRPOP grammar",
    },
    "C08": {
        "text": "The TyKind -> outcome-class tables of the Sized/Copy/Clone/Tuple/FnPtr clause generators, extracted from THIR pattern "
                "matrices for all 23 TyKind variants x variable kinds, equal a spec table written from the Rust reference; helper "
                "functions pick the components the rules name (last field, last/all tuple elements, array element, upvars). This "
                "decides the clause-generation half of the property for every type; solving those clauses is C01.",
        "note": TRUST + " The spec tables in rules/props/c08.py are trusted.",
        "technique": "exhaustive pattern-matrix table extraction (THIR) compared with a spec table",
    },
    "C18": {
        "text": "Exhaustive over all 23x23 TyKind pairs: whenever either side is a kind the unifier can relate to a different kind (the set "
                "is derived from relate_ty_ty's own extracted table) the pre-filter answers constant true; a same-constructor arm becomes "
                "false only through equality of a field the unifier also compares or through could_match/zip_substs on corresponding "
                "components; lifetimes/consts/binders never reject; every user filters against the goal it is solving. This decides the "
                "property for type structure.",
        "note": TRUST + " The derived Zip impls for DomainGoal/TraitRef wrappers are trusted to zip corresponding fields.",
        "technique": "exhaustive two-column pattern-matrix evaluation (THIR) cross-checked against the unifier's matrix",
    },
    "C20": {
        "text": "The clause tables that constitute the orphan rules are compared with a spec: TraitDatum's LocalImplAllowed clauses "
                "(exclusive IsFullyVisible prefix 0..i then IsLocal(p_i), over all parameters), AdtDatum's IsLocal/IsUpstream/"
                "DownstreamType/IsFullyVisible clauses under all four (upstream, fundamental) flag assignments (symbolic evaluation of "
                "the flag conditions), coverage of built-in types by match_ty, and the orphan goal's shape and error edge.",
        "note": TRUST + " Known finding F8 (built-in types get no IsUpstream/IsFullyVisible clauses) is listed in known_findings.jsonl.",
        "technique": "symbolic evaluation of flag conditions over THIR + clause-shape tables vs spec + MIR edge dominance",
    },
    "C26": {
        "text": "All compute_flags tables are extracted and compared with a spec: every term-carrying field of every TyKind, WhereClause, "
                "AliasTy and const is consumed by a flag-producing expression (field coverage over the ADT definitions), leaf kinds "
                "contribute exactly their own flags and composite kinds none, the two const-value tables agree, Substitution ORs all "
                "arguments, and TyData.flags is only built from compute_flags of the same kind in every crate.",
        "note": TRUST + " 'projection'/'opaque' are read as AliasTy occurrences (TyKind::AssociatedType/OpaqueType set no flag today; recorded as an interpretation).",
        "technique": "field-coverage analysis over ADT definitions + exhaustive match-table extraction vs spec table",
    },
    "C15": {
        "category": "proof",
        "text": "For the normal exits the first sentence is decided completely: in InferenceTable::relate, snapshot() dominates the unifier, "
                "the Err edge of the unifier's result reaches the return only through rollback_to of that very snapshot and the Ok edge "
                "only through commit (MIR edge reachability); the Unifier is constructed only in Unifier::new, which is called only from "
                "that region (whole-workspace call graph); snapshot/rollback cover every field of InferenceTable; a snapshot is neither "
                "Clone nor Copy and is consumed by value. Second sentence: the 280 unordered kind pairs of the three relate tables are "
                "symmetric under argument swap with directional helpers mirrored by variance.invert(). Obligations = rule instances.",
        "note": "Trusted: rustc MIR/THIR, ena's snapshot/rollback_to/commit. The unwinding exit is outside the statement. " + TRUST,
        "technique": "MIR must-pass-through on result edges + who-may-call + field coverage + impl-table typestate + pattern-matrix symmetry",
    },
    "C14": {
        "text": "The set of variable-binding sites equals an audited table; the two sites that bind structured values are dominated by a "
                "successful OccursCheck fold (created with the bound variable and its own universe) whose result is the value bound; "
                "promotions are guarded by `universe_index < ui`; OccursCheck rejects invisible type/const placeholders and cycles; "
                "unify_values keeps min universe; relate_var_ty's kind gate, the rigid 19x19 table and relate_binders' instantiation order "
                "match the spec. MGU-ness itself is not decided.",
        "note": PARTIAL + TRUST,
        "technique": "who-may-call table + MIR dominance over call and result edges + exhaustive match tables",
    },
    "C29": {
        "text": "Variance::xform/invert equal the composition tables; relate_ty_ty relates every component of all 19 rigid constructors at the "
                "variance in a spec table (refs, raw pointers, tuples, fn pointers, dyn, declared ADT/fn-def variances via zip_substs); "
                "push_lifetime_outlives_goals' direction table composed with Ref's lifetime position yields 'a: 'b; generalize_ty agrees "
                "with relate_ty_ty; both engines refuse subtype goals between two general variables.",
        "note": PARTIAL + TRUST + " Declared *lifetime* parameter positions are not armed (convention ambiguous, DESIGN.md C29).",
        "technique": "symbolic rendering of variance expressions per match arm (THIR) compared with a spec table",
    },
}
