"""Per-property claim table (source of MANIFEST.json)."""
NOTES = ("All checks are static: a rustc driver extracts THIR/MIR facts from /repo's current working tree and a rule "
         "engine decides structural necessary conditions of each property. No chalk code is executed by any check. "
         "Known genuine defects are listed in known_findings.jsonl and printed as KNOWN-FINDING lines.")

NOT_APPLICABLE = {
    "C02": "completeness of proof search for closed goals is a property of solver dynamics (cycle detection, fixed-point "
           "iteration); no structural necessary condition beyond those checked under C01/C05/C09 exists, and an "
           "ambiguity-source inventory would be a drift detector with false alarms",
    "C13": "order-independence of aggregated answers depends on the run-time arrival order of answers; the only shaped "
           "clause (commutative combine / with_priorities) is checked under C17 and C07",
}

PARTIAL = "Decides the named structural clauses only; the behavioural remainder stated in DESIGN.md section 4 is not decided. "
TRUST = "Trusted: rustc's THIR/MIR for the pinned nightly, callee resolution, the spec tables and audit reasons in /verif/rules."

CLAIMS = {
    "C16": {
        "text": "Every folder in the workspace is kind-complete (ty/lifetime/const) per callback family; the canonicalizer numbers "
                "unbound variables by union-find root in first-occurrence order; universe collection precedes mapping and both "
                "maps index one sorted vector; invert refuses free existentials before inverting. These hold for every input "
                "because they are properties of the code's shape; round-trip equality itself is not decided.",
        "note": PARTIAL + TRUST,
        "technique": "sibling-completeness of trait impl override sets + MIR dominance + THIR match tables",
    },
    "C23": {
        "text": "Every method of the recording wrapper (RustIrDatabase and UnificationDatabase impls) that takes or returns an item id "
                "records it on every path (MIR dominance), the stub collector visits every datum kind the writer prints through the "
                "same getters, and the id collector covers every id-carrying TyKind/WhereClause variant without cutting traversal. "
                "Whether stubs suffice to reproduce answers is not decided.",
        "note": PARTIAL + TRUST + " Exceptions table in rules/props/c23.py (name getters, coherence-only getter, coroutine arm).",
        "technique": "wrapper-discipline sibling check over trait impl methods + MIR must-pass-through + THIR match tables",
    },
    "C22": {
        "text": "Writer and parser agree on their tables: WellKnownTrait<->#[lang] names are inverse bijections, every attribute the "
                "grammar accepts on an item kind is emitted by that item's writer, every datum field is read by its writer, every "
                "emitted keyword is a grammar terminal. Round-trip equality of programs is not decided.",
        "note": PARTIAL + TRUST + " The grammar file is tokenized lexically (rules/grammar.py).",
        "technique": "cross-check of THIR match tables / string literals of the writer against the tokenized LALRPOP grammar",
    },
    "C08": {
        "text": "The TyKind -> outcome-class tables of the Sized/Copy/Clone/Tuple/FnPtr clause generators, extracted from THIR pattern "
                "matrices for all 23 TyKind variants x variable kinds, equal a spec table written from the Rust reference; helper "
                "functions pick the components the rules name (last field, last/all tuple elements, array element, upvars). This "
                "decides the clause-generation half of the property for every type; solving those clauses is C01.",
        "note": TRUST + " The spec tables in rules/props/c08.py are trusted.",
        "technique": "exhaustive pattern-matrix table extraction (THIR) compared with a spec table",
    },
}
