"""Per-property claim table (source of MANIFEST.json)."""
NOTES = ("All checks are static: a rustc driver extracts THIR/MIR facts from /repo's current working tree and a rule "
         "engine decides structural necessary conditions of each property. No chalk code is executed by any check. "
         "Known genuine defects are listed in known_findings.jsonl and printed as KNOWN-FINDING lines.")

NOT_APPLICABLE = {
    "C02": "completeness of proof search for closed goals is a property of solver dynamics (cycle detection, fixed-point "
           "iteration); no structural necessary condition beyond those checked under C01/C05/C09 exists, and an "
           "ambiguity-source inventory would be a drift detector with false alarms",
    "C13": "order-independence of aggregated answers depends on the run-time arrival order of answers; the only shaped "
           "clause (commutative combine / with_priorities) is checked under C17 and C07",
}

PARTIAL = "Decides the named structural clauses only; the behavioural remainder stated in DESIGN.md section 4 is not decided. "
TRUST = "Trusted: rustc's THIR/MIR for the pinned nightly, callee resolution, the spec tables and audit reasons in /verif/rules."

CLAIMS = {
    "C16": {
        "text": "Every folder in the workspace is kind-complete (ty/lifetime/const) per callback family; the canonicalizer numbers "
                "unbound variables by union-find root in first-occurrence order; universe collection precedes mapping and both "
                "maps index one sorted vector; invert refuses free existentials before inverting. These hold for every input "
                "because they are properties of the code's shape; round-trip equality itself is not decided.",
        "note": PARTIAL + TRUST,
        "technique": "sibling-completeness of trait impl override sets + MIR dominance + THIR match tables",
    },
    "C23": {
        "text": "Every method of the recording wrapper (RustIrDatabase and UnificationDatabase impls) that takes or returns an item id "
                "records it on every path (MIR dominance), the stub collector visits every datum kind the writer prints through the "
                "same getters, and the id collector covers every id-carrying TyKind/WhereClause variant without cutting traversal. "
                "Whether stubs suffice to reproduce answers is not decided.",
        "note": PARTIAL + TRUST + " Exceptions table in rules/props/c23.py (name getters, coherence-only getter, coroutine arm).",
        "technique": "wrapper-discipline sibling check over trait impl methods + MIR must-pass-through + THIR match tables",
    },
    "C22": {
        "text": "Writer and parser agree on their tables: WellKnownTrait<->#[lang] names are inverse bijections, every attribute the "
                "grammar accepts on an item kind is emitted by that item's writer, every datum field is read by its writer, every "
                "emitted keyword is a grammar terminal. Round-trip equality of programs is not decided.",
        "note": PARTIAL + TRUST + " The grammar file is tokenized lexically (rules/grammar.py).",
        "technique": "cross-check of THIR match tables / string literals of the writer against the tokenized LALRPOP grammar",
    },
    "C08": {
        "text": "The TyKind -> outcome-class tables of the Sized/Copy/Clone/Tuple/FnPtr clause generators, extracted from THIR pattern "
                "matrices for all 23 TyKind variants x variable kinds, equal a spec table written from the Rust reference; helper "
                "functions pick the components the rules name (last field, last/all tuple elements, array element, upvars). This "
                "decides the clause-generation half of the property for every type; solving those clauses is C01.",
        "note": TRUST + " The spec tables in rules/props/c08.py are trusted.",
        "technique": "exhaustive pattern-matrix table extraction (THIR) compared with a spec table",
    },
    "C18": {
        "text": "Exhaustive over all 23x23 TyKind pairs: whenever either side is a kind the unifier can relate to a different kind (the set "
                "is derived from relate_ty_ty's own extracted table) the pre-filter answers constant true; a same-constructor arm becomes "
                "false only through equality of a field the unifier also compares or through could_match/zip_substs on corresponding "
                "components; lifetimes/consts/binders never reject; every user filters against the goal it is solving. This decides the "
                "property for type structure.",
        "note": TRUST + " The derived Zip impls for DomainGoal/TraitRef wrappers are trusted to zip corresponding fields.",
        "technique": "exhaustive two-column pattern-matrix evaluation (THIR) cross-checked against the unifier's matrix",
    },
    "C20": {
        "text": "The clause tables that constitute the orphan rules are compared with a spec: TraitDatum's LocalImplAllowed clauses "
                "(exclusive IsFullyVisible prefix 0..i then IsLocal(p_i), over all parameters), AdtDatum's IsLocal/IsUpstream/"
                "DownstreamType/IsFullyVisible clauses under all four (upstream, fundamental) flag assignments (symbolic evaluation of "
                "the flag conditions), coverage of built-in types by match_ty, and the orphan goal's shape and error edge.",
        "note": TRUST + " Known finding F8 (built-in types get no IsUpstream/IsFullyVisible clauses) is listed in known_findings.jsonl.",
        "technique": "symbolic evaluation of flag conditions over THIR + clause-shape tables vs spec + MIR edge dominance",
    },
    "C26": {
        "text": "All compute_flags tables are extracted and compared with a spec: every term-carrying field of every TyKind, WhereClause, "
                "AliasTy and const is consumed by a flag-producing expression (field coverage over the ADT definitions), leaf kinds "
                "contribute exactly their own flags and composite kinds none, the two const-value tables agree, Substitution ORs all "
                "arguments, and TyData.flags is only built from compute_flags of the same kind in every crate.",
        "note": TRUST + " 'projection'/'opaque' are read as AliasTy occurrences (TyKind::AssociatedType/OpaqueType set no flag today; recorded as an interpretation).",
        "technique": "field-coverage analysis over ADT definitions + exhaustive match-table extraction vs spec table",
    },
}
