"""Per-property claim table (source of MANIFEST.json)."""
NOTES = ("All checks are static: a rustc driver extracts THIR/MIR facts from /repo's current working tree and a rule "
         "engine decides structural necessary conditions of each property. No chalk code is executed by any check. "
         "Known genuine defects are listed in known_findings.jsonl and printed as KNOWN-FINDING lines.")

NOT_APPLICABLE = {
    "C02": "completeness of proof search for closed goals is a property of solver dynamics (cycle detection, fixed-point "
           "iteration); no structural necessary condition beyond those checked under C01/C05/C09 exists, and an "
           "ambiguity-source inventory would be a drift detector with false alarms",
    "C13": "order-independence of aggregated answers depends on the run-time arrival order of answers; the only shaped "
           "clause (commutative combine / with_priorities) is checked under C17 and C07",
}

PARTIAL = "Decides the named structural clauses only; the behavioural remainder stated in DESIGN.md section 4 is not decided. "
TRUST = "Trusted: rustc's THIR/MIR for the pinned nightly, callee resolution, the spec tables and audit reasons in /verif/rules."

CLAIMS = {
    "C16": {
        "text": "Every folder in the workspace is kind-complete (ty/lifetime/const) per callback family; the canonicalizer numbers "
                "unbound variables by union-find root in first-occurrence order; universe collection precedes mapping and both "
                "maps index one sorted vector; invert refuses free existentials before inverting. These hold for every input "
                "because they are properties of the code's shape; round-trip equality itself is not decided.",
        "note": PARTIAL + TRUST,
        "technique": "sibling-completeness of trait impl override sets + MIR dominance + THIR match tables",
    },
    "C23": {
        "text": "Every method of the recording wrapper (RustIrDatabase and UnificationDatabase impls) that takes or returns an item id "
                "records it on every path (MIR dominance), the stub collector visits every datum kind the writer prints through the "
                "same getters, and the id collector covers every id-carrying TyKind/WhereClause variant without cutting traversal. "
                "Whether stubs suffice to reproduce answers is not decided.",
        "note": PARTIAL + TRUST + " Exceptions table in rules/props/c23.py (name getters, coherence-only getter, coroutine arm).",
        "technique": "wrapper-discipline sibling check over trait impl methods + MIR must-pass-through + THIR match tables",
    },
    "C22": {
        "text": "Writer and parser agree on their tables: WellKnownTrait<->#[lang] names are inverse bijections, every attribute the "
                "grammar accepts on an item kind is emitted by that item's writer, every datum field is read by its writer, every "
                "emitted keyword is a grammar terminal. Round-trip equality of programs is not decided.",
        "note": PARTIAL + TRUST + " The grammar file is tokenized lexically (rules/grammar.py).",
        "technique": "cross-check of THIR match tables / string literals of the writer against the tokenized LALRPOP grammar",
    },
    "C08": {
        "text": "The TyKind -> outcome-class tables of the Sized/Copy/Clone/Tuple/FnPtr clause generators, extracted from THIR pattern "
                "matrices for all 23 TyKind variants x variable kinds, equal a spec table written from the Rust reference; helper "
                "functions pick the components the rules name (last field, last/all tuple elements, array element, upvars). This "
                "decides the clause-generation half of the property for every type; solving those clauses is C01.",
        "note": TRUST + " The spec tables in rules/props/c08.py are trusted.",
        "technique": "exhaustive pattern-matrix table extraction (THIR) compared with a spec table",
    },
    "C18": {
        "text": "Exhaustive over all 23x23 TyKind pairs: whenever either side is a kind the unifier can relate to a different kind (the set "
                "is derived from relate_ty_ty's own extracted table) the pre-filter answers constant true; a same-constructor arm becomes "
                "false only through equality of a field the unifier also compares or through could_match/zip_substs on corresponding "
                "components; lifetimes/consts/binders never reject; every user filters against the goal it is solving. This decides the "
                "property for type structure.",
        "note": TRUST + " The derived Zip impls for DomainGoal/TraitRef wrappers are trusted to zip corresponding fields.",
        "technique": "exhaustive two-column pattern-matrix evaluation (THIR) cross-checked against the unifier's matrix",
    },
    "C20": {
        "text": "The clause tables that constitute the orphan rules are compared with a spec: TraitDatum's LocalImplAllowed clauses "
                "(exclusive IsFullyVisible prefix 0..i then IsLocal(p_i), over all parameters), AdtDatum's IsLocal/IsUpstream/"
                "DownstreamType/IsFullyVisible clauses under all four (upstream, fundamental) flag assignments (symbolic evaluation of "
                "the flag conditions), coverage of built-in types by match_ty, and the orphan goal's shape and error edge.",
        "note": TRUST + " Known finding F8 (built-in types get no IsUpstream/IsFullyVisible clauses) is listed in known_findings.jsonl.",
        "technique": "symbolic evaluation of flag conditions over THIR + clause-shape tables vs spec + MIR edge dominance",
    },
    "C26": {
        "text": "All compute_flags tables are extracted and compared with a spec: every term-carrying field of every TyKind, WhereClause, "
                "AliasTy and const is consumed by a flag-producing expression (field coverage over the ADT definitions), leaf kinds "
                "contribute exactly their own flags and composite kinds none, the two const-value tables agree, Substitution ORs all "
                "arguments, and TyData.flags is only built from compute_flags of the same kind in every crate.",
        "note": TRUST + " 'projection'/'opaque' are read as AliasTy occurrences (TyKind::AssociatedType/OpaqueType set no flag today; recorded as an interpretation).",
        "technique": "field-coverage analysis over ADT definitions + exhaustive match-table extraction vs spec table",
    },
    "C15": {
        "category": "proof",
        "text": "For the normal exits the first sentence is decided completely: in InferenceTable::relate, snapshot() dominates the unifier, "
                "the Err edge of the unifier's result reaches the return only through rollback_to of that very snapshot and the Ok edge "
                "only through commit (MIR edge reachability); the Unifier is constructed only in Unifier::new, which is called only from "
                "that region (whole-workspace call graph); snapshot/rollback cover every field of InferenceTable; a snapshot is neither "
                "Clone nor Copy and is consumed by value. Second sentence: the 280 unordered kind pairs of the three relate tables are "
                "symmetric under argument swap with directional helpers mirrored by variance.invert(). Obligations = rule instances.",
        "note": "Trusted: rustc MIR/THIR, ena's snapshot/rollback_to/commit. The unwinding exit is outside the statement. " + TRUST,
        "technique": "MIR must-pass-through on result edges + who-may-call + field coverage + impl-table typestate + pattern-matrix symmetry",
    },
    "C14": {
        "text": "The set of variable-binding sites equals an audited table; the two sites that bind structured values are dominated by a "
                "successful OccursCheck fold (created with the bound variable and its own universe) whose result is the value bound; "
                "promotions are guarded by `universe_index < ui`; OccursCheck rejects invisible type/const placeholders and cycles; "
                "unify_values keeps min universe; relate_var_ty's kind gate, the rigid 19x19 table and relate_binders' instantiation order "
                "match the spec. MGU-ness itself is not decided.",
        "note": PARTIAL + TRUST,
        "technique": "who-may-call table + MIR dominance over call and result edges + exhaustive match tables",
    },
    "C29": {
        "text": "Variance::xform/invert equal the composition tables; relate_ty_ty relates every component of all 19 rigid constructors at the "
                "variance in a spec table (refs, raw pointers, tuples, fn pointers, dyn, declared ADT/fn-def variances via zip_substs); "
                "push_lifetime_outlives_goals' direction table composed with Ref's lifetime position yields 'a: 'b; generalize_ty agrees "
                "with relate_ty_ty; both engines refuse subtype goals between two general variables.",
        "note": PARTIAL + TRUST + " Declared *lifetime* parameter positions are not armed (convention ambiguous, DESIGN.md C29).",
        "technique": "symbolic rendering of variance expressions per match arm (THIR) compared with a spec table",
    },
    "C01": {
        "text": "Four contracts every sound implementation must keep are decided on every path: Solution::Unique is constructed only behind "
                "`no more answers && !ambiguous` (SLG) / `complete && !cannot_prove` (recursive) and nowhere else; ambiguity is monotone at every "
                "site where an ambiguous bit is read (merge_answer_into_strand edges, select_subgoal, simplify/push_goal, pursue/root answer, "
                "fulfill, truncation); negative literals are solved only through invert and fail only on a unique answer; the impl clause uses "
                "trait_ref and all where clauses for positive impls only. Soundness/completeness of resolution is not decided.",
        "note": PARTIAL + TRUST,
        "technique": "MIR edge-guard reachability + field-write must-pass-through + who-may-construct + THIR clause-shape checks",
    },
    "C03": {
        "text": "The answer store can never hold two equal entries (who-may-write Table.answers; push only behind a vacant hash entry keyed by the "
                "whole canonical answer), next_answer advances exactly once, and the `more` flag is the negated look-ahead taken after the answer. "
                "Truth and completeness of enumeration are not decided.",
        "note": PARTIAL + TRUST,
        "technique": "who-may-write field analysis + THIR statement-order / match-shape checks + MIR dominance",
    },
    "C04": {
        "text": "The two engines are checked as siblings: same three clause sources each behind the same could_match filter, floundering mapped to "
                "`cannot decide` in both, identical action class for every GoalData variant (with one reasoned exception), goal passed through "
                "unchanged. Agreement of answers is not decided.",
        "note": PARTIAL + TRUST,
        "technique": "sibling cross-check of two implementations (call-set and match-table comparison over THIR)",
    },
    "C05": {
        "text": "IsCoinductive and constituent_types tables equal a spec over all variants; auto-trait clauses only behind !impl_provided_for, which is "
                "false for all 506 cross-constructor pairs; coinductive start value, mixed-cycle error value, all-coinductive cycle test and the "
                "delayed-subgoal guard on reported answers are edge-guarded. Greatest-fixed-point correctness is not decided.",
        "note": PARTIAL + TRUST,
        "technique": "exhaustive match tables vs spec + MIR edge guards",
    },
    "C06": {
        "text": "Environment is part of every cache/table key with derived Eq/Hash; add_clauses is non-destructive and its result flows only into the "
                "Implies sub-goal in both engines; elaboration covers FromEnv(Trait) incl. all associated types and FromEnv(Ty); the env closure is "
                "a worklist fixed point; every hypothesis is lowered to a FromEnv clause. Exactness of the closure is not decided.",
        "note": PARTIAL + TRUST,
        "technique": "type/impl tables + THIR dataflow of the extended environment + MIR loop-exit guard",
    },
    "C07": {
        "text": "Normalize-From-Impl uses the impl's value under both where-clause sets and skips negative impls; the placeholder fallback is the only "
                "Low-priority clause; with_priorities is mirrored and overrides only when inputs agree; relate_alias_ty always emits the AliasEq goal. "
                "Uniqueness of normalization is not decided.",
        "note": PARTIAL + TRUST,
        "technique": "clause-shape (field coverage) checks over THIR + pattern symmetry + MIR must-pass-through",
    },
    "C09": {
        "text": "The guards the termination argument rests on are on every path: size checks before tabling / answering / pushing obligations, "
                "overflow check before stack push, the fixed-point loop's two exits and rollback, reached_fixed_point's is_ambig disjunct, and a "
                "return on every absorbing AnswerResult in solve_multiple. Termination itself and engine-wide panic freedom are not decided.",
        "note": PARTIAL + TRUST,
        "technique": "MIR edge-guard must-pass-through + loop-exit analysis + match-arm exit table",
    },
    "C10": {
        "text": "Persistent state is written only through audited paths: Cache::insert <- move_to_cache <- solve_goal, only at SCC heads after the "
                "goal left the stack, same node set with cache on/off; tables published only after build_table; keys are the full goal-in-environment "
                "with derived Eq/Hash. Equality of answers across histories is not decided.",
        "note": PARTIAL + TRUST,
        "technique": "who-may-call over the workspace call graph + MIR edge guards + impl tables",
    },
    "C11": {
        "text": "Taint rule: the value produced on the `!should_continue()` edge must not reach persistent solver state unguarded. Holds for SLG "
                "(returns before touching tables; the search never sees the callback). Violated by the recursive solver (known finding: "
                "interrupt-derived Ambig promoted by move_to_cache). Interrupted make_solution paths only build Ambig(Unknown|Suggested).",
        "note": TRUST + " Known finding listed in known_findings.jsonl.",
        "technique": "interprocedural source-to-sink flow over MIR/THIR with control-dependence guard check",
    },
    "C12": {
        "text": "Effect x ownership: at every call in SolveState that may reach a database callback (call-graph fixed point), no strand taken out of "
                "shared state is owned only by the frame (MIR cleanup-path drops with provenance); the drop guard re-enqueues and unwinds; the "
                "recursive solve_goal has no unwind pairing for its stack push. Five known findings (F6, F7).",
        "note": TRUST + " dyn dispatch over-approximated; panics inside std are not modelled.",
        "technique": "effect fixed point over the call graph x MIR unwind-path drop analysis (ownership provenance)",
    },
    "C17": {
        "text": "All 529 anti-unifier kind pairs: different constructors generalize to a fresh variable, same constructors rebuild the same constructor "
                "only from aggregated components; MayInvalidate answers true for different constructors and examines at least what the anti-unifier "
                "examines (types, consts, lifetimes); Solution::combine is symmetric and only downgrades.",
        "note": PARTIAL + TRUST,
        "technique": "exhaustive two-column pattern matrices + sibling field-usage comparison",
    },
    "C19": {
        "text": "Every panic-capable site reachable from specialization_priorities in the coherence module is audited or structurally justified; all "
                "unordered impl pairs are examined, only negative/negative skipped, non-strict overlaps are errors; both error kinds propagate. "
                "Semantic consistency of accepted priorities is not decided.",
        "note": PARTIAL + TRUST,
        "technique": "panic-site inventory over MIR in a call-graph region + match tables",
    },
    "C21": {
        "text": "checked_program verifies every ADT, opaque type and impl after coherence, propagating all errors; each verify_* answers Ok only on "
                "has_unique_solution of a closed goal with a fresh solver; the impl WF environment and header goal have both operands; the input "
                "type collector pushes and descends into every rigid kind. Adequacy of the WF goals is not decided.",
        "note": PARTIAL + TRUST,
        "technique": "MIR edge guards + THIR loop/`?` shape + exhaustive match table",
    },
    "C24": {
        "text": "Panic inventory over the whole parse + lower region (grammar actions read from the .lalrpop file and cross-checked with the compiled "
                "actions; lowering functions reachable from the entry points): every panic-capable site is audited with the reason its precondition "
                "holds; any new or unaudited site fails. Found and fixed four crashes.",
        "note": TRUST + " Audit reasons in rules/props/c24.py are trusted; lalrpop state machine internals are trusted; stack exhaustion is out of scope.",
        "technique": "panic-site inventory over MIR (call-graph region) + grammar-action scan",
    },
    "C25": {
        "text": "Every arm of the three hand-written super-folds and every one of the 45 derived TypeFoldable impls rebuilds the same variant from each "
                "field folded once with the unchanged binder depth; shifted_in is applied by exactly Binders/Canonical/FnPointer; DebruijnIndex "
                "arithmetic and the Subst/Shifter/DownShifter re-shifting have the required shape. The algebraic laws on values are not decided.",
        "note": PARTIAL + TRUST,
        "technique": "field-coverage analysis of match arms and derive expansions (THIR) + who-shifts table",
    },
    "C27": {
        "text": "Typestate/ordering skeleton of the unsafe in-place map: layout guard on every raw step; read -> progress -> map -> write(success only) "
                "in the loop with one index; Drop's two ranges and the final free; forget/ManuallyDrop pairing; MaybeUninit box before map; private, "
                "two audited callers. Holds for all lengths and failure positions.",
        "note": TRUST + " ptr::read/write, Box/Vec::from_raw(_parts), ManuallyDrop, mem::forget contracts are trusted.",
        "technique": "MIR dominance / edge-guard typestate + THIR range and argument checks + who-may-call",
    },
    "C28": {
        "text": "The substitution of every strand/Fulfill comes from from_canonical of the query (one variable per binder, kind-preserving) or from a "
                "tabled answer of the same table; returned answers pair binders and value from one canonicalize call / one answer; map_from_canonical "
                "covers binders and all placeholder kinds.",
        "note": PARTIAL + TRUST,
        "technique": "provenance (who-constructs + parameter flow) over THIR + match table + sibling-completeness",
    },
}

# clauses added in the second build session (DESIGN.md section 9.0); appended to the claim text by gen_manifest.py
EXTRA = {
    "C01": " Also: the SLG AnswerSubstitutor relates every component of every rigid constructor pair (408 pairs); both engines try every "
           "candidate clause (loop totality); reached_fixed_point is true only for an equal or ambiguous current answer (decision table "
           "by symbolic evaluation).",
    "C03": " Also: no SolveState step drops a live strand on a normal path (must-pass-through to a conserving sink; audited discard: "
           "failed merge), and the strand for the next answer index is enqueued before an answer is merged.",
    "C04": " Also: AnswerSubstitutor completeness (shared with C01) and every-candidate-clause loop totality in both engines.",
    "C05": " Also: the reached_fixed_point decision table (a changed definite answer forces another iteration).",
    "C06": " Also: the implied-bound loop treats every where clause; the elaboration worklist drops a clause only when it is already in "
           "the closure; EnvElaborator never aborts its traversal.",
    "C07": " Also: the loop over candidate impls emits every positive impl's value and never stops early.",
    "C09": " Also: the progress flag of Fulfill::fulfill is set only behind the non-trivial-substitution test, which handles all three "
           "argument kinds; reached_fixed_point stops on equality or ambiguity (decision table).",
    "C10": " Also: every result-holding field of both solvers is an audited result store; any_future_answer examines every cached answer "
           "and every pending strand; answers with delayed subgoals need a refinement strand (violated for non-root tables: known finding).",
    "C11": " Also: every result-holding field of both solvers is an audited result store; the cache promotion is guarded by an "
           "interruption flag set on every false return of the caller's callback.",
    "C12": " The recursive solver resets stack and search graph at every root entry (accepted alternative to unwind pairing).",
    "C14": " Also: the occurs check folds the value of an already-bound variable on every path.",
    "C16": " Also: the universe collector never aborts its traversal.",
    "C17": " Also: every identity test in AntiUnifier / MayInvalidate compares whole components; any_future_answer examines every cached "
           "answer and every pending strand.",
    "C19": " Also: set_priorities walks all children with p+1 on every visit and insert never lowers a priority.",
    "C21": " Also: InputTypeCollector never aborts its traversal.",
    "C22": " Also: element-dropping iterator adaptors in the writer are exactly the audited sites.",
    "C23": " Also: the recorded-id set only grows (who-may-write), re-entrant database methods are not forwarded to the wrapped database, "
           "the id collector never aborts its traversal.",
    "C29": " Also: different rigid lifetimes are always related through push_lifetime_outlives_goals with the ambient variance.",
}

# clauses added in the third build session (DESIGN.md section 9.2)
EXTRA3 = {
    "C04": " Third session: the recursive solver's SCC bookkeeping (links reported for every search-graph hit) and the fixed-point decision table "
           "are shared with C01 (a definite answer computed from a provisional cycle value contradicts the other engine).",
    "C06": " Third session: no element-dropping adaptor in any ToProgramClauses lowering (inventory, expected count 0, positive control).",
    "C07": " Third session: the clause pre-filter answers true for every kind pair with an alias on either side (90 pairs); no "
           "element-dropping adaptor in any ToProgramClauses lowering.",
    "C08": " Third session: every return of add_sized/copy/tuple_program_clauses sits inside an arm of the TyKind table (no early exit "
           "that bypasses the structural rule).",
    "C09": " Third session: select_subgoal answers Selected only behind the false edge of Table::is_floundered (justifies the engine "
           "assertion in on_subgoal_selected).",
    "C17": " Third session: every MayInvalidate function is a disjunction of its component tests (symbolic evaluation: one differing "
           "component alone makes the result true).",
    "C18": " Third session: the four pre-selection sites discard a candidate only through could_match / trait-id equality (who-may-reject).",
    "C19": " Third session: disjoint and specializes return only after the solver call on the goal they built; `true` is produced only "
           "from the solver's answer.",
    "C20": " Third session: no element-dropping adaptor in any ToProgramClauses lowering.",
    "C21": " Third session: no element-dropping adaptor in any ToProgramClauses lowering (the WF rule mentions every where clause).",
    "C23": " Third session: one name table per log (WriterState::new only from LoggingRustIrDatabase::new; the stub pass shares it "
           "through wrap_db_ref).",
    "C24": " Third session: calls from the region into panicking chalk-ir APIs are an audited inventory; the parser/lowering contract "
           "`args[0]` of every ast::TraitRef is GenericArg::Ty is checked on the compiled grammar actions.",
}
for _k, _v in EXTRA3.items():
    EXTRA[_k] = EXTRA.get(_k, "") + _v

# rounds d / e (DESIGN.md section 9.4)
EXTRA4 = {
    "C01": " Rounds d/e: any_future_answer examines every cached answer (shared with C10/C17); the cycle-head loop of the recursive solver "
           "is left only at a fixed point (shared).",
    "C03": " Rounds d/e: on_no_remaining_subgoals reports Success only behind a new answer and a restored caller strand; the green cut "
           "(take_strands) is impossible unless the answer is trivial and unconstrained (guard evaluated over all assignments); push_answer rule is name-free.",
    "C04": " Rounds d/e: fixed-point loop exits shared.",
    "C05": " Rounds d/e: create_refinement_strand declines only for an answer without delayed subgoals; fixed-point loop exits shared.",
    "C06": " Rounds d/e: the hypothesis goals (FromEnv ..) are inductive in the IsCoinductive table.",
    "C09": " Rounds d/e: new obligations enter Fulfill.obligations only through push_obligation (who-may-write a field).",
    "C10": " Rounds d/e: refinement guard, fixed-point table and loop exits shared; Forest.clock is only ever advanced.",
    "C11": " Rounds d/e: every interruption point (false edge of the continue-callback) reaches the return only through an explicitly weaker result.",
    "C12": " Rounds d/e: a table is published only after build_table returned (shared with C10); Stack::clear / SearchGraph::rollback_to reset "
           "every field that push / pop / insert change.",
    "C14": " Rounds d/e: the variable/variable kind table of relate_ty_ty is decided by symbolic evaluation (9 cells, symmetric).",
    "C15": " Rounds d/e: the variable/variable kind table is symmetric under argument swap.",
    "C16": " Rounds d/e: inversion is a consistent renaming (fresh variable created only inside the memo-map update keyed by the placeholder).",
    "C23": " Rounds d/e: IdCollector::visit_ty always descends (super_visit_with on every path).",
    "C28": " Rounds d/e: bindings of structured values pass the occurs check (which enforces universes), shared with C14; promotion applies to "
           "the visited variable also when it is done by an OccursCheck helper.",
}
for _k, _v in EXTRA4.items():
    EXTRA[_k] = EXTRA.get(_k, "") + _v

# round f
EXTRA5 = {
    "C04": " Round f: the anti-unifier tables of C17 are evaluated under C04 too (a Unique substitution must be an instance of the guidance).",
    "C07": " Round f: relate_var_ty binds only the generalized copy of a type (nested projections become AliasEq goals).",
    "C14": " Round f: relate_var_ty binds only the generalized copy of a type and relates it with the original on every path.",
    "C20": " Round f: a visibility / locality rule for tuples ranges over all elements (no slice, no element-dropping adaptor).",
    "C25": " Round f: the six default free-variable callbacks all shift the variable in by outer_binder (siblings).",
    "C29": " Round f: zip_substs relates every pair with its own position's variance (no element-dropping adaptor before enumerate).",
    "C05": " Round e: element-dropping adaptors in constituent_types are an audited inventory.",
}
for _k, _v in EXTRA5.items():
    EXTRA[_k] = EXTRA.get(_k, "") + _v

# round g
EXTRA6 = {
    "C01": " Round g: the caller of a popped cyclic SLG table inherits its cyclic minimums (Positive unchanged / Negative as {clock, min}).",
    "C03": " Round g: cyclic minimums propagation (shared with C01).",
    "C14": " Round g: a failed relate is rolled back (C15's pairing evaluated under C14); the int/float kind gate of relate_var_ty is decided by symbolic evaluation (12 cells).",
    "C16": " Round g: all three Canonicalizer callbacks shift the canonical variable in by outer_binder; binder universes are mapped back unadjusted.",
    "C22": " Round g: no item writer has an explicit early return (inventory, positive control).",
    "C28": " Round g: canonical variables are shifted in by outer_binder (shared with C16).",
    "C20": " F8 partly repaired in /repo (IsFullyVisible for built-in types and tuples); IsUpstream for built-in types stays a known finding.",
}
for _k, _v in EXTRA6.items():
    EXTRA[_k] = EXTRA.get(_k, "") + _v
EXTRA7 = {
    "C19": " Round h: every specialization reported to build_specialization_forest's closure becomes a graph edge on every path (never removed).",
    "C09": " Round h: mark_floundered empties answers and strands besides setting the flag (field coverage).",
    "C12": " Round h: no closure parameter / database-reaching function is called while a lock or RefCell guard over shared solver state is live.",
    "C10": " Round h: a completed SCC head always promotes or rolls back; the integration solver query is re-created per revision (report_untracked_read on every path).",
    "C20": " Round h: the orphan-check driver reaches its loop over all impls on every successful path; the loop drops nothing and is not left early.",
    "C03": " Round h: a Complete-mode table with pending strands never reaches the cycle clean-up; it restarts.",
    "C08": " Round h: the integration solver query is volatile (shared with C10).",
}
for _k, _v in EXTRA7.items():
    EXTRA[_k] = EXTRA.get(_k, "") + _v
EXTRA8 = {
    "C01": " Round i: the trivial-answer predicates test identity (own position), and a literal resolved with an answer inherits its ambiguous bit on every path (FACTOR).",
    "C04": " Round i: FACTOR (shared with C01).",
    "C06": " Round i: the FromEnv(T: Trait) arm pushes the trait's and all associated types' clauses unconditionally.",
    "C07": " Round i: the recursive clause loop has no exit but the trivially-true one (shared EVERY-CLAUSE).",
    "C14": " Round i: universe comparisons are read by meaning (<, >, >=, <=, can_see) with orientation.",
    "C15": " Round i: the symmetry table is refined by variable kind and mutability.",
    "C16": " Round i: every kind table keeps the kind (and the integer/float sub-kind) of what it instantiates.",
    "C17": " Round i: trivial-answer predicates test identity; F19 (MayInvalidate ignores repeated guidance variables) is a known finding, C17.REPEATED-VARIABLE.",
    "C22": " Round i: attribute tests of a *Repr/*Flags struct are independent of each other in the item writers.",
    "C28": " Round i: KIND-PRESERVING over every match on GenericArgData / VariableKind.",
}
for _k, _v in EXTRA8.items():
    EXTRA[_k] = EXTRA.get(_k, "") + _v
EXTRA9 = {
    "C09": " Round j: every root entry of the recursive solver discards what an unwound solve left in progress (stack and search graph).",
    "C19": " Round j: the pair enumeration uses no pairing/dropping adaptor (zip, filter_map, take_while ..).",
    "C18": " Round j: impl-provided associated type values are looked up for every self type in the Normalize arm.",
    "C08": " Round j: AdtVariantDatum.fields keeps declaration order (no map/set/sort on the way).",
    "C20": " Round j: perform_orphan_check returns Ok only behind the solver's yes.",
    "C25": " Round j: DownShifter tests for capture before re-adding the internal binders.",
    "C29": " The answer zipper (AnswerSubstitutor::zip_tys) relates components at the unifier's variances (SIBLING-RESOLVENT); variance expressions are evaluated by meaning through helpers.",
}
for _k, _v in EXTRA9.items():
    EXTRA[_k] = EXTRA.get(_k, "") + _v
