"""Per-property claim table (source of MANIFEST.json)."""
NOTES = ("All checks are static: a rustc driver extracts THIR/MIR facts from /repo's current working tree and a rule "
         "engine decides structural necessary conditions of each property. No chalk code is executed by any check. "
         "Known genuine defects are listed in known_findings.jsonl and printed as KNOWN-FINDING lines.")

NOT_APPLICABLE = {
    "C02": "completeness of proof search for closed goals is a property of solver dynamics (cycle detection, fixed-point "
           "iteration); no structural necessary condition beyond those checked under C01/C05/C09 exists, and an "
           "ambiguity-source inventory would be a drift detector with false alarms",
    "C13": "order-independence of aggregated answers depends on the run-time arrival order of answers; the only shaped "
           "clause (commutative combine / with_priorities) is checked under C17 and C07",
}

PARTIAL = "Decides the named structural clauses only; the behavioural remainder stated in DESIGN.md section 4 is not decided. "
TRUST = "Trusted: rustc's THIR/MIR for the pinned nightly, callee resolution, the spec tables and audit reasons in /verif/rules."

CLAIMS = {
    "C16": {
        "text": "Every folder in the workspace is kind-complete (ty/lifetime/const) per callback family; the canonicalizer numbers "
                "unbound variables by union-find root in first-occurrence order; universe collection precedes mapping and both "
                "maps index one sorted vector; invert refuses free existentials before inverting. These hold for every input "
                "because they are properties of the code's shape; round-trip equality itself is not decided.",
        "note": PARTIAL + TRUST,
        "technique": "sibling-completeness of trait impl override sets + MIR dominance + THIR match tables",
    },
}
