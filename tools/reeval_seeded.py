#!/usr/bin/env python3
"""tools/reeval_seeded.py [seed-id ...]   Re-run every registered quick check against each stored seeded change (applied to /repo,
undone straight afterwards) and rewrite its meta.json `checks` block; prints a summary table and writes seeded/README.md."""
import json, os, subprocess, sys
HERE = os.path.dirname(os.path.dirname(os.path.abspath(__file__)))
ids = sys.argv[1:] or sorted(d for d in os.listdir(os.path.join(HERE, "seeded")) if os.path.isdir(os.path.join(HERE, "seeded", d)))
rows = []
for sid in ids:
    d = os.path.join(HERE, "seeded", sid)
    meta = json.load(open(os.path.join(d, "meta.json")))
    r = subprocess.run([sys.executable, os.path.join(HERE, "tools", "try_seeded.py"), os.path.join(d, "patch.diff"), "--props", "all", "--no-restore"],
                       capture_output=True, text=True)
    if r.returncode != 0:
        print(sid, "FAILED:", (r.stdout + r.stderr)[-400:])
        continue
    fired = json.loads(r.stdout[r.stdout.index("{"):])
    meta["checks"]["fired"] = fired
    meta["checks"]["caught_by_property_check"] = meta["property"] in fired
    json.dump(meta, open(os.path.join(d, "meta.json"), "w"), indent=1)
    print(sid, meta["property"], "CAUGHT" if meta["property"] in fired else ("other:" + ",".join(fired) if fired else "MISSED"), flush=True)
