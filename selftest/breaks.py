"""Seeded breaks for the checker self-test: each entry edits one place of a scratch copy of /repo so that a property is broken while
the workspace still type-checks; `expect` is a substring of the violation key the check must report."""

BREAKS = []


def B(prop, name, file, old, new, expect):
    BREAKS.append({"prop": prop, "name": name, "file": file, "old": old, "new": new, "expect": expect})


# ---------------------------------------------------------------- C01
B("C01", "unique-without-ambiguity-test", "chalk-engine/src/slg/aggregate.rs",
  "if next_answer.is_no_more_solutions() && !ambiguous {", "if next_answer.is_no_more_solutions() {", "C01.UNIQUE-GUARD")
B("C01", "positive-ambiguous-answer-not-propagated", "chalk-engine/src/logic.rs",
  """                            debug!("Marking Strand as ambiguous because answer to (positive) subgoal was ambiguous");
                            ex_clause.ambiguous = true;""",
  """                            debug!("Marking Strand as ambiguous because answer to (positive) subgoal was ambiguous");""",
  "C01.AMBIG-PROP:merge_answer_into_strand")
B("C01", "refute-on-any-solution", "chalk-recursive/src/fulfill.rs",
  """            if solution.is_unique() {
                Err(NoSolution)
            } else {
                Ok(NegativeSolution::Ambiguous)
            }""",
  """            let _ = solution;
            Err(NoSolution)""", "C01.NEG-GROUND")
B("C01", "impl-clause-drops-where-clauses", "chalk-solve/src/clauses/program_clauses.rs",
  "                    builder.push_clause(trait_ref, where_clauses);",
  "                    let _ = where_clauses;\n                    builder.push_fact(trait_ref);", "C01.CLAUSE-COMPLETE")

# ---------------------------------------------------------------- C03
B("C03", "push-answer-even-if-present", "chalk-engine/src/table.rs",
  """        if !added {
            return None;
        }

        let index = self.answers.len();""",
  """        let _ = added;

        let index = self.answers.len();""", "C03.NO-DUP:push_answer")
B("C03", "next-answer-double-increment", "chalk-engine/src/forest.rs",
  """        let answer = self.peek_answer(should_continue);
        self.answer.increment();""",
  """        let answer = self.peek_answer(should_continue);
        self.answer.increment();
        if answer.is_quantum_exceeded() {
            self.answer.increment();
        }""", "C03.INDEX-MONOTONE")

# ---------------------------------------------------------------- C04
B("C04", "recursive-skips-filter-on-custom-clauses", "chalk-recursive/src/solve.rs",
  "        clauses.extend(db.custom_clauses().into_iter().filter(could_match));",
  "        clauses.extend(db.custom_clauses().into_iter());", "C04.CLAUSE-SOURCES")
B("C06", "slg-implies-replaces-environment", "chalk-engine/src/simplify.rs",
  """                    let new_environment = environment.add_clauses(
                        context.program().interner(),
                        wc.iter(context.program().interner()).cloned(),
                    );""",
  """                    let new_environment = Environment::new(context.program().interner()).add_clauses(
                        context.program().interner(),
                        wc.iter(context.program().interner()).cloned(),
                    );""", "C06.SCOPED")

B("C04", "slg-eq-goal-covariant", "chalk-engine/src/simplify.rs",
  "                        match infer.relate(interner, db, &environment, Variance::Invariant, a, b) {",
  "                        match infer.relate(interner, db, &environment, Variance::Covariant, a, b) {", "C04.GOAL-TABLE:EqGoal")

# ---------------------------------------------------------------- C05
B("C05", "wellformed-ty-coinductive", "chalk-solve/src/coinductive_goal.rs",
  "            GoalData::DomainGoal(DomainGoal::WellFormed(WellFormed::Trait(..))) => true,",
  "            GoalData::DomainGoal(DomainGoal::WellFormed(..)) => true,", "C05.COIND-TABLE")
B("C05", "mixed-cycle-ignored", "chalk-recursive/src/fixed_point/stack.rs",
  "        any_coinductive && any_inductive", "        any_coinductive && any_inductive && total_count > 2", "C05.MIXED")
B("C05", "auto-impl-despite-explicit-impl", "chalk-solve/src/clauses.rs",
  """    if builder.db.impl_provided_for(auto_trait_id, ty) {
        debug!("impl provided");
        return Ok(());
    }""",
  """    if builder.db.impl_provided_for(auto_trait_id, ty) {
        debug!("impl provided");
    }""", "C05.IMPL-GUARD")

# ---------------------------------------------------------------- C06
B("C06", "env-closure-one-round", "chalk-solve/src/clauses.rs",
  """        last_round.extend(
            next_round
                .drain()
                .filter(|clause| closure.insert(clause.clone())),
        );""",
  """        for clause in next_round.drain() {
            closure.insert(clause);
        }""", "C06.ELAB:program_clauses_for_env")
B("C06", "elaborator-skips-assoc-types", "chalk-solve/src/clauses/env_elaborator.rs",
  """                    for &associated_ty_id in &trait_datum.associated_ty_ids {
                        self.db
                            .associated_ty_data(associated_ty_id)
                            .to_program_clauses(self.builder, self.environment);
                    }
                    ControlFlow::Continue(())""",
  """                    ControlFlow::Continue(())""", "C06.ELAB:visit_domain_goal:FromEnv::Trait")

# ---------------------------------------------------------------- C07
B("C07", "normalize-ignores-assoc-where-clauses", "chalk-solve/src/clauses/program_clauses.rs",
  "                impl_where_clauses.chain(assoc_ty_where_clauses),",
  "                { let _ = assoc_ty_where_clauses; impl_where_clauses },", "C07.NORMALIZE-FROM-IMPL")
B("C07", "high-always-wins", "chalk-recursive/src/combine.rs",
  "            if inputs_higher == inputs_lower {", "            if inputs_higher == inputs_lower || !inputs_lower.is_empty() {", "C07.PRIORITIES")

# ---------------------------------------------------------------- C08
B("C08", "slice-sized", "chalk-solve/src/clauses/builtin_traits/sized.rs",
  """        TyKind::AssociatedType(_, _)
        | TyKind::Slice(_)
        | TyKind::OpaqueType(_, _)""",
  """        TyKind::Slice(_) => builder.push_fact(trait_ref),
        TyKind::AssociatedType(_, _)
        | TyKind::OpaqueType(_, _)""", "C08.SIZED-TABLE:sized:TyKind::Slice")
B("C08", "array-copy-unconditional", "chalk-solve/src/clauses/builtin_traits/copy.rs",
  """        TyKind::Array(ty, _) => {
            needs_impl_for_tys(db, builder, trait_ref, iter::once(ty));
        }""",
  """        TyKind::Array(_, _) => {
            builder.push_fact(trait_ref);
        }""", "C08.COPY-TABLE:copy:TyKind::Array")
B("C08", "tuple-sized-first-element", "chalk-solve/src/clauses/builtin_traits/sized.rs",
  """        .iter(interner)
        .last()
        .unwrap()""",
  """        .iter(interner)
        .next()
        .unwrap()""", "C08.HELPERS:push_tuple_sized_conditions")

# ---------------------------------------------------------------- C09
B("C09", "no-truncation-on-positive-literal", "chalk-engine/src/logic.rs",
  """        if truncate::needs_truncation(
            context.program().interner(),
            infer,
            context.max_size(),
            &subgoal,
        ) {
            None
        } else {
            let canonicalized_goal = infer
                .canonicalize(context.program().interner(), subgoal)
                .quantified;""",
  """        if truncate::needs_truncation(
            context.program().interner(),
            infer,
            context.max_size(),
            &subgoal,
        ) && context.max_size() == 0
        {
            None
        } else {
            let canonicalized_goal = infer
                .canonicalize(context.program().interner(), subgoal)
                .quantified;""", "C09.TRUNCATE")
B("C09", "fixed-point-without-ambig", "chalk-recursive/src/recursive.rs",
  """                Ok(s) => s.is_ambig(),
                Err(_) => false,""",
  """                Ok(_) => false,
                Err(_) => false,""", "C09.FIXED-POINT-TABLE:reached_fixed_point")
B("C09", "floundered-loops-again", "chalk-engine/src/solve.rs",
  "                    return f(SubstitutionResult::Floundered, false);",
  "                    SubstitutionResult::Floundered", "C09.LOOP-EXIT")

# ---------------------------------------------------------------- C10
B("C10", "cache-non-scc-head", "chalk-recursive/src/fixed_point.rs",
  "            if subgoal_minimums.positive >= dfn {", "            if subgoal_minimums.positive >= dfn || self.cache.is_some() {", "C10.CACHE-GUARD")
B("C10", "table-inserted-before-built", "chalk-engine/src/logic.rs",
  """        let table = Self::build_table(context, self.tables.next_index(), goal);
        self.tables.insert(table)""",
  """        let placeholder = Table::new(goal.clone(), false);
        let index = self.tables.insert(placeholder);
        let table = Self::build_table(context, index, goal);
        self.tables[index] = table;
        index""", "C10.TABLE-INSERT")

# ---------------------------------------------------------------- C11
B("C11", "quantum-exceeded-yields-none", "chalk-engine/src/slg/aggregate.rs",
  """            AnswerResult::QuantumExceeded => {
                return Some(Solution::Ambig(Guidance::Unknown));
            }
        };""",
  """            AnswerResult::QuantumExceeded => {
                return None;
            }
        };""", "C11.WEAKER")

# ---------------------------------------------------------------- C12
B("C12", "drop-guard-forgets-active-strand", "chalk-engine/src/logic.rs",
  """            if let Some(active_strand) = self.stack.top().active_strand.take() {
                let table = self.stack.top().table;
                self.forest.tables[table].enqueue_strand(active_strand);
            }
            self.unwind_stack();""",
  """            self.unwind_stack();""", "C12.SLG-GUARD")

B("C12", "root-entry-keeps-leftover-search-graph", "chalk-recursive/src/fixed_point.rs",
  """        self.stack.clear();
        self.search_graph.rollback_to(DepthFirstNumber::MIN);""",
  """        self.stack.clear();""", "C12.REC-PAIRING:solve_goal:unwind-of-solve_new_subgoal")

# ---------------------------------------------------------------- C14
B("C14", "const-bound-without-occurs-check", "chalk-solve/src/infer/unify.rs",
  """        let c1 = c.clone().try_fold_with(
            &mut OccursCheck::new(self, var, universe_index),
            DebruijnIndex::INNERMOST,
        )?;

        debug!("unify_var_const: var {:?} set to {:?}", var, c1);""",
  """        let _ = universe_index;
        let c1 = c.clone();

        debug!("unify_var_const: var {:?} set to {:?}", var, c1);""", "C14.OCCURS")
B("C14", "integer-var-unifies-with-anything", "chalk-solve/src/infer/unify.rs",
  "            | (TyVariableKind::Integer, true, _)", "            | (TyVariableKind::Integer, _, _)", "C14.KIND-GATE")
B("C14", "occurs-check-ignores-universe-of-const-placeholder", "chalk-solve/src/infer/unify.rs",
  """        let interner = self.interner();
        if self.universe_index < universe.ui {
            Err(NoSolution)
        } else {
            Ok(universe.to_const(interner, ty)) // no need to shift, not relative to depth
        }""",
  """        let interner = self.interner();
        Ok(universe.to_const(interner, ty)) // no need to shift, not relative to depth""", "C14.UNIVERSE")

# ---------------------------------------------------------------- C15
B("C15", "rollback-skipped-on-error", "chalk-solve/src/infer/unify.rs",
  """            Err(e) => {
                self.rollback_to(snapshot);
                Err(e)
            }""",
  """            Err(e) => {
                self.commit(snapshot);
                Err(e)
            }""", "C15.PAIRING")
B("C15", "snapshot-misses-max-universe", "chalk-solve/src/infer.rs",
  """        self.vars = snapshot.vars;
        self.max_universe = snapshot.max_universe;""",
  """        self.vars = snapshot.vars;""", "C15.COVERAGE:InferenceTable.max_universe")
B("C15", "asymmetric-error-arm", "chalk-solve/src/infer/unify.rs",
  "            (TyKind::Error, _) | (_, TyKind::Error) => Ok(()),", "            (TyKind::Error, _) => Ok(()),", "C15.SYMMETRY")

# ---------------------------------------------------------------- C16
B("C16", "canonicalizer-numbers-by-var-not-root", "chalk-solve/src/infer/canonicalize.rs",
  "                    ParameterEnaVariable::new(VariableKind::Ty(kind), self.table.unify.find(var));",
  "                    ParameterEnaVariable::new(VariableKind::Ty(kind), crate::infer::EnaVariable::from(var));", "C16.FIRST-OCCURRENCE:fold_inference_ty")
B("C16", "umap-to-canonical-drops-const-callback", "chalk-solve/src/infer/ucanonicalize.rs",
  """    fn fold_free_placeholder_const(
        &mut self,
        ty: Ty<I>,
        universe0: PlaceholderIndex,
        _outer_binder: DebruijnIndex,
    ) -> Const<I> {
        let universe = self
            .universes
            .map_universe_to_canonical(universe0.ui)
            .expect("Expected UCollector to encounter this universe");

        PlaceholderIndex {
            ui: universe,
            idx: universe0.idx,
        }
        .to_const(TypeFolder::interner(self), ty)
    }
""", "", "C16.KIND-COMPLETE:solve::infer::ucanonicalize::UMapToCanonical")
B("C16", "invert-with-free-vars", "chalk-solve/src/infer/invert.rs",
  """        if !free_vars.is_empty() {
            return None;
        }""",
  """        if free_vars.len() > 8 {
            return None;
        }""", "C16.INVERT")

# ---------------------------------------------------------------- C17
B("C17", "antiunify-keeps-one-side-for-mismatch", "chalk-engine/src/slg/aggregate.rs",
  "            (_, _) => self.new_ty_variable(),\n        }\n    }\n\n    fn aggregate_placeholder_tys",
  "            (TyKind::Never, _) => ty1.clone(),\n            (_, _) => self.new_ty_variable(),\n        }\n    }\n\n    fn aggregate_placeholder_tys",
  "C17.DEFAULT-CONSERVATIVE:AntiUnifier:(Never")
B("C17", "may-invalidate-ignores-scalars", "chalk-engine/src/slg.rs",
  "            (TyKind::Scalar(scalar_a), TyKind::Scalar(scalar_b)) => scalar_a != scalar_b,",
  "            (TyKind::Scalar(_), TyKind::Scalar(_)) => false,", "C17.SIBLING:(Scalar,Scalar)")
B("C17", "combine-prefers-self", "chalk-solve/src/solve.rs",
  """        if other.is_trivial_and_always_true(interner) {
            return other;
        }""",
  """        if other.is_trivial_and_always_true(interner) {
            return self;
        }""", "C17.SYMMETRY:combine:shortcuts")

# ---------------------------------------------------------------- C18
B("C18", "filter-rejects-alias", "chalk-ir/src/could_match.rs",
  "                    (TyKind::Error, TyKind::Error) => true,\n\n                    _ => true,",
  "                    (TyKind::Error, TyKind::Error) => true,\n                    (TyKind::Alias(_), TyKind::Adt(..)) => false,\n\n                    _ => true,",
  "C18.FLEX-TRUE:zip_tys:(Alias,Adt)")
B("C18", "filter-compares-ref-lifetimes-strictly", "chalk-ir/src/could_match.rs",
  """            ) -> Fallible<()> {
                Ok(())
            }

            fn zip_consts(""",
  """            ) -> Fallible<()> {
                Err(NoSolution)
            }

            fn zip_consts(""", "C18.LEAVES:zip_lifetimes")

# ---------------------------------------------------------------- C19
B("C19", "overlap-accepted-when-both-specialize", "chalk-solve/src/coherence/solve.rs",
  "                    (true, false) => record_specialization(l_id, r_id),", "                    (true, _) => record_specialization(l_id, r_id),", "C19.ALL-PAIRS:overlap-outcomes")
B("C19", "assert-reintroduced", "chalk-solve/src/coherence.rs",
  """        let priority = self.map.entry(impl_id).or_insert(p);
        if *priority < p {
            *priority = p;
        }""",
  """        let old_value = self.map.insert(impl_id, p);
        assert!(old_value.is_none());""", "C19.PANIC-FREE")

# ---------------------------------------------------------------- C20
B("C20", "orphan-prefix-inclusive", "chalk-solve/src/clauses/program_clauses.rs",
  """                        (0..i)
                            .map(|j| DomainGoal::IsFullyVisible(type_parameters[j].clone()))
                            .chain(Some(DomainGoal::IsLocal(type_parameters[i].clone()))),""",
  """                        (0..=i)
                            .map(|j| DomainGoal::IsFullyVisible(type_parameters[j].clone()))
                            .chain(Some(DomainGoal::IsLocal(type_parameters[i].clone()))),""", "C20.TRAIT-CLAUSES:upstream-trait")
B("C20", "upstream-fundamental-not-upstream", "chalk-solve/src/clauses/program_clauses.rs",
  "                builder.push_fact(DomainGoal::IsUpstream(self_ty.clone()));",
  "                builder.push_fact(DomainGoal::IsLocal(self_ty.clone()));", "C20.ADT-CLAUSES:AdtDatum:(upstream=True,fundamental=False)")

# ---------------------------------------------------------------- C21
B("C21", "impls-not-wf-checked", "chalk-integration/src/query.rs",
  """        for &impl_id in program.impl_data.keys() {
            solver.verify_trait_impl(impl_id)?;
        }""",
  """        for &impl_id in program.impl_data.keys().take(1) {
            solver.verify_trait_impl(impl_id)?;
        }""", "C21.PIPELINE:checked_program:for id in impl_data")
B("C21", "wf-env-forgets-trait-ref-types", "chalk-solve/src/wf.rs",
  "    wc.chain(types_wf)\n}", "    wc.chain(types_wf.take(0))\n}", "C21.ENV:impl_wf_environment")
B("C21", "collector-skips-ref-pointee", "chalk-solve/src/wf.rs",
  """                mutability.visit_with(self, outer_binder);
                lifetime.visit_with(self, outer_binder);
                ty.visit_with(self, outer_binder)""",
  """                mutability.visit_with(self, outer_binder);
                lifetime.visit_with(self, outer_binder)""", "C21.COLLECTOR:visit_ty:TyKind::Ref")

# ---------------------------------------------------------------- C22
B("C22", "writer-renames-lang-item", "chalk-solve/src/display/items.rs",
  """                WellKnownTrait::Unsize => "unsize",""", """                WellKnownTrait::Unsize => "unsized",""", "C22.LANG-TABLE:WellKnownTrait::Unsize")
B("C22", "writer-drops-repr-packed", "chalk-solve/src/display/items.rs",
  """        if repr.packed {
            write!(f, "#[repr(packed)]")?;
        }""", "", "C22.FIELD-COVERAGE")

# ---------------------------------------------------------------- C23
B("C23", "opaque-ty-not-recorded", "chalk-solve/src/logging_db.rs",
  """    fn opaque_ty_data(&self, id: OpaqueTyId<I>) -> Arc<OpaqueTyDatum<I>> {
        self.record(id);
        self.ws.db().opaque_ty_data(id)""",
  """    fn opaque_ty_data(&self, id: OpaqueTyId<I>) -> Arc<OpaqueTyDatum<I>> {
        self.ws.db().opaque_ty_data(id)""", "C23.RECORD-DISCIPLINE:opaque_ty_data")
B("C23", "collector-ignores-fn-defs", "chalk-solve/src/logging_db/id_collector.rs",
  "            TyKind::FnDef(fn_def, _) => self.record(*fn_def),", "            TyKind::FnDef(..) => (),", "C23.COLLECTOR-TABLE:visit_ty:TyKind::FnDef")

# ---------------------------------------------------------------- C24
B("C24", "unwrap-in-lowering", "chalk-integration/src/lowering/env.rs",
  """        if let Some(&id) = self.trait_ids.get(&name.str) {
            Ok(id)
        } else if self.parameter_map.get(&name.str).is_some()""",
  """        if name.str.starts_with("__") {
            Ok(*self.trait_ids.get(&name.str).unwrap())
        } else if let Some(&id) = self.trait_ids.get(&name.str) {
            Ok(id)
        } else if self.parameter_map.get(&name.str).is_some()""", "C24.PANIC-FREE")

# ---------------------------------------------------------------- C25
B("C25", "binders-not-shifted", "chalk-ir/src/fold/binder_impls.rs",
  """        let Binders {
            binders: self_binders,
            value: self_value,
        } = self;
        let value = self_value.try_fold_with(folder, outer_binder.shifted_in())?;""",
  """        let Binders {
            binders: self_binders,
            value: self_value,
        } = self;
        let value = self_value.try_fold_with(folder, outer_binder)?;""", "C25.BINDERS")
B("C25", "super-fold-swaps-ref-components", "chalk-ir/src/fold.rs",
  """            TyKind::Raw(mutability, ty) => TyKind::Raw(
                mutability.try_fold_with(folder, outer_binder)?,
                ty.clone().try_fold_with(folder, outer_binder)?,
            )""",
  """            TyKind::Raw(mutability, ty) => TyKind::Raw(
                mutability.try_fold_with(folder, outer_binder)?,
                ty.clone(),
            )""", "C25.REBUILD:TyKind::Raw")
B("C25", "shifted-out-off-by-one", "chalk-ir/src/lib.rs",
  "        self < outer_binder\n    }", "        self <= outer_binder\n    }", "C25.ARITH:within")

# ---------------------------------------------------------------- C26
B("C26", "ref-lifetime-flags-dropped", "chalk-ir/src/lib.rs",
  """            TyKind::Ref(_, lifetime, ty) => {
                lifetime.compute_flags(interner) | ty.data(interner).flags
            }""",
  """            TyKind::Ref(_, _lifetime, ty) => ty.data(interner).flags,""", "C26.COVERAGE:TyKind::Ref")
B("C26", "placeholder-flag-wrong", "chalk-ir/src/lib.rs",
  "            TyKind::Placeholder(_) => TypeFlags::HAS_TY_PLACEHOLDER,", "            TyKind::Placeholder(_) => TypeFlags::HAS_TY_INFER,", "C26.OWN:TyKind::Placeholder")

# ---------------------------------------------------------------- C27
B("C27", "progress-recorded-after-map", "chalk-ir/src/fold/in_place.rs",
  """            vec.map_in_progress = i;
            let mapped_val = map(val)?;
""",
  """            let mapped_val = map(val)?;
            vec.map_in_progress = i;
""", "C27.VEC-ORDER")
B("C27", "drop-guard-off-by-one", "chalk-ir/src/fold/in_place.rs",
  "        for i in (self.map_in_progress + 1)..self.len {", "        for i in self.map_in_progress..self.len {", "C27.VEC-DROP:drop:ranges")
B("C27", "no-zst-guard", "chalk-ir/src/fold/in_place.rs",
  """    if !is_layout_identical::<T, U>() || is_zst::<T>() {
        return vec.into_iter().map(map).collect();
    }""",
  """    if !is_layout_identical::<T, U>() {
        return vec.into_iter().map(map).collect();
    }""", "C27.LAYOUT-GUARD")

# ---------------------------------------------------------------- C28
B("C28", "const-binder-becomes-type-var", "chalk-solve/src/infer.rs",
  "            VariableKind::Const(ty) => ena_variable.to_const(interner, ty.clone()).cast(interner),",
  "            VariableKind::Const(_) => ena_variable.to_ty(interner).cast(interner),", "C28.ARITY+KIND:to_generic_arg")
B("C28", "root-answer-drops-binders", "chalk-engine/src/logic.rs",
  "                        binders: answer.subst.binders.clone(),\n                        value: ConstrainedSubst {",
  "                        binders: chalk_ir::CanonicalVarKinds::empty(context.program().interner()),\n                        value: ConstrainedSubst {", "C28.CLOSED:root_answer")

# ---------------------------------------------------------------- C29
B("C29", "mut-ref-covariant", "chalk-solve/src/infer/unify.rs",
  """                // The type is `Covariant` when not mut, `Invariant` otherwise
                let output_variance = match mutability_a {
                    Mutability::Not => Variance::Covariant,
                    Mutability::Mut => Variance::Invariant,
                };""",
  """                // The type is `Covariant` when not mut, `Invariant` otherwise
                let output_variance = match mutability_a {
                    Mutability::Not => Variance::Covariant,
                    Mutability::Mut => Variance::Covariant,
                };""", "C29.POSITIONS:relate_ty_ty:Ref")
B("C29", "xform-contra-contra", "chalk-ir/src/lib.rs",
  "            (Variance::Contravariant, Variance::Contravariant) => Variance::Covariant,",
  "            (Variance::Contravariant, Variance::Contravariant) => Variance::Contravariant,", "C29.ALGEBRA:xform(Contravariant,Contravariant)")
B("C29", "fn-pointer-params-covariant", "chalk-ir/src/zip.rs",
  """        Zip::zip_with(
            zipper,
            variance.xform(Variance::Contravariant),
            &a.0.as_slice(interner)[..a.0.len(interner) - 1],""",
  """        Zip::zip_with(
            zipper,
            variance,
            &a.0.as_slice(interner)[..a.0.len(interner) - 1],""", "C29.POSITIONS:FnSubst")

# ================================================================ added in the build round, second pass
B("C03", "positive-cycle-drops-strand", "chalk-engine/src/logic.rs",
  """        let table = self.stack.top().table;
        self.forest.tables[table].enqueue_strand(canonical_strand);

        // The strand isn't active, but the table is, so just continue""",
  """        let table = self.stack.top().table;
        let _ = table;
        drop(canonical_strand);

        // The strand isn't active, but the table is, so just continue""", "C03.STRAND-CONSERVED:on_positive_cycle")
B("C03", "next-answer-strand-same-index", "chalk-engine/src/logic.rs",
  """                let mut next_subgoal = selected_subgoal.clone();
                next_subgoal.answer_index.increment();""",
  """                let next_subgoal = selected_subgoal.clone();""", "C03.NEXT-ANSWER")
for _p in ("C01", "C04"):
    B(_p, "answer-substitutor-ignores-slice-element", "chalk-engine/src/slg/resolvent.rs",
      "            (TyKind::Slice(ty_a), TyKind::Slice(ty_b)) => Zip::zip_with(self, variance, ty_a, ty_b),",
      "            (TyKind::Slice(_), TyKind::Slice(_)) => Ok(()),", "ANSWER-SUBST:zip_tys:(Slice,Slice)")
B("C06", "implied-bound-loop-skips", "chalk-solve/src/clauses/program_clauses.rs",
  """            for qwc in where_clauses {
                builder.push_binders(qwc, |builder, wc| {
                    builder.push_clause(
                        wc.into_from_env_goal(interner),""",
  """            for qwc in where_clauses {
                if qwc.trait_id().is_none() {
                    continue;
                }
                builder.push_binders(qwc, |builder, wc| {
                    builder.push_clause(
                        wc.into_from_env_goal(interner),""", "C06.ELAB:TraitDatum:implied-bound-loop-total")
B("C07", "first-impl-with-value-wins", "chalk-solve/src/clauses.rs",
  """            atv.to_program_clauses(builder, environment);
        }""",
  """            atv.to_program_clauses(builder, environment);
            break;
        }""", "C07.EVERY-IMPL")
B("C09", "const-identity-always-trivial", "chalk-recursive/src/fulfill.rs",
  "            GenericArgData::Const(t) => is_trivial(t.bound_var(interner)),",
  "            GenericArgData::Const(_) => true,", "C09.FULFILL-PROGRESS:is_trivial_canonical_subst:Const")
B("C09", "fixed-point-needs-ambiguity", "chalk-recursive/src/recursive.rs",
  "        old_answer == current_answer || {", "        old_answer == current_answer && {", "C09.FIXED-POINT-TABLE")
for _p in ("C01", "C05"):
    B(_p, "fixed-point-on-any-error", "chalk-recursive/src/recursive.rs",
      """                Ok(s) => s.is_ambig(),
                Err(_) => false,""",
      """                Ok(s) => s.is_ambig(),
                Err(_) => true,""", "FIXED-POINT-TABLE:reached_fixed_point:(Unique,Err,different)")
for _p in ("C10", "C17"):
    B(_p, "any-future-answer-looks-at-one-cached-answer", "chalk-engine/src/logic.rs",
      """            if test(&answer.subst.value.subst) {
                return true;
            }
            answer_index.increment();
        }""",
      """            if test(&answer.subst.value.subst) {
                return true;
            }
            break;
        }""", "ANY-FUTURE:any_future_answer:all-cached-answers")
B("C17", "placeholder-universe-only", "chalk-engine/src/slg/aggregate.rs",
  "        if index1 != index2 {", "        if index1.ui != index2.ui {", "C17.LEAF-EQUALITY")
B("C19", "children-keep-parent-priority", "chalk-solve/src/coherence.rs",
  "            self.set_priorities(child_idx, forest, p + 1, map);", "            self.set_priorities(child_idx, forest, p, map);",
  "C19.PRIORITIES:set_priorities:every-child-gets-p+1")
B("C21", "collector-breaks-on-type-parameter", "chalk-solve/src/wf.rs",
  "            TyKind::BoundVar(..) => ControlFlow::Continue(()),", "            TyKind::BoundVar(..) => ControlFlow::Break(()),", "C21.COLLECT-ALL")
B("C23", "env-elaboration-forwarded", "chalk-solve/src/logging_db.rs",
  "        crate::clauses::program_clauses_for_env(self, environment)", "        self.ws.db().program_clauses_for_env(environment)", "C23.NO-BYPASS")
B("C29", "no-outlives-under-invariance", "chalk-solve/src/infer/unify.rs",
  """                if a != b {
                    self.push_lifetime_outlives_goals(variance, a.clone(), b.clone());""",
  """                if a != b && variance != Variance::Invariant {
                    self.push_lifetime_outlives_goals(variance, a.clone(), b.clone());""", "C29.LIFETIME-LEAVES")
B("C11", "cache-despite-interruption", "chalk-recursive/src/fixed_point.rs",
  "                    Some(cache) if !interrupted => {", "                    Some(cache) if !interrupted || true => {",
  "C11.NO-TAINTED-CACHE:rec::fixed_point::RecursiveContext::solve_goal:move_to_cache")
B("C11", "unwrap-on-reproved-obligation", "chalk-recursive/src/fulfill.rs",
  "                    } = self.prove(goal, minimums, should_continue.clone())?;",
  "                    } = self.prove(goal, minimums, should_continue.clone()).unwrap();", "C11.SOLVE-ERRORS-PROPAGATE")
B("C19", "overlap-error-overwritten", "chalk-solve/src/coherence/solve.rs",
  "                        return Err(CoherenceError::OverlappingImpls(self.trait_id));",
  "                        if l_id == r_id { return Err(CoherenceError::OverlappingImpls(self.trait_id)); }", "C19.ALL-PAIRS:overlap-outcomes")
B("C07", "invariant-alias-kept", "chalk-solve/src/infer/unify.rs",
  """            TyKind::Alias(_) => {
                let ena_var = self.table.new_variable(universe_index);
                ena_var.to_ty(interner)
            }""",
  """            TyKind::Alias(_) => {
                if universe_index.counter == usize::MAX {
                    return ty.clone();
                }
                let ena_var = self.table.new_variable(universe_index);
                ena_var.to_ty(interner)
            }""", "C07.ALIAS-GENERALIZED")
B("C22", "alias-counter-not-advanced", "chalk-solve/src/display/state.rs",
  "            *next_unused += 1;\n", "", "C22.NAME-INJECTIVE:alias_for_id_name:counter-advanced")
B("C19", "skip-when-either-negative", "chalk-solve/src/coherence/solve.rs",
  "            if !lhs.is_positive() && !rhs.is_positive() {", "            if !lhs.is_positive() || !rhs.is_positive() {", "C19.ALL-PAIRS:skip-only-negative-negative")
B("C08", "general-var-guard-after-sized", "chalk-solve/src/clauses/builtin_traits.rs",
  """            _ if self_ty.is_general_var(db.interner(), binders) => return Err(Floundered),
            WellKnownTrait::Sized => {
                sized::add_sized_program_clauses(db, builder, trait_ref, ty, binders)?;
            }""",
  """            WellKnownTrait::Sized => {
                sized::add_sized_program_clauses(db, builder, trait_ref, ty, binders)?;
            }
            _ if self_ty.is_general_var(db.interner(), binders) => return Err(Floundered),""", "C08.DISPATCH:dispatch:WellKnownTrait::Sized:general-var-flounders-first")
