// E1: fact extractor for the chalk workspace.
//
// A rustc driver (RUSTC_WORKSPACE_WRAPPER) that type-checks a crate exactly as
// cargo asks and, after analysis, writes one JSON fact file per crate:
//   $CHALK_FACTS_DIR/<crate_name>[.test].json
// containing ADT / trait / impl tables and, for every body owner, its MIR
// (blocks, statements, terminators with resolved callees and unwind edges) and
// THIR (expression tree with resolved patterns, variants, callees).
// Nothing is executed; nothing is keyed by line number (lines are carried only
// so reports can point somewhere).
#![feature(rustc_private)]
#![allow(clippy::all)]

extern crate rustc_abi;
extern crate rustc_ast;
extern crate rustc_driver;
extern crate rustc_hir;
extern crate rustc_interface;
extern crate rustc_middle;
extern crate rustc_span;

use rustc_driver::Compilation;
use rustc_hir::def::DefKind;
use rustc_hir::def_id::{DefId, LocalDefId, LOCAL_CRATE};
use rustc_middle::mir;
use rustc_middle::thir::{self, ExprId, ExprKind, Pat, PatKind, StmtKind, Thir};
use rustc_middle::ty::{self, Ty, TyCtxt};
use rustc_span::Span;
use std::fmt::Write as _;

// ---------------------------------------------------------------- tiny JSON

#[derive(Clone)]
enum J {
    Null,
    B(bool),
    I(i128),
    S(String),
    A(Vec<J>),
    O(Vec<(&'static str, J)>),
}

fn esc(s: &str, out: &mut String) {
    out.push('"');
    for c in s.chars() {
        match c {
            '"' => out.push_str("\\\""),
            '\\' => out.push_str("\\\\"),
            '\n' => out.push_str("\\n"),
            '\r' => out.push_str("\\r"),
            '\t' => out.push_str("\\t"),
            c if (c as u32) < 0x20 => {
                let _ = write!(out, "\\u{:04x}", c as u32);
            }
            c => out.push(c),
        }
    }
    out.push('"');
}

impl J {
    fn write(&self, out: &mut String) {
        match self {
            J::Null => out.push_str("null"),
            J::B(b) => out.push_str(if *b { "true" } else { "false" }),
            J::I(i) => {
                let _ = write!(out, "{}", i);
            }
            J::S(s) => esc(s, out),
            J::A(v) => {
                out.push('[');
                for (i, x) in v.iter().enumerate() {
                    if i > 0 {
                        out.push(',');
                    }
                    x.write(out);
                }
                out.push(']');
            }
            J::O(v) => {
                out.push('{');
                let mut first = true;
                for (k, x) in v.iter() {
                    if matches!(x, J::Null) {
                        continue;
                    }
                    if !first {
                        out.push(',');
                    }
                    first = false;
                    esc(k, out);
                    out.push(':');
                    x.write(out);
                }
                out.push('}');
            }
        }
    }
}

fn s<T: Into<String>>(x: T) -> J {
    J::S(x.into())
}
fn opt(x: Option<J>) -> J {
    x.unwrap_or(J::Null)
}

// ---------------------------------------------------------------- naming

struct Cx<'tcx> {
    tcx: TyCtxt<'tcx>,
}

impl<'tcx> Cx<'tcx> {
    fn ty_str(&self, t: Ty<'tcx>) -> String {
        let s = ty::print::with_no_trimmed_paths!(ty::print::with_crate_prefix!(format!("{}", t)));
        if s.contains("crate::") {
            let me = format!("{}::", self.tcx.crate_name(LOCAL_CRATE));
            let mut out = String::with_capacity(s.len() + 16);
            let b = s.as_bytes();
            let mut i = 0;
            while i < b.len() {
                if s[i..].starts_with("crate::")
                    && (i == 0 || !(b[i - 1].is_ascii_alphanumeric() || b[i - 1] == b'_' || b[i - 1] == b'$'))
                {
                    out.push_str(&me);
                    i += 7;
                } else {
                    let ch = s[i..].chars().next().unwrap();
                    out.push(ch);
                    i += ch.len_utf8();
                }
            }
            out
        } else {
            s
        }
    }

    /// Canonical, generics-free, line-free key of a definition.
    fn key(&self, did: DefId) -> String {
        let tcx = self.tcx;
        if did.is_crate_root() {
            return tcx.crate_name(did.krate).to_string();
        }
        let kind = tcx.def_kind(did);
        let parent = tcx.parent(did);
        match kind {
            DefKind::Impl { .. } => {
                let self_ty = tcx.type_of(did).instantiate_identity().skip_norm_wip();
                let self_s = self.self_key(self_ty);
                match tcx.impl_opt_trait_ref(did) {
                    Some(tr) => {
                        let tr = tr.instantiate_identity().skip_norm_wip();
                        format!("<{} as {}>", self_s, self.key(tr.def_id))
                    }
                    None => self_s,
                }
            }
            DefKind::Closure | DefKind::InlineConst | DefKind::AnonConst | DefKind::SyntheticCoroutineBody => {
                let dp = tcx.def_path(did);
                let last = dp.data.last().map(|d| format!("{{{:?}#{}}}", d.data, d.disambiguator)).unwrap_or_default();
                format!("{}::{}", self.key(parent), last)
            }
            _ => {
                let name = match tcx.opt_item_name(did) {
                    Some(n) => n.to_string(),
                    None => {
                        let dp = tcx.def_path(did);
                        dp.data.last().map(|d| format!("{{{:?}#{}}}", d.data, d.disambiguator)).unwrap_or_default()
                    }
                };
                format!("{}::{}", self.key(parent), name)
            }
        }
    }

    fn self_key(&self, t: Ty<'tcx>) -> String {
        match t.kind() {
            ty::Adt(adt, _) => self.key(adt.did()),
            _ => self.ty_str(t),
        }
    }

    fn span_line(&self, sp: Span) -> i128 {
        let sm = self.tcx.sess.source_map();
        let sp = sp.source_callsite();
        let lo = sm.lookup_char_pos(sp.lo());
        lo.line as i128
    }

    fn span_file(&self, sp: Span) -> String {
        let sm = self.tcx.sess.source_map();
        let sp = sp.source_callsite();
        let lo = sm.lookup_char_pos(sp.lo());
        format!("{}", lo.file.name.prefer_local_unconditionally())
    }

    /// Name of the outermost..innermost macros this span comes from ("" if none).
    fn expn(&self, sp: Span) -> J {
        if !sp.from_expansion() {
            return J::Null;
        }
        let mut names = Vec::new();
        let mut cur = sp;
        let mut n = 0;
        while cur.from_expansion() && n < 8 {
            let d = cur.ctxt().outer_expn_data();
            names.push(format!("{}", d.kind.descr()));
            cur = d.call_site;
            n += 1;
        }
        s(names.join("<"))
    }

    // ------------------------------------------------------------ callees

    /// Describe a function-typed value: FnDef (with resolution), closure, fn ptr.
    fn fn_ty_info(&self, owner: DefId, fty: Ty<'tcx>, out: &mut Vec<(&'static str, J)>) {
        let tcx = self.tcx;
        match fty.kind() {
            ty::FnDef(did, args) => {
                out.push(("fn", s(self.key(*did))));
                if let Some(assoc) = tcx.opt_associated_item(*did) {
                    if let Some(tr) = assoc.trait_container(tcx) {
                        out.push(("trait", s(self.key(tr))));
                        if args.len() > 0 {
                            if let Some(t) = args[0].as_type() {
                                out.push(("recv", s(self.ty_str(t))));
                            }
                        }
                        // try to resolve to an impl method
                        let env = ty::TypingEnv::post_analysis(tcx, owner);
                        if let Ok(Some(inst)) = ty::Instance::try_resolve(tcx, env, *did, args) {
                            let rd = inst.def_id();
                            if rd != *did {
                                out.push(("res", s(self.key(rd))));
                            }
                        }
                    } else if let Some(imp) = assoc.impl_container(tcx) {
                        let st = tcx.type_of(imp).instantiate_identity().skip_norm_wip();
                        out.push(("recv", s(self.ty_str(st))));
                    }
                }
                let targs: Vec<J> = args
                    .iter()
                    .filter_map(|a| a.as_type().map(|t| s(self.ty_str(t))))
                    .collect();
                if !targs.is_empty() {
                    out.push(("targs", J::A(targs)));
                }
            }
            ty::Closure(did, _) => {
                out.push(("closure", s(self.key(*did))));
            }
            ty::FnPtr(..) => {
                out.push(("fnptr", J::B(true)));
            }
            _ => {
                out.push(("fnty", s(self.ty_str(fty))));
            }
        }
    }

    // ------------------------------------------------------------ THIR

    fn pat(&self, p: &Pat<'tcx>) -> J {
        match &p.kind {
            PatKind::Missing => J::O(vec![("k", s("missing"))]),
            PatKind::Wild => J::O(vec![("k", s("wild"))]),
            PatKind::Binding { name, mode, subpattern, ty, .. } => J::O(vec![
                ("k", s("bind")),
                ("n", s(name.to_string())),
                ("ref", J::B(!matches!(mode.0, rustc_hir::ByRef::No))),
                ("ty", s(self.ty_str(*ty))),
                ("sub", opt(subpattern.as_ref().map(|sp| self.pat(sp)))),
            ]),
            PatKind::Variant { adt_def, variant_index, subpatterns, .. } => {
                let v = adt_def.variant(*variant_index);
                let subs: Vec<J> = subpatterns
                    .iter()
                    .map(|fp| {
                        J::A(vec![
                            J::I(fp.field.as_usize() as i128),
                            s(v.fields[fp.field].name.to_string()),
                            self.pat(&fp.pattern),
                        ])
                    })
                    .collect();
                J::O(vec![
                    ("k", s("variant")),
                    ("adt", s(self.key(adt_def.did()))),
                    ("v", s(v.name.to_string())),
                    ("vi", J::I(variant_index.as_usize() as i128)),
                    ("nf", J::I(v.fields.len() as i128)),
                    ("sub", J::A(subs)),
                ])
            }
            PatKind::Leaf { subpatterns } => {
                let (adt, names): (J, Option<Vec<String>>) = match p.ty.kind() {
                    ty::Adt(a, _) if !a.is_enum() => {
                        let v = a.non_enum_variant();
                        (
                            s(self.key(a.did())),
                            Some(v.fields.iter().map(|f| f.name.to_string()).collect()),
                        )
                    }
                    _ => (J::Null, None),
                };
                let arity = match p.ty.kind() {
                    ty::Tuple(ts) => ts.len() as i128,
                    ty::Adt(a, _) if !a.is_enum() => a.non_enum_variant().fields.len() as i128,
                    _ => -1,
                };
                let subs: Vec<J> = subpatterns
                    .iter()
                    .map(|fp| {
                        let i = fp.field.as_usize();
                        let nm = names
                            .as_ref()
                            .and_then(|n| n.get(i).cloned())
                            .unwrap_or_else(|| i.to_string());
                        J::A(vec![J::I(i as i128), s(nm), self.pat(&fp.pattern)])
                    })
                    .collect();
                J::O(vec![
                    ("k", s("leaf")),
                    ("adt", adt),
                    ("arity", J::I(arity)),
                    ("sub", J::A(subs)),
                ])
            }
            PatKind::Deref { subpattern, .. } => self.pat(subpattern),
            PatKind::DerefPattern { subpattern, .. } => self.pat(subpattern),
            PatKind::Constant { value } => {
                J::O(vec![("k", s("const")), ("v", s(format!("{}", value)))])
            }
            PatKind::Range(r) => J::O(vec![("k", s("range")), ("v", s(format!("{}", r)))]),
            PatKind::Slice { prefix, slice, suffix } | PatKind::Array { prefix, slice, suffix } => {
                J::O(vec![
                    ("k", s("slice")),
                    ("prefix", J::A(prefix.iter().map(|x| self.pat(x)).collect())),
                    ("mid", opt(slice.as_ref().map(|x| self.pat(x)))),
                    ("suffix", J::A(suffix.iter().map(|x| self.pat(x)).collect())),
                ])
            }
            PatKind::Or { pats } => J::O(vec![
                ("k", s("or")),
                ("pats", J::A(pats.iter().map(|x| self.pat(x)).collect())),
            ]),
            PatKind::Guard { subpattern, .. } => {
                J::O(vec![("k", s("guardpat")), ("sub", self.pat(subpattern))])
            }
            PatKind::Never => J::O(vec![("k", s("never"))]),
            PatKind::Error(_) => J::O(vec![("k", s("error"))]),
        }
    }

    fn exprs(&self, owner: DefId, th: &Thir<'tcx>, ids: &[ExprId]) -> J {
        J::A(ids.iter().map(|e| self.expr(owner, th, *e)).collect())
    }

    fn block(&self, owner: DefId, th: &Thir<'tcx>, b: thir::BlockId) -> J {
        let blk = &th[b];
        let mut stmts = Vec::new();
        for sid in blk.stmts.iter() {
            match &th[*sid].kind {
                StmtKind::Expr { expr, .. } => stmts.push(self.expr(owner, th, *expr)),
                StmtKind::Let { pattern, initializer, else_block, span, .. } => {
                    stmts.push(J::O(vec![
                        ("k", s("let")),
                        ("ln", J::I(self.span_line(*span))),
                        ("pat", self.pat(pattern)),
                        ("init", opt(initializer.map(|e| self.expr(owner, th, e)))),
                        ("else", opt(else_block.map(|b| self.block(owner, th, b)))),
                    ]));
                }
            }
        }
        J::O(vec![
            ("k", s("block")),
            ("unsafe", if matches!(blk.safety_mode, thir::BlockSafety::ExplicitUnsafe(_)) { J::B(true) } else { J::Null }),
            ("stmts", J::A(stmts)),
            ("expr", opt(blk.expr.map(|e| self.expr(owner, th, e)))),
        ])
    }

    fn expr(&self, owner: DefId, th: &Thir<'tcx>, id: ExprId) -> J {
        let tcx = self.tcx;
        let e = &th[id];
        let ln = J::I(self.span_line(e.span));
        match &e.kind {
            ExprKind::Scope { value, .. } => self.expr(owner, th, *value),
            ExprKind::Use { source } => self.expr(owner, th, *source),
            ExprKind::NeverToAny { source } => self.expr(owner, th, *source),
            ExprKind::PlaceTypeAscription { source, .. }
            | ExprKind::ValueTypeAscription { source, .. } => self.expr(owner, th, *source),
            ExprKind::PointerCoercion { source, .. } => J::O(vec![
                ("k", s("coerce")),
                ("ty", s(self.ty_str(e.ty))),
                ("e", self.expr(owner, th, *source)),
            ]),
            ExprKind::Cast { source } => J::O(vec![
                ("k", s("cast")),
                ("ty", s(self.ty_str(e.ty))),
                ("e", self.expr(owner, th, *source)),
            ]),
            ExprKind::If { cond, then, else_opt, .. } => J::O(vec![
                ("k", s("if")),
                ("ln", ln),
                ("x", self.expn(e.span)),
                ("cond", self.expr(owner, th, *cond)),
                ("then", self.expr(owner, th, *then)),
                ("else", opt(else_opt.map(|x| self.expr(owner, th, x)))),
            ]),
            ExprKind::Call { fun, args, ty: fty, .. } => {
                let mut o: Vec<(&'static str, J)> = vec![("k", s("call")), ("ln", ln)];
                o.push(("x", self.expn(e.span)));
                self.fn_ty_info(owner, *fty, &mut o);
                if !matches!(fty.kind(), ty::FnDef(..)) {
                    o.push(("fun", self.expr(owner, th, *fun)));
                }
                o.push(("ty", s(self.ty_str(e.ty))));
                o.push(("args", self.exprs(owner, th, args)));
                J::O(o)
            }
            ExprKind::ByUse { expr, .. } => self.expr(owner, th, *expr),
            ExprKind::Deref { arg } => {
                J::O(vec![("k", s("deref")), ("e", self.expr(owner, th, *arg))])
            }
            ExprKind::Binary { op, lhs, rhs } => J::O(vec![
                ("k", s("bin")),
                ("op", s(format!("{:?}", op))),
                ("l", self.expr(owner, th, *lhs)),
                ("r", self.expr(owner, th, *rhs)),
            ]),
            ExprKind::LogicalOp { op, lhs, rhs } => J::O(vec![
                ("k", s("logic")),
                ("op", s(format!("{:?}", op))),
                ("l", self.expr(owner, th, *lhs)),
                ("r", self.expr(owner, th, *rhs)),
            ]),
            ExprKind::Unary { op, arg } => J::O(vec![
                ("k", s("un")),
                ("op", s(format!("{:?}", op))),
                ("e", self.expr(owner, th, *arg)),
            ]),
            ExprKind::Loop { body } => {
                J::O(vec![("k", s("loop")), ("ln", ln), ("body", self.expr(owner, th, *body))])
            }
            ExprKind::LoopMatch { .. } => J::O(vec![("k", s("loopmatch"))]),
            ExprKind::Let { expr, pat } => J::O(vec![
                ("k", s("letexpr")),
                ("sty", s(self.ty_str(th[*expr].ty))),
                ("pat", self.pat(pat)),
                ("e", self.expr(owner, th, *expr)),
            ]),
            ExprKind::Match { scrutinee, arms, match_source } => {
                let sty = th[*scrutinee].ty;
                let arms_j: Vec<J> = arms
                    .iter()
                    .map(|a| {
                        let arm = &th[*a];
                        J::O(vec![
                            ("ln", J::I(self.span_line(arm.span))),
                            ("pat", self.pat(&arm.pattern)),
                            ("guard", opt(arm.guard.map(|g| self.expr(owner, th, g)))),
                            ("body", self.expr(owner, th, arm.body)),
                        ])
                    })
                    .collect();
                J::O(vec![
                    ("k", s("match")),
                    ("ln", ln),
                    ("x", self.expn(e.span)),
                    ("src", s(format!("{:?}", match_source))),
                    ("sty", s(self.ty_str(sty))),
                    ("scrut", self.expr(owner, th, *scrutinee)),
                    ("arms", J::A(arms_j)),
                ])
            }
            ExprKind::Block { block } => self.block(owner, th, *block),
            ExprKind::Assign { lhs, rhs } => J::O(vec![
                ("k", s("assign")),
                ("ln", ln),
                ("l", self.expr(owner, th, *lhs)),
                ("r", self.expr(owner, th, *rhs)),
            ]),
            ExprKind::AssignOp { op, lhs, rhs } => J::O(vec![
                ("k", s("assignop")),
                ("ln", ln),
                ("op", s(format!("{:?}", op))),
                ("l", self.expr(owner, th, *lhs)),
                ("r", self.expr(owner, th, *rhs)),
            ]),
            ExprKind::Field { lhs, variant_index, name } => {
                let lty = th[*lhs].ty;
                let (fname, adt) = match lty.kind() {
                    ty::Adt(a, _) => (
                        a.variant(*variant_index).fields[*name].name.to_string(),
                        s(self.key(a.did())),
                    ),
                    _ => (name.as_usize().to_string(), J::Null),
                };
                J::O(vec![
                    ("k", s("field")),
                    ("n", s(fname)),
                    ("adt", adt),
                    ("e", self.expr(owner, th, *lhs)),
                ])
            }
            ExprKind::Index { lhs, index } => J::O(vec![
                ("k", s("index")),
                ("ln", ln),
                ("e", self.expr(owner, th, *lhs)),
                ("i", self.expr(owner, th, *index)),
            ]),
            ExprKind::VarRef { id } => J::O(vec![
                ("k", s("var")),
                ("n", s(tcx.hir_name(id.0).to_string())),
            ]),
            ExprKind::UpvarRef { var_hir_id, .. } => J::O(vec![
                ("k", s("var")),
                ("up", J::B(true)),
                ("n", s(tcx.hir_name(var_hir_id.0).to_string())),
            ]),
            ExprKind::Borrow { borrow_kind, arg } => J::O(vec![
                ("k", s("ref")),
                ("m", if matches!(borrow_kind, mir::BorrowKind::Mut { .. }) { J::B(true) } else { J::Null }),
                ("e", self.expr(owner, th, *arg)),
            ]),
            ExprKind::RawBorrow { arg, .. } => {
                J::O(vec![("k", s("rawref")), ("e", self.expr(owner, th, *arg))])
            }
            ExprKind::Break { value, .. } => J::O(vec![
                ("k", s("break")),
                ("ln", ln),
                ("e", opt(value.map(|v| self.expr(owner, th, v)))),
            ]),
            ExprKind::Continue { .. } => J::O(vec![("k", s("continue")), ("ln", ln)]),
            ExprKind::ConstContinue { .. } => J::O(vec![("k", s("constcontinue"))]),
            ExprKind::Return { value } => J::O(vec![
                ("k", s("return")),
                ("ln", ln),
                ("x", self.expn(e.span)),
                ("e", opt(value.map(|v| self.expr(owner, th, v)))),
            ]),
            ExprKind::Become { value } => {
                J::O(vec![("k", s("become")), ("e", self.expr(owner, th, *value))])
            }
            ExprKind::ConstBlock { did, .. } => {
                J::O(vec![("k", s("constblock")), ("def", s(self.key(*did)))])
            }
            ExprKind::Repeat { value, .. } => {
                J::O(vec![("k", s("repeat")), ("e", self.expr(owner, th, *value))])
            }
            ExprKind::Array { fields } => {
                J::O(vec![("k", s("array")), ("es", self.exprs(owner, th, fields))])
            }
            ExprKind::Tuple { fields } => {
                J::O(vec![("k", s("tuple")), ("es", self.exprs(owner, th, fields))])
            }
            ExprKind::Adt(adt) => {
                let v = adt.adt_def.variant(adt.variant_index);
                let fields: Vec<J> = adt
                    .fields
                    .iter()
                    .map(|f| {
                        J::A(vec![
                            s(v.fields[f.name].name.to_string()),
                            self.expr(owner, th, f.expr),
                        ])
                    })
                    .collect();
                let base = match &adt.base {
                    thir::AdtExprBase::Base(fru) => self.expr(owner, th, fru.base),
                    _ => J::Null,
                };
                J::O(vec![
                    ("k", s("adt")),
                    ("ln", ln),
                    ("adt", s(self.key(adt.adt_def.did()))),
                    ("v", s(v.name.to_string())),
                    ("fields", J::A(fields)),
                    ("base", base),
                ])
            }
            ExprKind::PlaceUnwrapUnsafeBinder { source }
            | ExprKind::ValueUnwrapUnsafeBinder { source }
            | ExprKind::WrapUnsafeBinder { source } => self.expr(owner, th, *source),
            ExprKind::Closure(c) => J::O(vec![
                ("k", s("closure")),
                ("ln", ln),
                ("def", s(self.key(c.closure_id.to_def_id()))),
            ]),
            ExprKind::Literal { lit, neg } => J::O(vec![
                ("k", s("lit")),
                ("v", s(format!("{}{}", if *neg { "-" } else { "" }, lit_str(&lit.node)))),
            ]),
            ExprKind::NonHirLiteral { lit, .. } => {
                J::O(vec![("k", s("lit")), ("v", s(format!("{:?}", lit)))])
            }
            ExprKind::ZstLiteral { .. } => {
                let mut o: Vec<(&'static str, J)> = vec![("k", s("zst"))];
                match e.ty.kind() {
                    ty::FnDef(..) | ty::Closure(..) => self.fn_ty_info(owner, e.ty, &mut o),
                    _ => o.push(("ty", s(self.ty_str(e.ty)))),
                }
                J::O(o)
            }
            ExprKind::NamedConst { def_id, .. } => {
                J::O(vec![("k", s("const")), ("def", s(self.key(*def_id)))])
            }
            ExprKind::ConstParam { def_id, .. } => {
                J::O(vec![("k", s("constparam")), ("def", s(self.key(*def_id)))])
            }
            ExprKind::StaticRef { def_id, .. } => {
                J::O(vec![("k", s("static")), ("def", s(self.key(*def_id)))])
            }
            ExprKind::InlineAsm(_) => J::O(vec![("k", s("asm"))]),
            ExprKind::ThreadLocalRef(d) => J::O(vec![("k", s("tls")), ("def", s(self.key(*d)))]),
            ExprKind::Yield { value } => {
                J::O(vec![("k", s("yield")), ("e", self.expr(owner, th, *value))])
            }
        }
    }

    // ------------------------------------------------------------ MIR

    fn place(&self, body: &mir::Body<'tcx>, p: mir::Place<'tcx>) -> J {
        let tcx = self.tcx;
        let mut pj = Vec::new();
        let mut pty = mir::PlaceTy::from_ty(body.local_decls[p.local].ty);
        for elem in p.projection.iter() {
            match elem {
                mir::ProjectionElem::Deref => pj.push(s("*")),
                mir::ProjectionElem::Field(f, _) => {
                    let name = match pty.ty.kind() {
                        ty::Adt(a, _) => {
                            let vi = pty.variant_index.unwrap_or(rustc_abi::FIRST_VARIANT);
                            if a.is_enum() || vi == rustc_abi::FIRST_VARIANT {
                                let v = a.variant(vi);
                                if f.as_usize() < v.fields.len() {
                                    format!("{}.{}", self.key(a.did()), v.fields[f].name)
                                } else {
                                    f.as_usize().to_string()
                                }
                            } else {
                                f.as_usize().to_string()
                            }
                        }
                        _ => f.as_usize().to_string(),
                    };
                    pj.push(J::O(vec![("f", s(name))]));
                }
                mir::ProjectionElem::Downcast(name, vi) => {
                    let nm = name
                        .map(|n| n.to_string())
                        .unwrap_or_else(|| vi.as_usize().to_string());
                    pj.push(J::O(vec![("d", s(nm))]));
                }
                mir::ProjectionElem::Index(l) => {
                    pj.push(J::O(vec![("i", J::I(l.as_usize() as i128))]))
                }
                mir::ProjectionElem::ConstantIndex { offset, from_end, .. } => {
                    pj.push(J::O(vec![("ci", J::I(offset as i128)), ("end", J::B(from_end))]))
                }
                mir::ProjectionElem::Subslice { .. } => pj.push(s("subslice")),
                mir::ProjectionElem::OpaqueCast(_) => pj.push(s("opaquecast")),
                mir::ProjectionElem::UnwrapUnsafeBinder(_) => pj.push(s("unwrapbinder")),
            }
            pty = pty.projection_ty(tcx, elem);
        }
        J::O(vec![
            ("l", J::I(p.local.as_usize() as i128)),
            ("pj", if pj.is_empty() { J::Null } else { J::A(pj) }),
        ])
    }

    fn operand(&self, owner: DefId, body: &mir::Body<'tcx>, o: &mir::Operand<'tcx>) -> J {
        match o {
            mir::Operand::Copy(p) => J::O(vec![("c", self.place(body, *p))]),
            mir::Operand::Move(p) => J::O(vec![("m", self.place(body, *p))]),
            mir::Operand::Constant(c) => {
                let cty = c.const_.ty();
                let mut v: Vec<(&'static str, J)> = Vec::new();
                match cty.kind() {
                    ty::FnDef(..) | ty::Closure(..) => {
                        v.push(("k", s("fn")));
                        self.fn_ty_info(owner, cty, &mut v)
                    }
                    _ => {
                        let txt = ty::print::with_no_trimmed_paths!(format!("{}", c.const_));
                        v.push(("k", s(txt)));
                    }
                }
                J::O(v)
            }
            #[allow(unreachable_patterns)]
            _ => J::O(vec![("k", s(format!("{:?}", o)))]),
        }
    }

    fn rvalue(&self, owner: DefId, body: &mir::Body<'tcx>, r: &mir::Rvalue<'tcx>) -> J {
        let tcx = self.tcx;
        match r {
            mir::Rvalue::Use(o, _) => J::O(vec![("k", s("use")), ("o", self.operand(owner, body, o))]),
            mir::Rvalue::Ref(_, bk, p) => J::O(vec![
                ("k", s("ref")),
                ("m", if matches!(bk, mir::BorrowKind::Mut { .. }) { J::B(true) } else { J::Null }),
                ("fake", if matches!(bk, mir::BorrowKind::Fake(_)) { J::B(true) } else { J::Null }),
                ("p", self.place(body, *p)),
            ]),
            mir::Rvalue::RawPtr(_, p) => J::O(vec![("k", s("rawptr")), ("p", self.place(body, *p))]),
            mir::Rvalue::CopyForDeref(p) => {
                J::O(vec![("k", s("use")), ("o", J::O(vec![("c", self.place(body, *p))]))])
            }
            mir::Rvalue::Cast(ck, o, t) => J::O(vec![
                ("k", s("cast")),
                ("ck", s(format!("{:?}", ck))),
                ("ty", s(self.ty_str(*t))),
                ("o", self.operand(owner, body, o)),
            ]),
            mir::Rvalue::BinaryOp(op, ab) => J::O(vec![
                ("k", s("bin")),
                ("op", s(format!("{:?}", op))),
                ("a", self.operand(owner, body, &ab.0)),
                ("b", self.operand(owner, body, &ab.1)),
            ]),
            mir::Rvalue::UnaryOp(op, o) => J::O(vec![
                ("k", s("un")),
                ("op", s(format!("{:?}", op))),
                ("o", self.operand(owner, body, o)),
            ]),
            mir::Rvalue::Discriminant(p) => {
                let pty = p.ty(&body.local_decls, tcx).ty;
                let (adt, vs) = match pty.kind() {
                    ty::Adt(a, _) if a.is_enum() => {
                        let vs: Vec<J> = a
                            .discriminants(tcx)
                            .map(|(vi, d)| {
                                J::A(vec![J::I(d.val as i128), s(a.variant(vi).name.to_string())])
                            })
                            .collect();
                        (s(self.key(a.did())), J::A(vs))
                    }
                    _ => (J::Null, J::Null),
                };
                J::O(vec![("k", s("discr")), ("p", self.place(body, *p)), ("adt", adt), ("vs", vs)])
            }
            mir::Rvalue::Aggregate(kind, ops) => {
                let opsj: Vec<J> = ops.iter().map(|o| self.operand(owner, body, o)).collect();
                match &**kind {
                    mir::AggregateKind::Adt(did, vi, _, _, _) => {
                        let a = tcx.adt_def(*did);
                        let v = a.variant(*vi);
                        let names: Vec<J> = v.fields.iter().map(|f| s(f.name.to_string())).collect();
                        J::O(vec![
                            ("k", s("agg")),
                            ("adt", s(self.key(*did))),
                            ("v", s(v.name.to_string())),
                            ("fn", J::A(names)),
                            ("o", J::A(opsj)),
                        ])
                    }
                    mir::AggregateKind::Closure(did, _) => J::O(vec![
                        ("k", s("agg")),
                        ("closure", s(self.key(*did))),
                        ("o", J::A(opsj)),
                    ]),
                    mir::AggregateKind::Tuple => {
                        J::O(vec![("k", s("agg")), ("tuple", J::B(true)), ("o", J::A(opsj))])
                    }
                    mir::AggregateKind::Array(_) => {
                        J::O(vec![("k", s("agg")), ("array", J::B(true)), ("o", J::A(opsj))])
                    }
                    other => J::O(vec![
                        ("k", s("agg")),
                        ("other", s(format!("{:?}", other))),
                        ("o", J::A(opsj)),
                    ]),
                }
            }
            other => J::O(vec![("k", s("other")), ("d", s(format!("{:?}", other)))]),
        }
    }

    fn unwind(&self, u: &mir::UnwindAction) -> J {
        match u {
            mir::UnwindAction::Continue => s("cont"),
            mir::UnwindAction::Unreachable => s("unreachable"),
            mir::UnwindAction::Terminate(_) => s("terminate"),
            mir::UnwindAction::Cleanup(bb) => J::I(bb.as_usize() as i128),
        }
    }

    fn mir_body(&self, owner: DefId, body: &mir::Body<'tcx>) -> J {
        let tcx = self.tcx;
        let locals: Vec<J> = body.local_decls.iter().map(|d| s(self.ty_str(d.ty))).collect();
        let mut vars = Vec::new();
        for vdi in body.var_debug_info.iter() {
            if let mir::VarDebugInfoContents::Place(p) = vdi.value {
                vars.push(J::A(vec![s(vdi.name.to_string()), self.place(body, p)]));
            }
        }
        let mut blocks = Vec::new();
        for (_bb, data) in body.basic_blocks.iter_enumerated() {
            let mut stmts = Vec::new();
            for st in data.statements.iter() {
                match &st.kind {
                    mir::StatementKind::Assign(b) => {
                        let (p, r) = &**b;
                        stmts.push(J::O(vec![
                            ("k", s("assign")),
                            ("ln", J::I(self.span_line(st.source_info.span))),
                            ("p", self.place(body, *p)),
                            ("r", self.rvalue(owner, body, r)),
                        ]));
                    }
                    mir::StatementKind::SetDiscriminant { place, variant_index } => {
                        stmts.push(J::O(vec![
                            ("k", s("setdiscr")),
                            ("p", self.place(body, **place)),
                            ("vi", J::I(variant_index.as_usize() as i128)),
                        ]));
                    }
                    mir::StatementKind::Intrinsic(i) => {
                        stmts.push(J::O(vec![("k", s("intrinsic")), ("d", s(format!("{:?}", i)))]));
                    }
                    _ => {}
                }
            }
            let term = data.terminator();
            let tln = J::I(self.span_line(term.source_info.span));
            let tx = self.expn(term.source_info.span);
            let tj = match &term.kind {
                mir::TerminatorKind::Goto { target } => {
                    J::O(vec![("k", s("goto")), ("t", J::I(target.as_usize() as i128))])
                }
                mir::TerminatorKind::SwitchInt { discr, targets } => {
                    let vs: Vec<J> = targets
                        .iter()
                        .map(|(v, bb)| J::A(vec![J::I(v as i128), J::I(bb.as_usize() as i128)]))
                        .collect();
                    let dty = discr.ty(&body.local_decls, tcx);
                    J::O(vec![
                        ("k", s("switch")),
                        ("ln", tln),
                        ("o", self.operand(owner, body, discr)),
                        ("ty", s(self.ty_str(dty))),
                        ("v", J::A(vs)),
                        ("else", J::I(targets.otherwise().as_usize() as i128)),
                    ])
                }
                mir::TerminatorKind::UnwindResume => J::O(vec![("k", s("resume"))]),
                mir::TerminatorKind::UnwindTerminate(_) => J::O(vec![("k", s("terminate"))]),
                mir::TerminatorKind::Return => J::O(vec![("k", s("return"))]),
                mir::TerminatorKind::Unreachable => J::O(vec![("k", s("unreachable"))]),
                mir::TerminatorKind::Drop { place, target, unwind, .. } => {
                    let pty = place.ty(&body.local_decls, tcx).ty;
                    J::O(vec![
                        ("k", s("drop")),
                        ("ln", tln),
                        ("p", self.place(body, *place)),
                        ("ty", s(self.ty_str(pty))),
                        ("t", J::I(target.as_usize() as i128)),
                        ("u", self.unwind(unwind)),
                    ])
                }
                mir::TerminatorKind::Call { func, args, destination, target, unwind, .. } => {
                    let mut o: Vec<(&'static str, J)> = vec![("k", s("call")), ("ln", tln), ("x", tx)];
                    let fty = func.ty(&body.local_decls, tcx);
                    self.fn_ty_info(owner, fty, &mut o);
                    if !matches!(fty.kind(), ty::FnDef(..)) {
                        o.push(("fo", self.operand(owner, body, func)));
                    }
                    o.push((
                        "a",
                        J::A(args.iter().map(|a| self.operand(owner, body, &a.node)).collect()),
                    ));
                    o.push(("d", self.place(body, *destination)));
                    o.push(("t", opt(target.map(|t| J::I(t.as_usize() as i128)))));
                    o.push(("u", self.unwind(unwind)));
                    J::O(o)
                }
                mir::TerminatorKind::TailCall { func, .. } => {
                    let mut o: Vec<(&'static str, J)> = vec![("k", s("tailcall")), ("ln", tln)];
                    let fty = func.ty(&body.local_decls, tcx);
                    self.fn_ty_info(owner, fty, &mut o);
                    J::O(o)
                }
                mir::TerminatorKind::Assert { cond, expected, msg, target, unwind } => {
                    let kind = match &**msg {
                        mir::AssertKind::BoundsCheck { .. } => "bounds".to_string(),
                        mir::AssertKind::Overflow(op, ..) => format!("overflow:{:?}", op),
                        mir::AssertKind::OverflowNeg(_) => "overflow:Neg".to_string(),
                        mir::AssertKind::DivisionByZero(_) => "divzero".to_string(),
                        mir::AssertKind::RemainderByZero(_) => "remzero".to_string(),
                        mir::AssertKind::MisalignedPointerDereference { .. } => "misaligned".to_string(),
                        mir::AssertKind::NullPointerDereference => "nullptr".to_string(),
                        _ => "other".to_string(),
                    };
                    J::O(vec![
                        ("k", s("assert")),
                        ("ln", tln),
                        ("x", tx),
                        ("msg", s(kind)),
                        ("c", self.operand(owner, body, cond)),
                        ("exp", J::B(*expected)),
                        ("t", J::I(target.as_usize() as i128)),
                        ("u", self.unwind(unwind)),
                    ])
                }
                mir::TerminatorKind::FalseEdge { real_target, .. } => {
                    J::O(vec![("k", s("goto")), ("t", J::I(real_target.as_usize() as i128))])
                }
                mir::TerminatorKind::FalseUnwind { real_target, .. } => {
                    J::O(vec![("k", s("goto")), ("t", J::I(real_target.as_usize() as i128))])
                }
                other => J::O(vec![("k", s("otherterm")), ("d", s(format!("{:?}", other)))]),
            };
            blocks.push(J::O(vec![
                ("c", if data.is_cleanup { J::B(true) } else { J::Null }),
                ("s", J::A(stmts)),
                ("t", tj),
            ]));
        }
        J::O(vec![
            ("argc", J::I(body.arg_count as i128)),
            ("locals", J::A(locals)),
            ("vars", J::A(vars)),
            ("blocks", J::A(blocks)),
        ])
    }

    // ------------------------------------------------------------ items

    fn adts(&self) -> J {
        let tcx = self.tcx;
        let mut out = Vec::new();
        for id in tcx.hir_free_items() {
            let did = id.owner_id.to_def_id();
            let kind = tcx.def_kind(did);
            if !matches!(kind, DefKind::Struct | DefKind::Enum | DefKind::Union) {
                continue;
            }
            let a = tcx.adt_def(did);
            let variants: Vec<J> = a
                .variants()
                .iter()
                .map(|v| {
                    let fields: Vec<J> = v
                        .fields
                        .iter()
                        .map(|f| {
                            let fty = tcx.type_of(f.did).instantiate_identity().skip_norm_wip();
                            J::O(vec![
                                ("n", s(f.name.to_string())),
                                ("ty", s(self.ty_str(fty))),
                                ("pub", J::B(f.vis.is_public())),
                            ])
                        })
                        .collect();
                    J::O(vec![("n", s(v.name.to_string())), ("fields", J::A(fields))])
                })
                .collect();
            let sp = tcx.def_span(did);
            out.push(J::O(vec![
                ("key", s(self.key(did))),
                ("kind", s(format!("{:?}", kind))),
                ("file", s(self.span_file(sp))),
                ("ln", J::I(self.span_line(sp))),
                ("x", self.expn(sp)),
                ("variants", J::A(variants)),
            ]));
        }
        J::A(out)
    }

    fn traits_and_impls(&self) -> (J, J) {
        let tcx = self.tcx;
        let mut traits = Vec::new();
        let mut impls = Vec::new();
        for id in tcx.hir_free_items() {
            let did = id.owner_id.to_def_id();
            match tcx.def_kind(did) {
                DefKind::Trait => {
                    let items: Vec<J> = tcx
                        .associated_items(did)
                        .in_definition_order()
                        .map(|it| {
                            J::O(vec![
                                ("n", s(it.name().to_string())),
                                ("kind", s(format!("{:?}", it.tag()))),
                                ("default", J::B(it.defaultness(tcx).has_value())),
                            ])
                        })
                        .collect();
                    traits.push(J::O(vec![("key", s(self.key(did))), ("items", J::A(items))]));
                }
                DefKind::Impl { .. } => {
                    let self_ty = tcx.type_of(did).instantiate_identity().skip_norm_wip();
                    let tr = tcx
                        .impl_opt_trait_ref(did)
                        .map(|t| t.instantiate_identity().skip_norm_wip());
                    let items: Vec<J> = tcx
                        .associated_items(did)
                        .in_definition_order()
                        .map(|it| {
                            J::O(vec![
                                ("n", s(it.name().to_string())),
                                ("kind", s(format!("{:?}", it.tag()))),
                                ("key", s(self.key(it.def_id))),
                            ])
                        })
                        .collect();
                    let sp = tcx.def_span(did);
                    let trait_args: J = match tr {
                        Some(t) => J::A(
                            t.args
                                .iter()
                                .skip(1)
                                .map(|a| s(ty::print::with_no_trimmed_paths!(format!("{}", a))))
                                .collect(),
                        ),
                        None => J::Null,
                    };
                    impls.push(J::O(vec![
                        ("key", s(self.key(did))),
                        ("trait", opt(tr.map(|t| s(self.key(t.def_id))))),
                        ("trait_args", trait_args),
                        ("self", s(self.ty_str(self_ty))),
                        ("self_key", s(self.self_key(self_ty))),
                        ("derived", J::B(tcx.is_automatically_derived(did))),
                        ("x", self.expn(sp)),
                        ("file", s(self.span_file(sp))),
                        ("ln", J::I(self.span_line(sp))),
                        ("items", J::A(items)),
                    ]));
                }
                _ => {}
            }
        }
        (J::A(traits), J::A(impls))
    }

    fn bodies(&self) -> J {
        let tcx = self.tcx;
        let mut out = Vec::new();
        let want_thir = std::env::var("CHALK_FACTS_NO_THIR").is_err();
        for def in tcx.hir_body_owners() {
            let did = def.to_def_id();
            let kind = tcx.def_kind(did);
            if !matches!(kind, DefKind::Fn | DefKind::AssocFn | DefKind::Closure) {
                continue;
            }
            let sp = tcx.def_span(did);
            let mut o: Vec<(&'static str, J)> = vec![
                ("key", s(self.key(did))),
                ("kind", s(format!("{:?}", kind))),
                ("file", s(self.span_file(sp))),
                ("ln", J::I(self.span_line(sp))),
                ("x", self.expn(sp)),
            ];
            if matches!(kind, DefKind::Fn | DefKind::AssocFn) {
                o.push(("pub", J::B(tcx.visibility(did).is_public())));
                o.push(("name", s(tcx.item_name(did).to_string())));
                let sig = tcx.fn_sig(did).instantiate_identity().skip_norm_wip();
                o.push(("ret", s(self.ty_str(sig.output().skip_binder()))));
                o.push((
                    "params",
                    J::A(sig.inputs().skip_binder().iter().map(|t| s(self.ty_str(*t))).collect()),
                ));
                o.push(("unsafe", if sig.safety().is_unsafe() { J::B(true) } else { J::Null }));
                if let Some(assoc) = tcx.opt_associated_item(did) {
                    let cont = tcx.parent(did);
                    o.push(("container", s(self.key(cont))));
                    if let Some(ti) = assoc.trait_item_def_id() {
                        if ti != did {
                            o.push(("trait_item", s(self.key(ti))));
                        }
                    }
                }
            } else {
                o.push(("parent", s(self.key(tcx.parent(did)))));
            }
            // THIR first (MIR building steals it unless -Zno-steal-thir)
            if want_thir {
                if let Ok((thir, root)) = tcx.thir_body(def) {
                    let thir = thir.borrow();
                    if thir.exprs.len() > 0 {
                        let params: Vec<J> = thir
                            .params
                            .iter()
                            .map(|p| match &p.pat {
                                Some(pt) => self.pat(pt),
                                None => J::Null,
                            })
                            .collect();
                        o.push(("thir_params", J::A(params)));
                        o.push(("thir", self.expr(did, &thir, root)));
                    }
                }
            }
            let body = tcx.optimized_mir(did);
            o.push(("mir", self.mir_body(did, body)));
            out.push(J::O(o));
        }
        J::A(out)
    }
}

fn lit_str(l: &rustc_ast_shim::LitKind) -> String {
    format!("{:?}", l)
}

mod rustc_ast_shim {
    pub use rustc_ast::LitKind;
}

struct Cb;

impl rustc_driver::Callbacks for Cb {
    fn after_analysis<'tcx>(
        &mut self,
        _c: &rustc_interface::interface::Compiler,
        tcx: TyCtxt<'tcx>,
    ) -> Compilation {
        let dir = match std::env::var("CHALK_FACTS_DIR") {
            Ok(d) => d,
            Err(_) => return Compilation::Continue,
        };
        let krate = tcx.crate_name(LOCAL_CRATE).to_string();
        if krate == "build_script_build" {
            return Compilation::Continue;
        }
        let is_test = tcx.sess.opts.test;
        let cx = Cx { tcx };
        let (traits, impls) = cx.traits_and_impls();
        let j = J::O(vec![
            ("crate", s(krate.clone())),
            ("test", J::B(is_test)),
            ("adts", cx.adts()),
            ("traits", traits),
            ("impls", impls),
            ("bodies", cx.bodies()),
        ]);
        let mut out = String::with_capacity(1 << 24);
        j.write(&mut out);
        let fname = format!("{}/{}{}.json", dir, krate, if is_test { ".test" } else { "" });
        let tmp = format!("{}.tmp.{}", fname, std::process::id());
        std::fs::write(&tmp, out).expect("write facts");
        std::fs::rename(&tmp, &fname).expect("rename facts");
        Compilation::Continue
    }
}

fn main() {
    let mut a: Vec<String> = std::env::args().collect();
    // RUSTC_WORKSPACE_WRAPPER passes the real rustc path as argv[1]
    if a.len() > 1 && (a[1].ends_with("rustc") || a[1].ends_with("rustc.exe")) {
        a.remove(1);
    }
    rustc_driver::run_compiler(&a, &mut Cb);
}

#[allow(dead_code)]
fn _unused(_: LocalDefId) {}
