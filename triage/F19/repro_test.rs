//! A repeated variable in the current guidance is not "as general as it gets".
use super::*;

#[test]
fn repeated_variable_in_guidance_can_be_invalidated() {
    test! {
        program {
            trait Same<T> { }
            struct A { }
            struct B { }
            impl<T> Same<T> for T { }
            impl Same<B> for A { }
        }

        goal {
            exists<X, Y> { X: Same<Y> }
        } yields[SolverChoice::slg_default()] {
            expect![["Ambiguous; no inference guidance"]]
        }
    }
}

#[test]
fn repeated_const_variable_in_guidance_can_be_invalidated() {
    test! {
        program {
            struct S<const N, const M> { }
            trait Tr { }
            impl<const N> Tr for S<N, N> { }
            impl Tr for S<3, 5> { }
        }

        goal {
            exists<const N, const M> { S<N, M>: Tr }
        } yields[SolverChoice::slg_default()] {
            expect![["Ambiguous; no inference guidance"]]
        } yields[SolverChoice::recursive_default()] {
            expect![["Ambiguous; no inference guidance"]]
        }
    }
}
