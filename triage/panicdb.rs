// TRIAGE ONLY (dynamic): never run by a registered check.  Copy to tests/integration/zz_panicdb.rs of a scratch copy of /repo,
// add `mod zz_panicdb;` to tests/integration/mod.rs, run `cargo test --offline --test lib zz_panicdb -- --nocapture --test-threads 1`.

use chalk_integration::db::ChalkDatabase;
use chalk_integration::interner::ChalkIr as I;
use chalk_integration::query::LoweringDatabase;
use chalk_integration::SolverChoice;
use chalk_ir::*;
use chalk_solve::rust_ir::*;
use chalk_solve::RustIrDatabase;
use std::cell::Cell;
use std::sync::Arc;

#[derive(Debug)]
struct PanicDb<'a> { inner: &'a ChalkDatabase, n: Cell<usize>, at: Cell<usize> }
impl<'a> PanicDb<'a> {
    fn tick(&self) { let n = self.n.get() + 1; self.n.set(n); if n == self.at.get() { panic!("injected panic at db call {}", n); } }
}
impl<'a> UnificationDatabase<I> for PanicDb<'a> {
    fn fn_def_variance(&self, id: FnDefId<I>) -> Variances<I> { self.inner.unification_database().fn_def_variance(id) }
    fn adt_variance(&self, id: AdtId<I>) -> Variances<I> { self.inner.unification_database().adt_variance(id) }
}
impl<'a> RustIrDatabase<I> for PanicDb<'a> {
    fn custom_clauses(&self) -> Vec<ProgramClause<I>> { self.tick(); self.inner.custom_clauses() }
    fn associated_ty_data(&self, ty: AssocTypeId<I>) -> Arc<AssociatedTyDatum<I>> { self.tick(); self.inner.associated_ty_data(ty) }
    fn trait_datum(&self, id: TraitId<I>) -> Arc<TraitDatum<I>> { self.tick(); self.inner.trait_datum(id) }
    fn adt_datum(&self, id: AdtId<I>) -> Arc<AdtDatum<I>> { self.tick(); self.inner.adt_datum(id) }
    fn coroutine_datum(&self, id: CoroutineId<I>) -> Arc<CoroutineDatum<I>> { self.inner.coroutine_datum(id) }
    fn coroutine_witness_datum(&self, id: CoroutineId<I>) -> Arc<CoroutineWitnessDatum<I>> { self.inner.coroutine_witness_datum(id) }
    fn adt_repr(&self, id: AdtId<I>) -> Arc<AdtRepr<I>> { self.inner.adt_repr(id) }
    fn adt_size_align(&self, id: AdtId<I>) -> Arc<AdtSizeAlign> { self.inner.adt_size_align(id) }
    fn fn_def_datum(&self, id: FnDefId<I>) -> Arc<FnDefDatum<I>> { self.inner.fn_def_datum(id) }
    fn impl_datum(&self, id: ImplId<I>) -> Arc<ImplDatum<I>> { self.tick(); self.inner.impl_datum(id) }
    fn associated_ty_from_impl(&self, i: ImplId<I>, a: AssocTypeId<I>) -> Option<AssociatedTyValueId<I>> { self.inner.associated_ty_from_impl(i, a) }
    fn associated_ty_value(&self, id: AssociatedTyValueId<I>) -> Arc<AssociatedTyValue<I>> { self.inner.associated_ty_value(id) }
    fn opaque_ty_data(&self, id: OpaqueTyId<I>) -> Arc<OpaqueTyDatum<I>> { self.inner.opaque_ty_data(id) }
    fn hidden_opaque_type(&self, id: OpaqueTyId<I>) -> Ty<I> { self.inner.hidden_opaque_type(id) }
    fn impls_for_trait(&self, t: TraitId<I>, p: &[GenericArg<I>], b: &CanonicalVarKinds<I>) -> Vec<ImplId<I>> { self.tick(); self.inner.impls_for_trait(t, p, b) }
    fn local_impls_to_coherence_check(&self, t: TraitId<I>) -> Vec<ImplId<I>> { self.inner.local_impls_to_coherence_check(t) }
    fn impl_provided_for(&self, t: TraitId<I>, ty: &TyKind<I>) -> bool { self.inner.impl_provided_for(t, ty) }
    fn well_known_trait_id(&self, w: WellKnownTrait) -> Option<TraitId<I>> { self.inner.well_known_trait_id(w) }
    fn well_known_assoc_type_id(&self, w: WellKnownAssocType) -> Option<AssocTypeId<I>> { self.inner.well_known_assoc_type_id(w) }
    fn program_clauses_for_env(&self, e: &Environment<I>) -> ProgramClauses<I> { self.tick(); chalk_solve::program_clauses_for_env(self, e) }
    fn interner(&self) -> I { I }
    fn is_object_safe(&self, t: TraitId<I>) -> bool { self.inner.is_object_safe(t) }
    fn closure_kind(&self, c: ClosureId<I>, s: &Substitution<I>) -> ClosureKind { self.inner.closure_kind(c, s) }
    fn closure_inputs_and_output(&self, c: ClosureId<I>, s: &Substitution<I>) -> Binders<FnDefInputsAndOutputDatum<I>> { self.inner.closure_inputs_and_output(c, s) }
    fn closure_upvars(&self, c: ClosureId<I>, s: &Substitution<I>) -> Binders<Ty<I>> { self.inner.closure_upvars(c, s) }
    fn closure_fn_substitution(&self, c: ClosureId<I>, s: &Substitution<I>) -> Substitution<I> { self.inner.closure_fn_substitution(c, s) }
    fn unification_database(&self) -> &dyn UnificationDatabase<I> { self }
    fn discriminant_type(&self, ty: Ty<I>) -> Ty<I> { self.inner.discriminant_type(ty) }
}

#[test]
fn e4_panic_mid_search() {
    use chalk_solve::ext::GoalExt;
    std::panic::set_hook(Box::new(|_| {}));
    let text = "trait Foo {} trait Baz {} struct A {} struct B<T> {} impl Baz for A {} impl Foo for A where A: Baz {} impl<T> Foo for B<T> where T: Foo {}";
    for choice in [SolverChoice::slg_default(), SolverChoice::recursive_default()] {
        let db = ChalkDatabase::with(text, choice.clone());
        let program = db.checked_program().unwrap();
        let goal = db.parse_and_lower_goal("B<B<A>>: Foo").unwrap();
        let peeled = goal.into_peeled_goal(I);
        // clean run: count calls
        let pdb = PanicDb { inner: &db, n: Cell::new(0), at: Cell::new(0) };
        let mut fresh = choice.clone().into_solver();
        let want = chalk_integration::tls::set_current_program(&program, || fresh.solve(&pdb, &peeled).map(|s| format!("{}", s.display(I))));
        let total = pdb.n.get();
        let mut bad = vec![];
        for at in 1..=total {
            let pdb = PanicDb { inner: &db, n: Cell::new(0), at: Cell::new(at) };
            let mut solver = choice.clone().into_solver();
            let r1 = std::panic::catch_unwind(std::panic::AssertUnwindSafe(|| chalk_integration::tls::set_current_program(&program, || solver.solve(&pdb, &peeled).map(|s| format!("{}", s.display(I))))));
            assert!(r1.is_err(), "no panic at {}", at);
            pdb.at.set(0);
            let r2 = std::panic::catch_unwind(std::panic::AssertUnwindSafe(|| chalk_integration::tls::set_current_program(&program, || solver.solve(&pdb, &peeled).map(|s| format!("{}", s.display(I))))));
            match r2 { Ok(got) if got == want => {}, Ok(got) => bad.push(format!("at={} got={:?}", at, got)), Err(_) => bad.push(format!("at={} PANIC-on-retry", at)) }
        }
        println!("E4 {:?}: want={:?} db_calls={} bad={:?}", choice, want, total, bad);
    }
}
