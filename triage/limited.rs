// TRIAGE ONLY
use chalk_integration::db::ChalkDatabase;
use chalk_integration::interner::ChalkIr as I;
use chalk_integration::query::LoweringDatabase;
use chalk_integration::SolverChoice;
use chalk_solve::ext::GoalExt;
use std::cell::Cell;

fn run(text: &str, goals: &[&str], choice: SolverChoice) {
    let db = ChalkDatabase::with(text, choice.clone());
    let program = db.checked_program().unwrap();
    let peeled: Vec<_> = goals.iter().map(|g| db.parse_and_lower_goal(g).unwrap().into_peeled_goal(I)).collect();
    let fresh: Vec<_> = peeled.iter().map(|p| { let mut s = choice.clone().into_solver(); chalk_integration::tls::set_current_program(&program, || s.solve(&db, p).map(|s| format!("{}", s.display(I)))) }).collect();
    let mut bad = vec![];
    for gi in 0..peeled.len() {
        for k in 0..40usize {
            let mut solver = choice.clone().into_solver();
            let n = Cell::new(0usize);
            let lim = chalk_integration::tls::set_current_program(&program, || solver.solve_limited(&db, &peeled[gi], &|| { n.set(n.get() + 1); n.get() <= k }).map(|s| format!("{}", s.display(I))));
            if n.get() <= k { break; }
            for (gj, p) in peeled.iter().enumerate() {
                let again = chalk_integration::tls::set_current_program(&program, || solver.solve(&db, p).map(|s| format!("{}", s.display(I))));
                if again != fresh[gj] { bad.push(format!("goal#{} interrupted at {} -> {:?}; then goal#{} = {:?} (fresh {:?})", gi, k, lim, gj, again, fresh[gj])); }
            }
        }
    }
    println!("L4 {:?}: fresh={:?} bad({})={:#?}", choice, fresh, bad.len(), &bad[..bad.len().min(6)]);
}

#[test]
fn l4_interrupted_then_solve() {
    let text = "trait Foo {} struct A {} struct B<T> {} impl Foo for A {} impl<T> Foo for B<T> where T: Foo {}";
    for choice in [SolverChoice::recursive_default(), SolverChoice::slg_default()] {
        run(text, &["B<B<A>>: Foo", "B<A>: Foo"], choice);
    }
    let text2 = "#[auto] trait Send {} struct NotSend {} impl !Send for NotSend {} struct Ptr<T> {} impl<T> Send for Ptr<T> where T: Send {} struct Outer { bad: NotSend, inner: Inner } struct Inner { outer: Ptr<Outer> }";
    run(text2, &["Outer: Send", "Inner: Send"], SolverChoice::recursive_default());
}

#[test]
fn l5_stop_once() {
    std::panic::set_hook(Box::new(|_| {}));
    let text = "trait Marker {} trait First {} trait Second {} struct Leaf {} impl First for Leaf {} impl Second for Leaf where Leaf: First {}";
    for choice in [SolverChoice::recursive_default(), SolverChoice::slg_default()] {
        let db = ChalkDatabase::with(text, choice.clone());
        let program = db.checked_program().unwrap();
        let mut out = vec![];
        for g in ["Leaf: Marker", "Leaf: Second", "Leaf: First, Leaf: Marker"] {
            let p = db.parse_and_lower_goal(g).unwrap().into_peeled_goal(I);
            for k in 1..8usize {
                let mut solver = choice.clone().into_solver();
                let n = Cell::new(0usize);
                let r = std::panic::catch_unwind(std::panic::AssertUnwindSafe(|| chalk_integration::tls::set_current_program(&program, || solver.solve_limited(&db, &p, &|| { n.set(n.get() + 1); n.get() != k }).map(|s| format!("{}", s.display(I))))));
                match r { Err(_) => out.push(format!("{} k={} PANIC", g, k)), Ok(v) => out.push(format!("{} k={} {:?}", g, k, v)) }
            }
        }
        println!("L5 {:?}: {:?}", choice, out);
    }
}
